#!/usr/bin/env python3
"""
Confirm a seeded change kept under /verif/seeded/<id>/ in a scratch worktree (outside /repo and /verif):
  1. demo.py exits 0 on the unchanged tree,
  2. the patch applies and the package still imports,
  3. demo.py exits non-zero on the changed tree,
  4. the existing tests (the given test files, default: the whole suite) still pass - i.e. every test of the
     pinned baseline's stable_pass list that was run still passes.
The outcome is written into seeded/<id>/meta.json under "confirmed".

    python3 harness/confirm_seed.py <id> [tests/test_x.py ...]
"""
import json
import subprocess
import sys
import time
import xml.etree.ElementTree as ET
from pathlib import Path

VERIF = Path(__file__).resolve().parent.parent
PY = "/venv/bin/python"


def run(cmd, cwd, env=None, timeout=7200):
    import os
    e = dict(os.environ)
    e.update(env or {})
    r = subprocess.run(cmd, cwd=cwd, env=e, capture_output=True, text=True, timeout=timeout)
    return r.returncode, (r.stdout + r.stderr)[-1500:]


def main():
    sid = sys.argv[1]
    tests = sys.argv[2:]
    d = VERIF / "seeded" / sid
    meta = json.loads((d / "meta.json").read_text())
    wt = Path(f"/tmp/confirm_{sid}")
    subprocess.run(["git", "-C", "/repo", "worktree", "remove", "--force", str(wt)], capture_output=True)
    subprocess.run(["git", "-C", "/repo", "worktree", "add", "-q", "--detach", str(wt), "HEAD"], check=True)
    res = {"at_repo_commit": subprocess.run(["git", "-C", "/repo", "rev-parse", "--short", "HEAD"], capture_output=True, text=True).stdout.strip()}
    try:
        env = {"PYTHONPATH": str(wt)}
        rc0, out0 = run([PY, str(d / "demo.py")], wt, env)
        res["demo_unchanged_rc"] = rc0
        subprocess.run(["git", "-C", str(wt), "apply", str(d / "patch.diff")], check=True)
        rci, _ = run([PY, "-c", "import molgri.space.fullgrid, molgri.molecules.transitions, molgri.io, molgri.molecules.pts"], wt, env)
        res["imports_rc"] = rci
        rc1, out1 = run([PY, str(d / "demo.py")], wt, env)
        res["demo_changed_rc"] = rc1
        res["demo_changed_tail"] = out1[-400:]
        t0 = time.time()
        junit = f"/tmp/confirm_{sid}.xml"
        cmd = [PY, "-m", "pytest", "-q", "-p", "no:cacheprovider", "--timeout=900", "--continue-on-collection-errors",
               f"--junitxml={junit}"] + tests
        rct, outt = run(cmd, wt, env, timeout=4 * 3600)
        base = json.load(open("/root/.vp/BASELINE.json"))
        stable = set(base["stable_pass"])
        ran, failed = set(), []
        for tc in ET.parse(junit).getroot().iter("testcase"):
            name = f"{tc.get('classname')}::{tc.get('name')}"
            ran.add(name)
            if name in stable and (tc.find("failure") is not None or tc.find("error") is not None):
                failed.append(name)
        res["tests"] = {"files": tests or "whole suite", "stable_run": len(ran & stable), "stable_failed": failed,
                        "wall_s": round(time.time() - t0)}
        Path(junit).unlink(missing_ok=True)
        res["ok"] = rc0 == 0 and rci == 0 and rc1 != 0 and not failed and len(ran & stable) > 0
    finally:
        subprocess.run(["git", "-C", "/repo", "worktree", "remove", "--force", str(wt)], capture_output=True)
    meta["confirmed"] = res
    (d / "meta.json").write_text(json.dumps(meta, indent=1))
    print(sid, json.dumps(res))
    return 0 if res.get("ok") else 1


if __name__ == "__main__":
    sys.exit(main())
