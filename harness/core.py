"""
Common machinery of every check (DESIGN.md section 2.4).

A  lake build of the Lean project               -> proof obligation
B  forbidden-token grep + axiom audit           -> proof obligation
C  correspondence model <-> implementation      -> recorded through Ctx.corr()
S  failing-input search on the implementation   -> recorded through Ctx.fail()
E  replay of every open known finding           -> through Ctx.fail() with the finding's key

Exit codes: 0 held, 1 violation (a VIOLATION line is printed), 2 harness trouble (never a VIOLATION line).
"""
from __future__ import annotations

import contextlib
import fcntl
import hashlib
import io
import json
import os
import random
import re
import subprocess
import sys
import time
import traceback
from fractions import Fraction
from pathlib import Path

VERIF = Path(__file__).resolve().parent.parent
LEAN = VERIF / "lean"
EVID = Path(os.environ.get("VERIF_EVIDENCE_DIR", VERIF / "evidence"))
REPLAYS = Path(os.environ.get("VERIF_REPLAY_DIR", VERIF / "replays"))
REPO = Path(os.environ.get("MOLGRI_REPO", "/repo"))
ALLOWED_AXIOMS = {"propext", "Classical.choice", "Quot.sound"}
FORBIDDEN = re.compile(r"\bsorry\b|\badmit\b|^\s*axiom\s|native_decide|bv_decide|implemented_by|\bunsafe\s|maxHeartbeats\s+0\b|@\[extern",
                       re.M)

TRUSTED_BASE = [
    "Lean 4.33.0 kernel; axioms of every property theorem are audited to be a subset of {propext, Classical.choice, Quot.sound}",
    "no sorry/admit/axiom/native_decide/bv_decide/implemented_by/unsafe in lean/ (grepped on every run)",
    "hand-written Lean model of the anchored code; tie to /repo = behavioural correspondence check run on every run (this harness, its generators, canonicalisation and the JSON line protocol of Driver.lean)",
    "numpy/scipy/qhull/ARPACK/MDAnalysis/pandas/networkx are parameters of the model (their outputs are inputs), assumed deterministic",
    "IEEE-754 rounding of the implementation is absorbed by the stated comparison tolerance; models compute in exact rationals unless stated",
]


class HarnessError(Exception):
    pass


# ----------------------------------------------------------------------------------------------
# exact numbers
# ----------------------------------------------------------------------------------------------
def rat(x) -> str:
    """Python number -> 'num/den' string, exact."""
    if isinstance(x, Fraction):
        return f"{x.numerator}/{x.denominator}"
    if isinstance(x, int):
        return f"{x}/1"
    f = Fraction(float(x))
    return f"{f.numerator}/{f.denominator}"


def unrat(s) -> Fraction:
    if isinstance(s, int):
        return Fraction(s)
    a, _, b = s.partition("/")
    return Fraction(int(a), int(b) if b else 1)


def fbits(x: float) -> int:
    import struct
    return struct.unpack("<Q", struct.pack("<d", float(x)))[0]


def unfbits(n: int) -> float:
    import struct
    return struct.unpack("<d", struct.pack("<Q", int(n)))[0]


def close(a: float, b: float, rel=1e-9, abs_=1e-12) -> bool:
    a = float(a)
    b = float(b)
    if a == b:
        return True
    return abs(a - b) <= abs_ + rel * max(abs(a), abs(b))


@contextlib.contextmanager
def quiet():
    """Suppress the library's prints."""
    buf = io.StringIO()
    with contextlib.redirect_stdout(buf):
        yield buf


def errname(e: BaseException) -> str:
    n = type(e).__name__
    return n if n in ("ValueError", "AssertionError", "IndexError", "TypeError", "AttributeError", "KeyError",
                      "ZeroDivisionError", "SyntaxError", "NameError") else "other:" + n


# ----------------------------------------------------------------------------------------------
# Lean side
# ----------------------------------------------------------------------------------------------
def _lake(args, timeout=3000):
    return subprocess.run(["lake"] + args, cwd=LEAN, capture_output=True, text=True, timeout=timeout)


def lean_sources():
    return sorted(list((LEAN / "Molgri").rglob("*.lean")) + list((LEAN / "drivers").glob("*.lean")))


def strip_comments(src: str) -> str:
    # remove /- ... -/ (nested) and -- line comments
    out = []
    i = 0
    depth = 0
    n = len(src)
    while i < n:
        if src.startswith("/-", i):
            depth += 1
            i += 2
        elif depth and src.startswith("-/", i):
            depth -= 1
            i += 2
        elif depth:
            if src[i] == "\n":
                out.append("\n")
            i += 1
        elif src.startswith("--", i):
            while i < n and src[i] != "\n":
                i += 1
        else:
            out.append(src[i])
            i += 1
    return "".join(out)


def load_theorems(prop: str) -> list:
    f = LEAN / "theorems" / f"{prop}.json"
    return json.loads(f.read_text()) if f.exists() else []


def build_and_audit(prop: str, tier: str = "quick") -> dict:
    """Steps A and B.  Returns {'ok':bool, 'obligations':n, 'discharged':m, 'problems':[...], 'theorems':[...]}."""
    res = {"ok": True, "problems": [], "obligations": 0, "discharged": 0, "theorems": [], "axioms": {}}
    lock = open(LEAN / ".build.lock", "w")
    fcntl.flock(lock, fcntl.LOCK_EX)
    try:
        # only what this property needs: its theorem modules and its driver handler (setup_cmd builds everything)
        targets = sorted({t["module"] for t in load_theorems(prop)} | {f"Molgri.Drv.{prop}"})
        r = _lake(["build"] + targets)
        if r.returncode != 0:
            res["ok"] = False
            res["problems"].append("lake build failed: " + (r.stdout + r.stderr)[-2000:])
    finally:
        fcntl.flock(lock, fcntl.LOCK_UN)
        lock.close()
    # A2 (thorough tier): independent re-check of the compiled theorem modules with leanchecker
    if tier == "thorough" and res["ok"]:
        mods = sorted({t["module"] for t in load_theorems(prop)})
        try:
            r = _lake(["env", "leanchecker"] + mods, timeout=3000)
            res["leanchecker"] = "ok" if r.returncode == 0 else "failed"
            if r.returncode != 0:
                res["ok"] = False
                res["problems"].append("leanchecker rejected " + " ".join(mods) + ": " + (r.stdout + r.stderr)[-1500:])
        except subprocess.TimeoutExpired:
            res["leanchecker"] = "timeout (not counted)"
    # B1 forbidden tokens
    for p in lean_sources():
        m = FORBIDDEN.search(strip_comments(p.read_text()))
        if m:
            res["ok"] = False
            res["problems"].append(f"forbidden token {m.group(0).strip()!r} in {p.relative_to(VERIF)}")
    # B2 axiom audit of this property's theorems
    thms = load_theorems(prop)
    res["theorems"] = thms
    res["obligations"] = len(thms)
    if not thms:
        res["ok"] = False
        res["problems"].append(f"no theorems registered for {prop}")
        return res
    if not res["ok"]:
        return res
    audit_dir = LEAN / ".audit"
    audit_dir.mkdir(exist_ok=True)
    af = audit_dir / f"Audit_{prop}_{os.getpid()}.lean"
    mods = sorted({t["module"] for t in thms})
    body = "".join(f"import {m}\n" for m in mods) + "".join(f"#print axioms {t['name']}\n" for t in thms)
    af.write_text(body)
    try:
        r = _lake(["env", "lean", str(af)], timeout=1200)
    finally:
        with contextlib.suppress(FileNotFoundError):
            af.unlink()
    out = r.stdout + r.stderr
    # parse "'name' depends on axioms: [a, b]" / "'name' does not depend on any axioms"
    found = {}
    for m in re.finditer(r"'(\S+)' depends on axioms: \[([^\]]*)\]", out, re.S):
        found[m.group(1)] = {a.strip() for a in m.group(2).replace("\n", " ").split(",") if a.strip()}
    for m in re.finditer(r"'(\S+)' does not depend on any axioms", out):
        found[m.group(1)] = set()
    for t in thms:
        nm = t["name"]
        if nm not in found:
            res["ok"] = False
            res["problems"].append(f"theorem {nm} not found / audit failed: {out[-600:]}")
            continue
        extra = found[nm] - ALLOWED_AXIOMS
        res["axioms"][nm] = sorted(found[nm])
        if extra:
            res["ok"] = False
            res["problems"].append(f"theorem {nm} depends on non-standard axioms {sorted(extra)}")
        else:
            res["discharged"] += 1
    return res


class LeanDriver:
    """Batch line protocol: feed a list of dict ops, get a list of results ({'ok':..} / {'err':..})."""

    def __init__(self, prop):
        self.calls = 0
        self.lines = 0
        self.file = f"drivers/{prop}.lean"

    def run(self, ops: list, timeout=3000) -> list:
        if not ops:
            return []
        self.calls += 1
        self.lines += len(ops)
        data = "\n".join(json.dumps(o, separators=(",", ":")) for o in ops) + "\n"
        r = subprocess.run(["lake", "env", "lean", "--run", self.file], cwd=LEAN, input=data,
                           capture_output=True, text=True, timeout=timeout)
        outs = [l for l in r.stdout.split("\n") if l.strip()]
        if r.returncode != 0 or len(outs) != len(ops):
            raise HarnessError(f"driver failed rc={r.returncode} lines={len(outs)}/{len(ops)}: {r.stderr[-1500:]} {r.stdout[-500:]}")
        return [json.loads(l) for l in outs]


# ----------------------------------------------------------------------------------------------
# context of one check run
# ----------------------------------------------------------------------------------------------
class Ctx:
    def __init__(self, prop: str, tier: str, seed: int):
        self.prop = prop
        self.tier = tier
        self.seed = seed
        self.rng = random.Random(f"{prop}-{seed}")
        self.t0 = time.time()
        self.evaluations = 0
        self.nontrivial = set()
        self.samples = []
        self.dist = {}
        self.corr_breaks = []        # correspondence disagreements (C)
        self.failures = []           # failing inputs of the property on the implementation (S)
        self.notes = []
        self.driver = LeanDriver(prop)
        self.rule = ""
        self.exhaustive = None
        self.extra_cov = {}
        self.budget_s = None
        ff = VERIF / "findings" / f"{prop}.json"
        kf = json.loads(ff.read_text()) if ff.exists() else {}
        self.open_findings = kf.get("open", [])
        self.fixed_findings = kf.get("fixed", [])

    # -- budget --------------------------------------------------------------------------------
    def time_left(self) -> float:
        if self.budget_s is None:
            return 1e9
        return self.budget_s - (time.time() - self.t0)

    @property
    def quick(self):
        return self.tier == "quick"

    def nprng(self, salt=""):
        import numpy as np
        h = int(hashlib.sha256(f"{self.prop}-{self.seed}-{salt}".encode()).hexdigest()[:16], 16)
        return np.random.default_rng(h)

    # -- bookkeeping ---------------------------------------------------------------------------
    def count(self, n=1):
        self.evaluations += n

    def nt(self, key):
        """register a distinct non-trivial case (by a hashable key)"""
        self.nontrivial.add(key if isinstance(key, (str, int, tuple)) else json.dumps(key, sort_keys=True, default=str))

    def sample(self, case, limit=6):
        if len(self.samples) < limit:
            self.samples.append(case)

    def branch(self, name, n=1):
        self.dist[name] = self.dist.get(name, 0) + n

    def model(self, ops):
        return self.driver.run(ops)

    def corr(self, what: str, case, impl, model):
        """record a correspondence disagreement"""
        if len(self.corr_breaks) < 20:
            self.corr_breaks.append({"correspondence": what, "input": case, "implementation": impl, "model": model})
        self.branch("corr_break")

    def fail(self, key: str, what: str, case, expected=None, observed=None):
        """record an input on which the property fails on the implementation. `key` identifies the
        failing input / call site for matching against known_findings.json."""
        self.failures.append({"key": key, "what": what, "input": case, "expected": expected, "observed": observed})
        self.branch("oracle_fail")

    def note(self, s):
        self.notes.append(s)

    # -- decision ------------------------------------------------------------------------------
    def finish(self, audit: dict) -> int:
        wall = time.time() - self.t0
        # every registered non-trivial case was evaluated: a module that counted coarser units must not under-report
        self.evaluations = max(self.evaluations, len(self.nontrivial))
        open_keys = {f["key"]: f for f in self.open_findings}
        known_hit, unlisted = {}, []
        for f in self.failures:
            if f["key"] in open_keys:
                known_hit.setdefault(f["key"], f)
            else:
                unlisted.append(f)
        lines = []
        for k, f in known_hit.items():
            lines.append(f"KNOWN-FINDING: property={self.prop} {k}: {open_keys[k]['what']}")
        broken = []
        if not audit["ok"]:
            broken.append({"kind": "proof-obligation", "problems": audit["problems"]})
        if self.corr_breaks:
            broken.append({"kind": "correspondence", "first": self.corr_breaks[0], "count": self.dist.get("corr_break", 0),
                           "more": self.corr_breaks[1:5]})
        rc = 0
        replay_path = None
        if unlisted or broken:
            rc = 1
            REPLAYS.mkdir(exist_ok=True)
            replay_path = REPLAYS / f"{self.prop}_{self.tier}_{self.seed}.json"
            shown = replay_path.relative_to(VERIF) if VERIF in replay_path.parents else replay_path
            rep = {"property": self.prop, "tier": self.tier, "seed": self.seed,
                   "failing_inputs": unlisted[:10], "n_failing_inputs": len(unlisted),
                   "broken": broken,
                   "how_to_replay": f"/venv/bin/python harness/run.py {self.prop} --replay {shown}"}
            if not unlisted:
                rep["no_failing_input_found"] = True
                rep["no_longer_checks"] = [b["kind"] + ": " + (b["first"]["correspondence"] if b["kind"] == "correspondence" else "; ".join(b["problems"])[:500]) for b in broken]
            replay_path.write_text(json.dumps(rep, indent=1, default=str))
            tail = "" if unlisted else " no-failing-input-found"
            lines.append(f"VIOLATION property={self.prop} replay={shown}{tail}")
        ev = {
            "property_id": self.prop, "tier": self.tier, "seed": self.seed, "level": "proof",
            "coverage": {
                "obligations": audit["obligations"], "discharged": audit["discharged"],
                "checker_cmd": "cd lean && lake build && lake env lean <generated #print axioms file> (harness/core.py build_and_audit)",
                "trusted_base": TRUSTED_BASE,
                "theorems": [t["name"] for t in audit["theorems"]],
                "axioms_used": audit.get("axioms", {}),
                **({"leanchecker": audit["leanchecker"]} if "leanchecker" in audit else {}),
                "evaluations": self.evaluations,
                "distinct_nontrivial": len(self.nontrivial),
                "rule": self.rule,
                "samples": self.samples or ["(none)"],
                "input_distribution": self.dist,
                "correspondence_disagreements": self.dist.get("corr_break", 0),
                "oracle_failures_unlisted": len(unlisted),
                "known_findings_hit": sorted(known_hit),
                "driver_calls": self.driver.calls, "driver_lines": self.driver.lines,
                **({"exhaustive": self.exhaustive} if self.exhaustive is not None else {}),
                **self.extra_cov,
            },
            "assumptions": self.notes,
            "wall_s": round(wall, 2),
            "violations": 1 if rc else 0,
        }
        EVID.mkdir(exist_ok=True)
        (EVID / f"{self.prop}.json").write_text(json.dumps(ev, indent=1, default=str))
        for l in lines:
            print(l)
        print(f"[{self.prop}] tier={self.tier} seed={self.seed} theorems={audit['discharged']}/{audit['obligations']} "
              f"evaluations={self.evaluations} nontrivial={len(self.nontrivial)} corr_breaks={self.dist.get('corr_break', 0)} "
              f"failures={len(self.failures)} (unlisted {len(unlisted)}) wall={wall:.1f}s rc={rc}")
        return rc


def assert_repo():
    """The implementation under test must be /repo's current working tree."""
    import molgri
    p = Path(molgri.__file__).resolve()
    if REPO.resolve() not in p.parents:
        raise HarnessError(f"molgri imported from {p}, not from {REPO}")
