#!/usr/bin/env python3
"""Regenerates /verif/MANIFEST.json from the table below (run after adding a property check)."""
import json
from pathlib import Path

VERIF = Path(__file__).resolve().parent.parent
PY = "/venv/bin/python"

# one fragment per property: harness/manifest/Cxx.json = {"design": "5.12", "text": ..., "note": ..., "technique": ...}
import os
ONLY = [x for x in os.environ.get("ONLY", "").split(",") if x]   # integrator: restrict to finished properties
CHECKS = {p.stem: json.loads(p.read_text()) for p in sorted((VERIF / "harness" / "manifest").glob("C*.json"))
          if not ONLY or p.stem in ONLY}

ALL = [f"C{i:02d}" for i in range(1, 21)]
PENDING_REASON = "check not built yet in this revision (planned, see DESIGN.md section 9); no claim is made until its model, theorems and correspondence exist"


def aggregate_findings():
    """findings/Cxx.json fragments are the source the checks read; known_findings.json is their aggregate."""
    agg = {"_comment": "aggregate of findings/Cxx.json (the files the checks read). open: genuine defects recorded rather "
                       "than repaired - suppressed only by their exact key, replayed on every run (KNOWN-FINDING line). "
                       "fixed: repaired by a fix: commit in /repo - suppresses nothing; the witness cases run first in every check.",
           "open": [], "fixed": [], "fix_commits": []}
    for p in sorted((VERIF / "findings").glob("C*.json")):
        if ONLY and p.stem not in ONLY:
            continue
        d = json.loads(p.read_text())
        for k in ("open", "fixed"):
            for f in d.get(k, []):
                e = {"property": p.stem, **f}
                if k == "fixed":
                    e["record"] = f"fixed: property={p.stem} {f.get('commit', '?')} {f.get('what', f.get('key', ''))}"
                agg[k].append(e)
        for f in d.get("fixed", []):
            c = f.get("commit")
            if c and c not in agg["fix_commits"]:
                agg["fix_commits"].append(c)
    (VERIF / "known_findings.json").write_text(json.dumps(agg, indent=1) + "\n")
    return agg


def main():
    agg = aggregate_findings()
    checks = []
    for pid in ALL:
        if pid not in CHECKS:
            continue
        c = CHECKS[pid]
        checks.append({
            "property_id": pid,
            "quick_cmd": f"{PY} harness/run.py {pid} --tier quick",
            "thorough_cmd": f"{PY} harness/run.py {pid} --tier thorough",
            "evidence_file": f"evidence/{pid}.json",
            "replay_cmd_template": f"{PY} harness/run.py {pid} --replay {{path}}",
            "engine": "lean4-proof+correspondence",
            "level_claimed": {"category": "proof", "text": c["text"], "design_ref": f"DESIGN.md section {c['design']}"},
            "level_note": c["note"],
            "technique": c["technique"],
        })
    man = {
        "version": 1,
        # build exactly what the registered checks need (their theorem modules and driver handlers)
        "setup_cmd": "cd lean && lake build " + " ".join(sorted(
            {t["module"] for c in checks for t in json.loads((VERIF / "lean" / "theorems" / (c["property_id"] + ".json")).read_text())}
            | {"Molgri.Drv." + c["property_id"] for c in checks})),
        "hooks": {
            "guard": "MOLGRI_VERIF",
            "enable": "no hooks are needed: every observation point is a public function or getter of the package; the guard is recorded but unused",
            "baseline_off_cmd": "cd /repo && /venv/bin/python -m pytest -ra -q -p no:cacheprovider --timeout=900 --continue-on-collection-errors",
            "source_commits": agg["fix_commits"],
            "add_only": True,
        },
        "engines": [{
            "name": "lean4-proof+correspondence",
            "path": "lean/ (models, theorems, Driver.lean) + harness/ (run.py, core.py, props/)",
            "serves_properties": [c["property_id"] for c in checks],
            "kind_free_text": "Lean 4 theorems over hand-written executable models; behavioural correspondence check against /repo's working tree on every run; failing-input search with the property's own oracle",
        }],
        "checks": checks,
        "notes": "exit 0 held / 1 VIOLATION / 2 harness trouble (timeouts, crashes; never a VIOLATION line). VERIF_SEED seeds every random choice. known_findings.json lists open findings (KNOWN-FINDING lines) and fixed ones (witnesses re-run first on every run).",
        "not_applicable": [{"property_id": p, "reason": PENDING_REASON} for p in ALL if p not in CHECKS],
    }
    (VERIF / "MANIFEST.json").write_text(json.dumps(man, indent=1) + "\n")
    print("wrote MANIFEST.json with", len(checks), "checks")


if __name__ == "__main__":
    main()
