"""C01 - SqRA rate matrix (molgri.molecules.transitions.SQRA.get_rate_matrix, transitions.py:306-346).

Correspondence: the Lean model `Molgri.Sqra.getRateMatrix` (Float instance, `drivers/C01.lean`) and the real
`SQRA.get_rate_matrix` on the same csr / row-major coo storages (the arrays scipy built are what the model gets),
entry by entry; error behaviour (AssertionError / ValueError) by name; numpy's `round(.,14)` against the model's.

Oracle (independent of the model): the statement of C01 evaluated on the implementation - entry formula on the
pattern, exact zeros off it, zero row sums, detailed balance below the cap, shift invariance, linearity in D,
independence of the storage form, independence of earlier calls on the same object.
"""
from __future__ import annotations

import hashlib
import json
import math

import numpy as np

import core

RULE = ("structured random symmetric patterns (random density, chain, ring, star, complete, two components, isolated "
        "cells, empty, full-grid-like blocks) on n cells (quick 2..12, thorough up to 60), S,h,V log-uniform in "
        "[1e-3,1e3], energies from mixtures (equal, unit scale, 50, 400 kJ/mol => ~20% of pairs beyond the 500 cap, "
        "differences exactly at / one ulp around the cap, dyadic differences that make rint ties, large common offsets), "
        "T in [50,1000] K (plus a low-temperature class 5..49 K exercising the open overflow finding), D log-uniform; every "
        "combination of csr / row-major coo for the two inputs; plus inputs outside the quantifier "
        "(length mismatch, nnz mismatch, single distance broadcast, n=1). A case is non-trivial when the pattern is "
        "non-empty and the energies are not all equal; distinct by the hash of the whole input")
CHUNK = 250

# CODATA 2018 exact SI values, written here independently of scipy.constants and of the Lean model
KB = 1.380649e-23
NA = 6.02214076e23
R_KJ = KB * NA / 1000.0          # kJ/(mol K)
CAP = 500.0
T_MIN = 50.0                     # main generator: T in [50, 1000] K
LOG_HI = 710.5                   # ln(exact value) above this: float64 must overflow (ln(max double) = 709.78)
LOG_LO = 708.0                   # between LOG_LO and LOG_HI: either finite or inf, entry excluded (counted)
KEY_OVERFLOW = "C01:float64_overflow_at_cap_low_T"


# ----------------------------------------------------------------------------------------------
# generators
# ----------------------------------------------------------------------------------------------
def _pattern(rng, n):
    kind = rng.choice(["density", "density", "density", "chain", "ring", "star", "complete", "two_components",
                       "isolated", "empty", "blocks"])
    pairs = set()
    if kind == "density":
        p = rng.choice([0.1, 0.3, 0.6, 0.9])
        for i in range(n):
            for j in range(i + 1, n):
                if rng.random() < p:
                    pairs.add((i, j))
    elif kind == "chain":
        pairs = {(i, i + 1) for i in range(n - 1)}
    elif kind == "ring":
        pairs = {(i, i + 1) for i in range(n - 1)} | ({(0, n - 1)} if n > 2 else set())
    elif kind == "star":
        c = rng.randrange(n)
        pairs = {(min(c, k), max(c, k)) for k in range(n) if k != c}
    elif kind == "complete":
        pairs = {(i, j) for i in range(n) for j in range(i + 1, n)}
    elif kind == "two_components":
        cut = rng.randint(1, n - 1)
        for i in range(n):
            for j in range(i + 1, n):
                if (i < cut) == (j < cut) and rng.random() < 0.7:
                    pairs.add((i, j))
    elif kind == "isolated":
        alive = [k for k in range(n) if rng.random() < 0.6]
        for a in alive:
            for b in alive:
                if a < b and rng.random() < 0.6:
                    pairs.add((a, b))
    elif kind == "blocks":
        # like FullGrid._get_N_N: n_b orientations per position, position neighbours + orientation neighbours
        nb = rng.choice([1, 2, 3])
        for i in range(n):
            for j in range(i + 1, n):
                if i // nb == j // nb or (i % nb == j % nb and abs(i // nb - j // nb) == 1):
                    pairs.add((i, j))
    return kind, sorted(pairs)


def _logu(rng, lo, hi):
    return math.exp(rng.uniform(math.log(lo), math.log(hi)))


def _energies(rng, n):
    kind = rng.choice(["equal", "unit", "fifty", "four_hundred", "four_hundred", "at_cap", "ties", "offset", "integers",
                       "huge"])
    if kind == "equal":
        e0 = rng.uniform(-100, 100)
        E = [e0] * n
    elif kind == "unit":
        E = [rng.gauss(0, 1) for _ in range(n)]
    elif kind == "fifty":
        E = [rng.gauss(-20, 50) for _ in range(n)]
    elif kind == "four_hundred":
        E = [rng.gauss(0, 400) for _ in range(n)]
    elif kind == "at_cap":
        # differences exactly 500, 500 +- one ulp, just below
        base = rng.choice([0.0, -250.0, 12.5, rng.uniform(-100, 100)])
        E = []
        for k in range(n):
            m = rng.choice([0, 0, 1, 1, 2])
            d = rng.choice([0.0, 0.0, math.ulp(500.0), -math.ulp(500.0), -1e-9, 1e-9, -0.5])
            E.append(base + 500.0 * m + d)
    elif kind == "ties":
        # dyadic energies: differences d with d*1e14 in [2^51, 2^52) are half-integers half of the time
        E = [rng.randrange(0, 64 * 64) / 64.0 for _ in range(n)]
    elif kind == "offset":
        off = rng.choice([1e3, -1e4, 12345.678])
        E = [off + rng.gauss(0, rng.choice([1, 100])) for _ in range(n)]
    elif kind == "integers":
        E = [float(rng.randint(-600, 600)) for _ in range(n)]
    else:  # huge: L-J overlaps
        E = [rng.choice([rng.gauss(0, 10), rng.uniform(1e3, 1e6), -rng.uniform(1e3, 1e6)]) for _ in range(n)]
    return kind, E


def _rate_case(rng, nmax, tag=""):
    n = rng.choice([2, 2, 3, 3, 4, 5, 6, 8, 10, 12]) if nmax <= 12 else rng.randint(13, nmax)
    pk, pairs = _pattern(rng, n)
    ek, E = _energies(rng, n)
    T = rng.choice([300.0, 273.15, T_MIN, 1000.0, _logu(rng, T_MIN, 1000.0), _logu(rng, T_MIN, 1000.0)])
    D = rng.choice([1.0, _logu(rng, 1e-4, 1e2), _logu(rng, 1e-4, 1e2)])
    return {
        "kind": "rate", "n": n, "pattern": pk, "energies": ek,
        "fmtS": rng.choice(["csr", "coo"]), "fmth": rng.choice(["csr", "coo"]),
        "pairs": [list(p) for p in pairs],
        "S": [_logu(rng, 1e-3, 1e3) for _ in pairs],
        "h": [_logu(rng, 1e-3, 1e3) for _ in pairs],
        "V": [_logu(rng, 1e-3, 1e3) for _ in range(n)],
        "E": E, "T": T, "D": D,
        "shift": rng.choice([1.0, -37.5, 1e3, -1e5, rng.uniform(-500, 500)]),
        "D2": _logu(rng, 1e-4, 1e2),
    }


def _corpus():
    """hand-written inputs: one per clause / per planned code change"""
    base = {"kind": "rate", "pattern": "corpus", "energies": "corpus", "shift": 17.25, "D2": 0.37}
    out = []
    # asymmetric energies and volumes, one pair beyond the cap in one direction
    out.append({**base, "n": 3, "fmtS": "csr", "fmth": "csr", "pairs": [[0, 1], [0, 2]], "S": [1.0, 2.0], "h": [3.0, 4.0],
                "V": [1.0, 2.0, 3.0], "E": [0.0, 1.0, 2.0], "T": 300.0, "D": 1.0})
    out.append({**base, "n": 3, "fmtS": "coo", "fmth": "csr", "pairs": [[0, 1], [1, 2]], "S": [2.0, 5.0], "h": [0.5, 3.0],
                "V": [1.0, 2.0, 3.0], "E": [0.0, 3.0, -700.0], "T": 300.0, "D": 0.8})
    # differences exactly at the cap and one ulp next to it
    out.append({**base, "n": 4, "fmtS": "coo", "fmth": "coo", "pairs": [[0, 1], [0, 2], [0, 3], [1, 2], [2, 3]],
                "S": [1.5, 2.5, 3.5, 4.5, 5.5], "h": [0.3, 0.7, 1.1, 1.3, 1.7], "V": [0.5, 1.5, 2.5, 3.5],
                "E": [500.0, 0.0, math.ulp(500.0), -math.ulp(500.0)], "T": 273.15, "D": 2.0})
    # row without neighbour, two components
    out.append({**base, "n": 5, "fmtS": "csr", "fmth": "coo", "pairs": [[0, 1], [3, 4]], "S": [1.0, 7.0], "h": [2.0, 0.1],
                "V": [1.0, 4.0, 9.0, 16.0, 25.0], "E": [-3.0, 4.0, 100.0, 0.25, -0.5], "T": 50.0, "D": 1e-3})
    # no neighbour at all
    out.append({**base, "n": 2, "fmtS": "csr", "fmth": "csr", "pairs": [], "S": [], "h": [], "V": [1.0, 2.0],
                "E": [0.0, 1.0], "T": 300.0, "D": 1.0})
    # the storage order matters: same pattern, many entries per row (a mis-aligned division shows here)
    out.append({**base, "n": 4, "fmtS": "csr", "fmth": "coo",
                "pairs": [[0, 1], [0, 2], [0, 3], [1, 2], [1, 3], [2, 3]], "S": [1.0, 2.0, 3.0, 4.0, 5.0, 6.0],
                "h": [7.0, 11.0, 13.0, 17.0, 19.0, 23.0], "V": [1.0, 2.0, 3.0, 4.0], "E": [10.0, -20.0, 30.0, -40.0],
                "T": 310.0, "D": 1.25})
    # error behaviour (outside the property's quantifier; correspondence only)
    out.append({"kind": "error", "what": "len_mismatch", "n": 3, "fmtS": "csr", "fmth": "csr", "pairs": [[0, 1]],
                "S": [1.0], "h": [1.0], "V": [1.0, 2.0, 3.0], "E": [0.0, 1.0], "T": 300.0, "D": 1.0, "extra_h": []})
    out.append({"kind": "error", "what": "nnz_mismatch", "n": 3, "fmtS": "csr", "fmth": "csr", "pairs": [[0, 1], [0, 2]],
                "S": [1.0, 2.0], "h": [1.0, 3.0], "V": [1.0, 2.0, 3.0], "E": [0.0, 1.0, 2.0], "T": 300.0, "D": 1.0,
                "extra_h": [[1, 2, 5.0]]})
    out.append({"kind": "error", "what": "single_cell", "n": 1, "fmtS": "csr", "fmth": "csr", "pairs": [], "S": [], "h": [],
                "V": [1.0], "E": [0.0], "T": 300.0, "D": 1.0, "extra_h": []})
    return out


def cases(ctx):
    rng = ctx.rng
    # graceful stop on an overloaded machine (normal wall time: quick ~25 s, thorough ~5 min); the rare classes come first
    ctx.budget_s = 100 if ctx.quick else 900
    ctx.note("the driver evaluates the model at Lean's Float (IEEE double; libm exp; rint rebuilt from Float.round): modelled, "
             "not verified; the theorems are about exact fields. Model vs code: rel 1e-11 (diagonal: relative to the row's "
             "magnitude); oracle: rel 1e-10 entries, 1e-12 row sums, 1e-9 detailed balance, 1e-12 linearity")
    ctx.note("main range T in [50,1000] K; below ~42.4 K exp(500/(2RT)) overflows float64 (open finding "
             f"{KEY_OVERFLOW}); entries whose exact value is within e^(+-1.3) of the largest double are excluded and counted")
    ctx.note("S and h are symmetric with a common pattern and are given as scipy builds them from a dense array: canonical csr "
             "or row-major coo (the forms FullGrid produces); unsorted csr / arbitrary-order coo are outside the quantifier")
    yield from _corpus()
    # numpy's round(., 14) against the model's, in batches
    for _ in range(4 if ctx.quick else 40):
        xs = []
        for _k in range(500):
            c = rng.random()
            if c < 0.3:
                xs.append(rng.uniform(-500, 500))
            elif c < 0.6:
                xs.append(rng.randrange(-64 * 600, 64 * 600) / 64.0 + rng.choice([0, 0, 2.0 ** -7, 2.0 ** -9]))
            elif c < 0.8:
                xs.append(rng.choice([-1, 1]) * _logu(rng, 1e-16, 1e3))
            elif c < 0.9:
                xs.append(rng.choice([500.0, 0.0, -0.0, 22.5, 45.0, 2.0 ** 52 / 1e14, 0.5e-14, 1.5e-14, 2.5e-14, -2.5e-14]))
            else:
                xs.append(rng.choice([-1, 1]) * _logu(rng, 1e3, 1e7))
        yield {"kind": "round", "xs": xs}
    # error inputs
    for _ in range(30 if ctx.quick else 300):
        c = _rate_case(rng, 12)
        c["kind"] = "error"
        c["what"] = rng.choice(["len_mismatch", "nnz_mismatch", "broadcast_single_distance", "single_cell"])
        c["extra_h"] = []
        n = c["n"]
        if c["what"] == "len_mismatch":
            c["E"] = c["E"][:-1] if rng.random() < 0.5 else c["E"] + [0.0]
        elif c["what"] == "nnz_mismatch":
            free = [(i, j) for i in range(n) for j in range(i + 1, n) if [i, j] not in c["pairs"]]
            if not free:
                c["pairs"], c["S"], c["h"] = c["pairs"][:-1], c["S"][:-1], c["h"][:-1]
                free = [(i, j) for i in range(n) for j in range(i + 1, n) if [i, j] not in c["pairs"]]
            i, j = rng.choice(free)
            c["extra_h"] = [[i, j, _logu(rng, 1e-3, 1e3)]]
        elif c["what"] == "broadcast_single_distance":
            # distances with ONE stored entry (an asymmetric matrix): numpy broadcasts it over all surfaces
            c["h_single"] = [0, 1, _logu(rng, 1e-3, 1e3)]
        else:
            c.update({"n": 1, "pairs": [], "S": [], "h": [], "V": c["V"][:1], "E": c["E"][:1]})
        for k in ("shift", "D2"):
            c.pop(k, None)
        yield c
    for _ in range(40 if ctx.quick else 400):
        yield _rate_case(rng, 30 if ctx.quick else 60)
    # low temperatures: the 500 kJ/mol cap no longer prevents float64 overflow below ~42.4 K (open finding)
    for _ in range(60 if ctx.quick else 500):
        c = _rate_case(rng, 12)
        c["T"] = rng.choice([42.0, 30.0, 10.0, _logu(rng, 5.0, 42.3), _logu(rng, 20.0, 49.0)])
        c["lowT"] = True
        yield c
    nsmall = 2500 if ctx.quick else 20000
    for _ in range(nsmall):
        yield _rate_case(rng, 12)


# ----------------------------------------------------------------------------------------------
# implementation
# ----------------------------------------------------------------------------------------------
def _dense(case):
    n = case["n"]
    Sd = np.zeros((n, n))
    hd = np.zeros((n, n))
    for (i, j), s, x in zip(case["pairs"], case["S"], case["h"]):
        Sd[i, j] = Sd[j, i] = s
        hd[i, j] = hd[j, i] = x
    for i, j, x in case.get("extra_h", []):
        hd[i, j] = hd[j, i] = x
    if "h_single" in case:
        hd = np.zeros((n, n))
        i, j, x = case["h_single"]
        hd[i, j] = x
    return Sd, hd


def _mk(fmt, dense):
    """the two storage forms the package produces: canonical csr (coo + coo), row-major coo (coo_array(dense))"""
    from scipy.sparse import coo_array, csr_array
    return csr_array(dense) if fmt == "csr" else coo_array(dense)


def _enc(m):
    n = int(m.shape[0])
    if m.format == "csr":
        return {"fmt": "csr", "n": n, "indptr": [int(v) for v in m.indptr], "indices": [int(v) for v in m.indices],
                "data": [core.fbits(v) for v in m.data]}
    return {"fmt": "coo", "n": n, "row": [int(v) for v in m.row], "col": [int(v) for v in m.col],
            "data": [core.fbits(v) for v in m.data]}


def _call(sq, D, T):
    with core.quiet():
        return sq.get_rate_matrix(D, T)


def impl(case):
    if case["kind"] == "round":
        return {"r": [float(v) for v in np.round(np.array(case["xs"], dtype=float), 14)]}
    from molgri.molecules.transitions import SQRA
    Sd, hd = _dense(case)
    Ss, hs = _mk(case["fmtS"], Sd), _mk(case["fmth"], hd)
    out = {"surf": _enc(Ss), "dist": _enc(hs)}
    E = np.array(case["E"], dtype=float)
    V = np.array(case["V"], dtype=float)
    try:
        sq = SQRA(E, V, hs, Ss)
        Q = _call(sq, case["D"], case["T"])
        out.update({"type": type(Q).__name__, "format": getattr(Q, "format", None), "shape": list(Q.shape),
                    "sorted": bool(Q.has_sorted_indices), "Q": Q.toarray().tolist()})
    except Exception as e:
        out["err"] = core.errname(e)
        return out
    if case["kind"] != "rate":
        return out
    # further calls used by the oracle only (the real code again, other arguments)
    try:
        out["Q_D2_same_object"] = _call(sq, case["D2"], case["T"]).toarray().tolist()      # second call, same object
        out["Q_again"] = _call(sq, case["D"], case["T"]).toarray().tolist()                # third call, first arguments
        out["inputs_unchanged"] = bool(np.array_equal(Ss.toarray(), Sd) and np.array_equal(hs.toarray(), hd)
                                       and np.array_equal(E, np.array(case["E"])) and np.array_equal(V, np.array(case["V"])))
        other = {"csr": "coo", "coo": "csr"}
        sq2 = SQRA(E.copy(), V.copy(), _mk(other[case["fmth"]], hd), _mk(other[case["fmtS"]], Sd))
        out["Q_other_format"] = _call(sq2, case["D"], case["T"]).toarray().tolist()
        sq3 = SQRA(E + case["shift"], V.copy(), _mk(case["fmth"], hd), _mk(case["fmtS"], Sd))
        out["Q_shift"] = _call(sq3, case["D"], case["T"]).toarray().tolist()
    except Exception as e:
        out["err2"] = core.errname(e)
    return out


# ----------------------------------------------------------------------------------------------
# correspondence
# ----------------------------------------------------------------------------------------------
def model_ops(case, out):
    if case["kind"] == "round":
        return [{"op": "round14", "xs": [core.fbits(x) for x in case["xs"]]}, {"op": "consts"}]
    return [{"op": "rate", "E": [core.fbits(x) for x in case["E"]], "V": [core.fbits(x) for x in case["V"]],
             "D": core.fbits(case["D"]), "T": core.fbits(case["T"]), "dist": out["dist"], "surf": out["surf"]}]


TINY = 1e-290


def _close(a, b, rel):
    return a == b or abs(a - b) <= TINY + rel * max(abs(a), abs(b))


def _key(case):
    return hashlib.sha256(json.dumps(case, sort_keys=True).encode()).hexdigest()[:20]


def _outside(ctx, case, impl_v, model_v):
    """model and implementation differ on an input the property does not quantify over (no common pattern, unequal
    lengths, a single cell): recorded in the evidence, never a violation"""
    ctx.branch("outside_quantifier_model_differs:" + case["what"])
    if not any(n.startswith("outside the quantifier") for n in ctx.notes):
        ctx.note(f"outside the quantifier ({case['what']}): implementation gives {impl_v}, model {model_v}; the code's error "
                 "behaviour on such inputs is modelled (AssertionError / ValueError / numpy broadcast) but not required")


def compare(ctx, case, out, mouts):
    m = mouts[0]
    if case["kind"] == "round":
        mr = [core.unfbits(b) for b in m["ok"]]
        bad = [(x, a, b) for x, a, b in zip(case["xs"], out["r"], mr) if not (a == b or abs(a - b) <= 1.5e-14)]
        if bad:
            ctx.corr("round14", {"kind": "round", "xs": [bad[0][0]]}, bad[0][1], bad[0][2])
        ctx.branch("round14_values", len(mr))
        ctx.branch("round14_bitwise_equal", sum(1 for a, b in zip(out["r"], mr) if core.fbits(a) == core.fbits(b)))
        ctx.branch("round14_changes_value", sum(1 for x, a in zip(case["xs"], out["r"]) if x != a))
        ctx.branch("round14_tie_inputs", sum(1 for x in case["xs"] if abs(x * 1e14) < 2.0 ** 52 and (x * 1e14) % 1 == 0.5))
        kb, na = [core.unfbits(b) for b in mouts[1]["ok"]]
        from scipy.constants import N_A, k
        if (kb, na) != (k, N_A) or (kb, na) != (KB, NA):
            ctx.corr("constants kB, N_A", case, [k, N_A], [kb, na])
        ctx.nt(("round", _key(case)))
        return
    outside = case["kind"] == "error"     # inputs outside the property's quantifier: the answer is left open
    if "err" in out or "err" in m:
        if out.get("err") != m.get("err"):
            if outside:
                _outside(ctx, case, out.get("err", "ok"), m.get("err", "ok"))
            else:
                ctx.corr("rate/outcome", case, out.get("err", "ok"), m.get("err", "ok"))
        ctx.branch("error:" + str(out.get("err")))
        if outside:
            ctx.nt(("err", _key(case)))
        return
    n = case["n"]
    if out["shape"] != [n, n]:
        ctx.corr("rate/shape", case, out["shape"], [n, n])
        return
    Q = out["Q"]
    M = [[core.unfbits(b) for b in row] for row in m["ok"]]
    if len(M) != n or any(len(r) != n for r in M):
        ctx.corr("rate/model shape", case, [n, n], [len(M)])
        return
    for i in range(n):
        scale = sum(abs(v) for v in M[i])
        for j in range(n):
            a, b = Q[i][j], M[i][j]
            ok = _close(a, b, 1e-11) if i != j else (a == b or abs(a - b) <= TINY + 1e-11 * scale)
            if not ok and not (math.isnan(a) and math.isnan(b)):
                if outside:
                    _outside(ctx, case, {"i": i, "j": j, "value": a}, {"value": b})
                else:
                    ctx.corr("rate/entry", case, {"i": i, "j": j, "value": a}, {"value": b})
                return
    if case["kind"] == "error":
        ctx.branch("error_kind_without_error:" + case["what"])
        ctx.nt(("err", _key(case)))
        return
    # evidence
    E = case["E"]
    ctx.branch(f"fmt:{case['fmtS']}/{case['fmth']}")
    ctx.branch("n<=4" if n <= 4 else "n<=12" if n <= 12 else "n>12")
    ctx.branch("pattern:" + case["pattern"])
    ctx.branch("energies:" + case["energies"])
    nb = sum(1 for i, j in case["pairs"] if abs(E[i] - E[j]) >= CAP)
    ctx.branch("pairs_total", len(case["pairs"]))
    ctx.branch("pairs_beyond_cap", nb)
    ctx.branch("pairs_exactly_at_cap", sum(1 for i, j in case["pairs"] if abs(E[i] - E[j]) == CAP))
    deg = [0] * n
    for i, j in case["pairs"]:
        deg[i] += 1
        deg[j] += 1
    if 0 in deg:
        ctx.branch("has_row_without_neighbour")
    if case["pairs"] and len(set(E)) > 1:
        ctx.nt(_key(case))
    if n == 3 and len(case["pairs"]) == 2:
        ctx.sample(case)


# ----------------------------------------------------------------------------------------------
# oracle: the statement of C01 on the implementation
# ----------------------------------------------------------------------------------------------
def _same(a, b, rel):
    return (math.isnan(a) and math.isnan(b)) or _close(a, b, rel)


def _fail_matrix(ctx, key, what, case, A, B, rel):
    """first position where two matrices differ beyond the tolerance (diagonal: relative to the row's magnitude)"""
    n = len(A)
    for i in range(n):
        sc = sum(abs(v) for v in A[i])
        for j in range(n):
            a, b = A[i][j], B[i][j]
            ok = _same(a, b, rel) if i != j else (_same(a, b, 0) or abs(a - b) <= TINY + rel * sc)
            if not ok:
                ctx.fail(key, f"{what} (first at ({i},{j}))", case, expected=b, observed=a)
                return True
    return False


def oracle(ctx, case, out):
    if case["kind"] != "rate":
        return
    if "err" in out or "err2" in out:
        ctx.fail("C01:exception", f"get_rate_matrix raised {out.get('err', out.get('err2'))} on a valid input", case)
        return
    n, E, V, T, D = case["n"], case["E"], case["V"], case["T"], case["D"]
    if out["format"] != "csr" or out["shape"] != [n, n]:
        ctx.fail("C01:return_type", f"returned {out['type']} {out['shape']}, expected csr {n}x{n}", case)
        return
    Q = out["Q"]
    S = {}
    H = {}
    for (i, j), s, x in zip(case["pairs"], case["S"], case["h"]):
        S[(i, j)] = S[(j, i)] = s
        H[(i, j)] = H[(j, i)] = x
    rt2 = 2.0 * R_KJ * T
    # entries whose exact value does not fit float64 (only possible below ~42.4 K, where exp(500/(2RT)) > 1.8e308)
    over, border = set(), set()
    for (i, j) in S:
        x = min(E[i] - E[j], CAP) / rt2        # the code multiplies by exp(x): inf as soon as x alone exceeds 709.78
        lg = math.log(D * S[(i, j)] / (H[(i, j)] * V[i])) + x
        if lg > LOG_HI or x > 709.9:
            over.add((i, j))
        elif lg > LOG_LO or x > 709.6:
            border.add((i, j))
    bad_rows = {i for (i, _j) in over | border}
    if border:
        ctx.branch("excluded_entries_within_overflow_margin", len(border))
    # (1) entry formula on the pattern, zero elsewhere off the diagonal
    for i in range(n):
        for j in range(n):
            if i == j:
                if i not in bad_rows and not math.isfinite(Q[i][i]):
                    ctx.fail("C01:not_finite", f"Q[{i}][{i}] is not finite although every entry of the row fits float64", case)
                    return
                continue
            if (i, j) in over:
                if Q[i][j] != math.inf:
                    ctx.fail("C01:entry_formula", f"Q[{i}][{j}]: exact value exceeds float64, expected inf", case,
                             expected="inf", observed=Q[i][j])
                    return
            elif (i, j) in border:
                continue
            elif (i, j) in S:
                d = E[i] - E[j]
                pref, x = D * S[(i, j)] / (H[(i, j)] * V[i]), min(d, CAP) / rt2
                want = pref * math.exp(x) if x < 700 else math.exp(math.log(pref) + x)   # (x >= 700 only below 50 K)
                if not _close(Q[i][j], want, 1e-10):
                    ctx.fail("C01:entry_formula", f"Q[{i}][{j}] is not D*S/(h*V_i)*exp(min(E_i-E_j,500)/(2RT))", case,
                             expected=want, observed=Q[i][j])
                    return
            elif Q[i][j] != 0:
                ctx.fail("C01:off_pattern", f"Q[{i}][{j}] is non-zero off the pattern", case, expected=0.0, observed=Q[i][j])
                return
    # (2) zero row sums
    for i in range(n):
        if i in bad_rows:
            continue
        tot = math.fsum(Q[i])
        mag = math.fsum(abs(v) for v in Q[i])
        if abs(tot) > 1e-12 * mag + TINY:
            ctx.fail("C01:row_sum", f"row {i} sums to {tot} (magnitude {mag})", case, expected=0.0, observed=tot)
            return
    if over:
        # OPEN FINDING: the property (all T > 0) fails in float64: inf entries, row sum nan
        i = min(over)[0]
        ctx.fail(KEY_OVERFLOW, f"T={T} K: entry {min(over)} overflows float64 although the energy difference is capped at 500 "
                 f"kJ/mol; row {i} sums to {sum(Q[i])}", case, expected=0.0, observed=sum(Q[i]))
    # (3) detailed balance below the cap, in the overflow-free equivalent form
    #     V_i Q_ij exp(-(E_i-E_j)/(2RT)) = V_j Q_ji exp(-(E_j-E_i)/(2RT))   (both sides divided by exp(-(E_i+E_j)/(2RT)))
    for (i, j) in case["pairs"]:
        d = E[i] - E[j]
        if abs(d) < CAP and abs(d) / rt2 < 700 and not ({(i, j), (j, i)} & (over | border)):
            a = V[i] * Q[i][j] * math.exp(-d / rt2)
            b = V[j] * Q[j][i] * math.exp(d / rt2)
            if min(abs(Q[i][j]), abs(Q[j][i])) < 1e-280 and abs(d) / rt2 > 600:
                ctx.branch("db_pairs_skipped_underflow")       # one direction is subnormal / 0 (only below 50 K)
                continue
            if not _close(a, b, 1e-9):
                ctx.fail("C01:detailed_balance", f"V_i pi_i Q_ij != V_j pi_j Q_ji for the pair ({i},{j}) below the cap", case,
                         expected=b, observed=a)
                return
            ctx.branch("db_pairs_checked")
    # (5) repeatable, inputs untouched; (6) csr / row-major coo give the same matrix
    if _fail_matrix(ctx, "C01:history", "a repeated call with the first arguments gives another matrix", case,
                    out["Q_again"], Q, 1e-14):
        return
    if not out["inputs_unchanged"]:
        ctx.fail("C01:inputs_mutated", "get_rate_matrix changed its input arrays", case)
        return
    if _fail_matrix(ctx, "C01:storage_form", "csr and coo inputs give different matrices", case, out["Q_other_format"], Q, 1e-13):
        return
    if over or border or any(not math.isfinite(v) for r in Q for v in r):
        ctx.branch("metamorphic_checks_skipped_overflow")
        return
    # (4) linear in D (second call on the same object)
    f = case["D2"] / D
    want = [[v * f for v in r] for r in Q]
    if any(not math.isfinite(v) for r in out["Q_D2_same_object"] for v in r) or max(abs(math.log(abs(v))) if v else 0 for r in want for v in r) > 690:
        ctx.branch("linearity_skipped_near_overflow")
    elif _fail_matrix(ctx, "C01:linear_in_D", "Q(D2) != (D2/D) Q(D) (second call on the same SQRA object)", case,
                      out["Q_D2_same_object"], want, 1e-12):
        return
    # (7) adding a constant to all energies.  Floating point: (E_i+c)-(E_j+c) differs from E_i-E_j by <= 2 ulp(|E|+|c|);
    #     pairs whose difference is within that distance of the cap may fall on either side, with the same value up to it.
    c = case["shift"]
    emax = max(abs(v) for v in E) + abs(c)
    rel = 1e-10 + 32 * math.ulp(emax) / rt2
    if _fail_matrix(ctx, "C01:shift_invariance", f"Q changes when {c} is added to all energies", case, out["Q_shift"], Q, rel):
        return
