"""C01 - SqRA rate matrix (molgri.molecules.transitions.SQRA.get_rate_matrix, transitions.py:306-346).

Correspondence: the Lean model `Molgri.Sqra.getRateMatrix` (Float instance, `drivers/C01.lean`) and the real
`SQRA.get_rate_matrix` on the same csr / row-major coo storages (the arrays scipy built are what the model gets),
entry by entry; error behaviour (AssertionError / ValueError) by name; numpy's `round(.,14)` against the model's.

Oracle (independent of the model): the statement of C01 evaluated on the implementation - entry formula on the
pattern, exact zeros off it, zero row sums, detailed balance below the cap, shift invariance, linearity in D,
independence of the storage form, independence of earlier calls on the same object.

Input representation: every explored case is additionally handed to the real code in another representation of
the SAME denoted numbers (case["rep"], chosen per case by the seed; exhaustively on three small fixed inputs): the
sparse container class of surfaces and distances independently (csr/coo/csc/lil/bsr/dia, sparray and legacy spmatrix),
integer / float32 data dtypes where the values are exactly representable, energies and volumes as int / float32 arrays,
non-contiguous, negative-stride and read-only views, D and T as Python int/float, numpy scalars, 0-d arrays.  The model
and the oracle take the denoted numbers, so the expected matrix does not depend on the representation.  Which
representations take part was established on the unchanged tree (REP_EXCLUDED lists the others with the reason).
"""
from __future__ import annotations

import hashlib
import json
import math

import numpy as np

import core

RULE = ("structured random symmetric patterns (random density, chain, ring, star, complete, two components, isolated "
        "cells, empty, full-grid-like blocks) on n cells (quick 2..12, thorough up to 60), S,h,V log-uniform in "
        "[1e-3,1e3], energies from mixtures (equal, unit scale, 50, 400 kJ/mol => ~20% of pairs beyond the 500 cap, "
        "differences exactly at / one ulp around the cap, dyadic differences that make rint ties, large common offsets), "
        "T in [50,1000] K (plus a low-temperature class 5..49 K exercising the open overflow finding), D log-uniform; every "
        "combination of csr / row-major coo for the two inputs; plus inputs outside the quantifier "
        "(length mismatch, nnz mismatch, single distance broadcast, n=1). Every case is also run in a second, seed-chosen "
        "representation of the same numbers (12 sparse container classes incl. the legacy *_matrix ones for surfaces and "
        "distances independently, int/float32 dtypes, int/non-contiguous/negative-stride/read-only energies and volumes, 8 "
        "kinds of scalar for D and T; 35% of the cases are integer-valued so that every dtype can carry them exactly; float32 "
        "energies / float32 surfaces data take part only where every exponent is below 80 in magnitude and are judged with "
        "tolerances widened to float32 precision - beyond that only the two witnesses of open finding F23 are run), and "
        "three fixed inputs are swept exhaustively over these families. A case is non-trivial when the pattern is "
        "non-empty and the energies are not all equal; distinct by the hash of the whole input")
CHUNK = 250

# CODATA 2018 exact SI values, written here independently of scipy.constants and of the Lean model
KB = 1.380649e-23
NA = 6.02214076e23
R_KJ = KB * NA / 1000.0          # kJ/(mol K)
CAP = 500.0
T_MIN = 50.0                     # main generator: T in [50, 1000] K
LOG_HI = 710.5                   # ln(exact value) above this: float64 must overflow (ln(max double) = 709.78)
LOG_LO = 708.0                   # between LOG_LO and LOG_HI: either finite or inf, entry excluded (counted)
KEY_OVERFLOW = "C01:float64_overflow_at_cap_low_T"

# ----------------------------------------------------------------------------------------------
# input representations (established on the unchanged tree: all of these give the csr_array/float64 matrix bit for bit)
# ----------------------------------------------------------------------------------------------
FAMILIES = ["csr_array", "coo_array", "csc_array", "lil_array", "bsr_array", "dia_array",
            "csr_matrix", "coo_matrix", "csc_matrix", "lil_matrix", "bsr_matrix", "dia_matrix"]
S_DTYPES = ["float64", "int64", "int32"]                 # surfaces data (float32: only where F32_SAFE, see below)
H_DTYPES = ["float64", "float32", "int64", "int32"]      # distances data
E_REPS = ["f64", "i64", "i32", "noncontig", "negstride", "readonly", "noncontig_readonly"]      # (float32: where F32_SAFE)
V_REPS = ["f64", "f32", "i64", "i32", "noncontig", "negstride", "readonly", "noncontig_readonly"]
SCALARS = ["float", "int", "np.float64", "np.float32", "np.int64", "np.int32", "0d", "0d_int"]
INT_SCALARS = {"int", "np.int64", "np.int32", "0d_int"}
# float32 energies / float32 surfaces data: np.exp resp. the whole matrix is evaluated in float32 (open finding F23,
# KEY_F32).  They take part in the random sweep only where every exponent stays below F32_SAFE in magnitude (float32
# overflows at 88.7); their float32 precision is then judged with the widened tolerances of _rep_tol.
KEY_F32 = "C01:float32_exp_overflow_below_cap"
F32_SAFE = 80.0
F32_HI, F32_LO, F32_UNDER = 88.9, 88.5, -87.0      # ln(max float32) = 88.72; below -87.3 float32 is subnormal
REP_DEFAULT = {"S": "csr_array", "h": "csr_array", "Sdt": "float64", "hdt": "float64", "E": "f64", "V": "f64",
               "D": "float", "T": "float"}
REP_EXCLUDED = {
    "dok_array / dok_matrix (surfaces or distances)": "raises AttributeError on the unchanged tree (no .data attribute; the "
                                                      "code prints surfaces.data.shape)",
    "energies / volumes as Python list or tuple": "raises TypeError on the unchanged tree (indexed with an index array)",
    "integer surfaces data together with an integer D (int, np.int64, np.int32, 0-d int)": "raises UFuncTypeError on the "
        "unchanged tree (D*S stays integer, in-place true division cannot cast)",
    "object-dtype energies / volumes, column vectors (n,1)": "raise TypeError / UFuncTypeError / ValueError on the unchanged tree",
    "float32 energies array / float32 surfaces data with an exponent of magnitude >= 80": "open finding F23 (" + KEY_F32 + "): "
        "np.exp resp. the matrix data are float32 and overflow above 88.7, e.g. E=[450,0] (float32), S=h=V=1, D=1, T=300 K gives "
        "[[-inf,inf],..], row sum nan, where float64 gives 1.4969768712880375e+39. Only the two stored witnesses are run in that "
        "regime; with all exponents below 80 both kinds ARE part of the random sweep, judged with tolerances widened to float32 "
        "precision (entries rel 1e-4 for float32 energies, 2e-6 for float32 surfaces; row sums 2e-5 of the row's magnitude)",
    "csr with unsorted column indices, coo not in row-major order, explicitly stored zeros": "outside the quantifier (csr or "
        "row-major coo as the package produces them, positive S and h)",
    "bsr with blocks larger than 1x1 (what bsr_array(dense) may choose by itself)": "the blocks store explicit zeros, which "
        "are outside the quantifier (pattern = stored entries, positive S and h); on the unchanged tree: ValueError when one "
        "input has them, nan entries (0/0) when both have them; bsr with 1x1 blocks is part of the sweep",
    "duplicate coordinates in coo": "not the same matrix for the unchanged tree: s1/h1 + s2/h2 instead of (s1+s2)/(h1+h2), or "
        "ValueError when only one input has them",
}


# ----------------------------------------------------------------------------------------------
# generators
# ----------------------------------------------------------------------------------------------
def _pattern(rng, n):
    kind = rng.choice(["density", "density", "density", "chain", "ring", "star", "complete", "two_components",
                       "isolated", "empty", "blocks"])
    pairs = set()
    if kind == "density":
        p = rng.choice([0.1, 0.3, 0.6, 0.9])
        for i in range(n):
            for j in range(i + 1, n):
                if rng.random() < p:
                    pairs.add((i, j))
    elif kind == "chain":
        pairs = {(i, i + 1) for i in range(n - 1)}
    elif kind == "ring":
        pairs = {(i, i + 1) for i in range(n - 1)} | ({(0, n - 1)} if n > 2 else set())
    elif kind == "star":
        c = rng.randrange(n)
        pairs = {(min(c, k), max(c, k)) for k in range(n) if k != c}
    elif kind == "complete":
        pairs = {(i, j) for i in range(n) for j in range(i + 1, n)}
    elif kind == "two_components":
        cut = rng.randint(1, n - 1)
        for i in range(n):
            for j in range(i + 1, n):
                if (i < cut) == (j < cut) and rng.random() < 0.7:
                    pairs.add((i, j))
    elif kind == "isolated":
        alive = [k for k in range(n) if rng.random() < 0.6]
        for a in alive:
            for b in alive:
                if a < b and rng.random() < 0.6:
                    pairs.add((a, b))
    elif kind == "blocks":
        # like FullGrid._get_N_N: n_b orientations per position, position neighbours + orientation neighbours
        nb = rng.choice([1, 2, 3])
        for i in range(n):
            for j in range(i + 1, n):
                if i // nb == j // nb or (i % nb == j % nb and abs(i // nb - j // nb) == 1):
                    pairs.add((i, j))
    return kind, sorted(pairs)


def _logu(rng, lo, hi):
    return math.exp(rng.uniform(math.log(lo), math.log(hi)))


def _energies(rng, n):
    kind = rng.choice(["equal", "unit", "fifty", "four_hundred", "four_hundred", "at_cap", "ties", "offset", "integers",
                       "huge"])
    if kind == "equal":
        e0 = rng.uniform(-100, 100)
        E = [e0] * n
    elif kind == "unit":
        E = [rng.gauss(0, 1) for _ in range(n)]
    elif kind == "fifty":
        E = [rng.gauss(-20, 50) for _ in range(n)]
    elif kind == "four_hundred":
        E = [rng.gauss(0, 400) for _ in range(n)]
    elif kind == "at_cap":
        # differences exactly 500, 500 +- one ulp, just below
        base = rng.choice([0.0, -250.0, 12.5, rng.uniform(-100, 100)])
        E = []
        for k in range(n):
            m = rng.choice([0, 0, 1, 1, 2])
            d = rng.choice([0.0, 0.0, math.ulp(500.0), -math.ulp(500.0), -1e-9, 1e-9, -0.5])
            E.append(base + 500.0 * m + d)
    elif kind == "ties":
        # dyadic energies: differences d with d*1e14 in [2^51, 2^52) are half-integers half of the time
        E = [rng.randrange(0, 64 * 64) / 64.0 for _ in range(n)]
    elif kind == "offset":
        off = rng.choice([1e3, -1e4, 12345.678])
        E = [off + rng.gauss(0, rng.choice([1, 100])) for _ in range(n)]
    elif kind == "integers":
        E = [float(rng.randint(-600, 600)) for _ in range(n)]
    else:  # huge: L-J overlaps
        E = [rng.choice([rng.gauss(0, 10), rng.uniform(1e3, 1e6), -rng.uniform(1e3, 1e6)]) for _ in range(n)]
    return kind, E


def _integral(vals):
    return all(float(v).is_integer() and abs(v) < 2 ** 31 for v in vals)


def _f32exact(vals):
    return all(float(np.float32(v)) == float(v) for v in vals)


def _scalar_ok(kind, x):
    if kind in INT_SCALARS:
        return _integral([x])
    if kind == "np.float32":
        return _f32exact([x])
    return True


def _f32_safe(case, which):
    """float32 energies ('E') / float32 surfaces data ('S') can carry this case without leaving float32's range"""
    if not _f32exact(case["E"] if which == "E" else case["S"]):
        return False
    rt2 = 2.0 * R_KJ * case["T"]
    for (i, j), sv, hv in zip(case["pairs"], case["S"], case["h"]):
        for a, b in ((i, j), (j, i)):
            x = abs(case["E"][a] - case["E"][b]) / rt2
            if which == "E" and x >= F32_SAFE:
                return False
            if which == "S" and x + abs(math.log(case["D"] * sv / (hv * case["V"][a]))) >= F32_SAFE:
                return False
    return True


def _choose_rep(rng, case):
    """another representation of the same denoted input, compatible with its values (integer dtypes only for integer
    values, float32 only for exactly representable ones); never a combination that the unchanged tree rejects"""
    rep = {"S": rng.choice(FAMILIES), "h": rng.choice(FAMILIES)}
    if rng.random() < 0.5:                       # legacy spmatrix at least on one side in half of the cases
        rep[rng.choice(["S", "h"])] = rng.choice(FAMILIES[6:])
    sdt = [d for d in S_DTYPES if d == "float64" or _integral(case["S"])]
    hdt = [d for d in H_DTYPES if d == "float64" or (_f32exact(case["h"]) if d == "float32" else _integral(case["h"]))]
    if _f32_safe(case, "S"):
        sdt = sdt + ["float32", "float32"]
    rep["Sdt"], rep["hdt"] = rng.choice(sdt), rng.choice(hdt)
    rep["E"] = rng.choice([k for k in E_REPS if k not in ("i64", "i32") or _integral(case["E"])]
                          + (["f32", "f32"] if _f32_safe(case, "E") else []))
    rep["V"] = rng.choice([k for k in V_REPS if (k not in ("i64", "i32") or _integral(case["V"]))
                           and (k != "f32" or _f32exact(case["V"]))])
    rep["D"] = rng.choice([k for k in SCALARS if _scalar_ok(k, case["D"]) and not (rep["Sdt"] != "float64" and k in INT_SCALARS)])
    rep["T"] = rng.choice([k for k in SCALARS if _scalar_ok(k, case["T"])])
    return rep


def _rate_case(rng, nmax, tag=""):
    n = rng.choice([2, 2, 3, 3, 4, 5, 6, 8, 10, 12]) if nmax <= 12 else rng.randint(13, nmax)
    pk, pairs = _pattern(rng, n)
    ek, E = _energies(rng, n)
    T = rng.choice([300.0, 273.15, T_MIN, 1000.0, _logu(rng, T_MIN, 1000.0), _logu(rng, T_MIN, 1000.0)])
    D = rng.choice([1.0, _logu(rng, 1e-4, 1e2), _logu(rng, 1e-4, 1e2)])
    exact = rng.random() < 0.35      # integer-valued input: every dtype / scalar kind can carry it exactly
    if exact:
        val = lambda: float(rng.choice([1, 2, 3, 4, 5, 7, 8, 16, 25, 64, 100, rng.randint(1, 1000)]))
        E = [float(round(v)) for v in E]
        T = float(rng.choice([50, 100, 273, 300, 500, 1000]))
        D = float(rng.choice([1, 1, 2, 3, 5, 10]))
    else:
        val = lambda: _logu(rng, 1e-3, 1e3)
    case = {
        "kind": "rate", "n": n, "pattern": pk, "energies": ek,
        "fmtS": rng.choice(["csr", "coo"]), "fmth": rng.choice(["csr", "coo"]),
        "pairs": [list(p) for p in pairs],
        "S": [val() for _ in pairs],
        "h": [val() for _ in pairs],
        "V": [val() for _ in range(n)],
        "E": E, "T": T, "D": D,
        "shift": rng.choice([1.0, -37.5, 1e3, -1e5, rng.uniform(-500, 500)]),
        "D2": _logu(rng, 1e-4, 1e2),
    }
    if exact:
        case["exact"] = True
    case["rep"] = _choose_rep(rng, case)
    return case


def _rep_sweep():
    """exhaustive over the representation families, one axis pair at a time, on three small integer-valued inputs"""
    base = {"kind": "rate", "pattern": "rep_sweep", "energies": "rep_sweep", "shift": 17.0, "D2": 0.5, "exact": True,
            "fmtS": "csr", "fmth": "coo"}
    inputs = [
        # 4 cells, one pair beyond the cap, asymmetric everything
        {"n": 4, "pairs": [[0, 1], [0, 2], [1, 2], [2, 3]], "S": [3.0, 5.0, 7.0, 2.0], "h": [2.0, 4.0, 8.0, 16.0],
         "V": [1.0, 2.0, 4.0, 8.0], "E": [0.0, 12.0, -530.0, 7.0], "T": 300.0, "D": 2.0},
        # 2 cells, one pair
        {"n": 2, "pairs": [[0, 1]], "S": [6.0], "h": [3.0], "V": [5.0, 2.0], "E": [-4.0, 9.0], "T": 273.0, "D": 1.0},
        # 6 cells, a cell without neighbour, two components, a triangle
        {"n": 6, "pairs": [[0, 1], [0, 2], [1, 2], [4, 5]], "S": [1.0, 9.0, 4.0, 25.0], "h": [8.0, 2.0, 5.0, 1.0],
         "V": [3.0, 1.0, 7.0, 2.0, 6.0, 4.0], "E": [100.0, -50.0, 25.0, 0.0, 300.0, -300.0], "T": 100.0, "D": 3.0},
    ]
    for inp in inputs:
        for a in FAMILIES:
            for b in FAMILIES:
                yield {**base, **inp, "rep": {**REP_DEFAULT, "S": a, "h": b}}
        for a in S_DTYPES + (["float32"] if _f32_safe(inp, "S") else []):
            for b in H_DTYPES:
                yield {**base, **inp, "rep": {**REP_DEFAULT, "S": "coo_matrix", "h": "csc_array", "Sdt": a, "hdt": b}}
        for a in E_REPS + (["f32"] if _f32_safe(inp, "E") else []):
            for b in V_REPS:
                yield {**base, **inp, "rep": {**REP_DEFAULT, "E": a, "V": b}}
        for a in SCALARS:
            for b in SCALARS:
                yield {**base, **inp, "rep": {**REP_DEFAULT, "D": a, "T": b}}
                if a not in INT_SCALARS:      # integer surfaces need a non-integer D on the unchanged tree
                    yield {**base, **inp, "rep": {**REP_DEFAULT, "S": "csr_matrix", "Sdt": "int64", "D": a, "T": b}}


def _corpus():
    """hand-written inputs: one per clause / per planned code change"""
    base = {"kind": "rate", "pattern": "corpus", "energies": "corpus", "shift": 17.25, "D2": 0.37}
    out = []
    # asymmetric energies and volumes, one pair beyond the cap in one direction
    out.append({**base, "n": 3, "fmtS": "csr", "fmth": "csr", "pairs": [[0, 1], [0, 2]], "S": [1.0, 2.0], "h": [3.0, 4.0],
                "V": [1.0, 2.0, 3.0], "E": [0.0, 1.0, 2.0], "T": 300.0, "D": 1.0})
    out.append({**base, "n": 3, "fmtS": "coo", "fmth": "csr", "pairs": [[0, 1], [1, 2]], "S": [2.0, 5.0], "h": [0.5, 3.0],
                "V": [1.0, 2.0, 3.0], "E": [0.0, 3.0, -700.0], "T": 300.0, "D": 0.8})
    # differences exactly at the cap and one ulp next to it
    out.append({**base, "n": 4, "fmtS": "coo", "fmth": "coo", "pairs": [[0, 1], [0, 2], [0, 3], [1, 2], [2, 3]],
                "S": [1.5, 2.5, 3.5, 4.5, 5.5], "h": [0.3, 0.7, 1.1, 1.3, 1.7], "V": [0.5, 1.5, 2.5, 3.5],
                "E": [500.0, 0.0, math.ulp(500.0), -math.ulp(500.0)], "T": 273.15, "D": 2.0})
    # row without neighbour, two components
    out.append({**base, "n": 5, "fmtS": "csr", "fmth": "coo", "pairs": [[0, 1], [3, 4]], "S": [1.0, 7.0], "h": [2.0, 0.1],
                "V": [1.0, 4.0, 9.0, 16.0, 25.0], "E": [-3.0, 4.0, 100.0, 0.25, -0.5], "T": 50.0, "D": 1e-3})
    # no neighbour at all
    out.append({**base, "n": 2, "fmtS": "csr", "fmth": "csr", "pairs": [], "S": [], "h": [], "V": [1.0, 2.0],
                "E": [0.0, 1.0], "T": 300.0, "D": 1.0})
    # the storage order matters: same pattern, many entries per row (a mis-aligned division shows here)
    out.append({**base, "n": 4, "fmtS": "csr", "fmth": "coo",
                "pairs": [[0, 1], [0, 2], [0, 3], [1, 2], [1, 3], [2, 3]], "S": [1.0, 2.0, 3.0, 4.0, 5.0, 6.0],
                "h": [7.0, 11.0, 13.0, 17.0, 19.0, 23.0], "V": [1.0, 2.0, 3.0, 4.0], "E": [10.0, -20.0, 30.0, -40.0],
                "T": 310.0, "D": 1.25})
    # error behaviour (outside the property's quantifier; correspondence only)
    out.append({"kind": "error", "what": "len_mismatch", "n": 3, "fmtS": "csr", "fmth": "csr", "pairs": [[0, 1]],
                "S": [1.0], "h": [1.0], "V": [1.0, 2.0, 3.0], "E": [0.0, 1.0], "T": 300.0, "D": 1.0, "extra_h": []})
    out.append({"kind": "error", "what": "nnz_mismatch", "n": 3, "fmtS": "csr", "fmth": "csr", "pairs": [[0, 1], [0, 2]],
                "S": [1.0, 2.0], "h": [1.0, 3.0], "V": [1.0, 2.0, 3.0], "E": [0.0, 1.0, 2.0], "T": 300.0, "D": 1.0,
                "extra_h": [[1, 2, 5.0]]})
    out.append({"kind": "error", "what": "single_cell", "n": 1, "fmtS": "csr", "fmth": "csr", "pairs": [], "S": [], "h": [],
                "V": [1.0], "E": [0.0], "T": 300.0, "D": 1.0, "extra_h": []})
    reps = [{"S": "csr_matrix", "h": "csr_matrix"}, {"S": "coo_matrix", "h": "csr_array"}, {"S": "csr_matrix", "h": "coo_matrix"},
            {"S": "lil_matrix", "h": "csc_matrix"}, {"S": "csc_array", "h": "lil_array"}, {"S": "coo_matrix", "h": "coo_matrix"}]
    k = 0
    for c in out:
        if c["kind"] == "rate":
            c["rep"] = {**REP_DEFAULT, **reps[k % len(reps)]}
            k += 1
    return out


def cases(ctx):
    rng = ctx.rng
    # graceful stop on an overloaded machine (normal wall time: quick ~25 s, thorough ~5 min); the rare classes come first
    ctx.budget_s = 100 if ctx.quick else 900
    ctx.note("the driver evaluates the model at Lean's Float (IEEE double; libm exp; rint rebuilt from Float.round): modelled, "
             "not verified; the theorems are about exact fields. Model vs code: rel 1e-11 (diagonal: relative to the row's "
             "magnitude); oracle: rel 1e-10 entries, 1e-12 row sums, 1e-9 detailed balance, 1e-12 linearity")
    ctx.note("main range T in [50,1000] K; below ~42.4 K exp(500/(2RT)) overflows float64 (open finding "
             f"{KEY_OVERFLOW}); entries whose exact value is within e^(+-1.3) of the largest double are excluded and counted")
    ctx.note("S and h are symmetric with a common pattern and are given as scipy builds them from a dense array: canonical csr "
             "or row-major coo (the forms FullGrid produces); unsorted csr / arbitrary-order coo are outside the quantifier")
    yield from _corpus()
    # input representations: what the excluded ones do today (evidence only), then the exhaustive sweep
    yield {"kind": "survey"}
    nsw = 0
    for c in _rep_sweep():
        nsw += 1
        yield c
    ctx.extra_cov["representation_sweep"] = (f"{nsw} cases: on 3 fixed integer-valued inputs all {len(FAMILIES)}x{len(FAMILIES)} container "
                                             f"classes (surfaces x distances), {len(S_DTYPES)}x{len(H_DTYPES)} data dtypes, {len(E_REPS)}x{len(V_REPS)} "
                                             f"energies x volumes array kinds, {len(SCALARS)}x{len(SCALARS)} kinds of D x T (also with integer surfaces); "
                                             "every other explored case carries one seed-chosen representation")
    ctx.extra_cov["representations_in_sweep"] = {"containers": FAMILIES, "surfaces_dtype": S_DTYPES, "distances_dtype": H_DTYPES,
                                                 "energies": E_REPS, "volumes": V_REPS, "D_and_T": SCALARS}
    # numpy's round(., 14) against the model's, in batches
    for _ in range(4 if ctx.quick else 40):
        xs = []
        for _k in range(500):
            c = rng.random()
            if c < 0.3:
                xs.append(rng.uniform(-500, 500))
            elif c < 0.6:
                xs.append(rng.randrange(-64 * 600, 64 * 600) / 64.0 + rng.choice([0, 0, 2.0 ** -7, 2.0 ** -9]))
            elif c < 0.8:
                xs.append(rng.choice([-1, 1]) * _logu(rng, 1e-16, 1e3))
            elif c < 0.9:
                xs.append(rng.choice([500.0, 0.0, -0.0, 22.5, 45.0, 2.0 ** 52 / 1e14, 0.5e-14, 1.5e-14, 2.5e-14, -2.5e-14]))
            else:
                xs.append(rng.choice([-1, 1]) * _logu(rng, 1e3, 1e7))
        yield {"kind": "round", "xs": xs}
    # error inputs
    for _ in range(30 if ctx.quick else 300):
        c = _rate_case(rng, 12)
        c["kind"] = "error"
        c["what"] = rng.choice(["len_mismatch", "nnz_mismatch", "broadcast_single_distance", "single_cell"])
        c["extra_h"] = []
        n = c["n"]
        if c["what"] == "len_mismatch":
            c["E"] = c["E"][:-1] if rng.random() < 0.5 else c["E"] + [0.0]
        elif c["what"] == "nnz_mismatch":
            free = [(i, j) for i in range(n) for j in range(i + 1, n) if [i, j] not in c["pairs"]]
            if not free:
                c["pairs"], c["S"], c["h"] = c["pairs"][:-1], c["S"][:-1], c["h"][:-1]
                free = [(i, j) for i in range(n) for j in range(i + 1, n) if [i, j] not in c["pairs"]]
            i, j = rng.choice(free)
            c["extra_h"] = [[i, j, _logu(rng, 1e-3, 1e3)]]
        elif c["what"] == "broadcast_single_distance":
            # distances with ONE stored entry (an asymmetric matrix): numpy broadcasts it over all surfaces
            c["h_single"] = [0, 1, _logu(rng, 1e-3, 1e3)]
        else:
            c.update({"n": 1, "pairs": [], "S": [], "h": [], "V": c["V"][:1], "E": c["E"][:1]})
        for k in ("shift", "D2", "rep", "exact"):
            c.pop(k, None)
        yield c
    for _ in range(40 if ctx.quick else 400):
        yield _rate_case(rng, 30 if ctx.quick else 60)
    # low temperatures: the 500 kJ/mol cap no longer prevents float64 overflow below ~42.4 K (open finding)
    for _ in range(60 if ctx.quick else 500):
        c = _rate_case(rng, 12)
        c["T"] = rng.choice([42.0, 30.0, 10.0, _logu(rng, 5.0, 42.3), _logu(rng, 20.0, 49.0)])
        c["lowT"] = True
        c["rep"] = _choose_rep(rng, c)
        yield c
    nsmall = 2500 if ctx.quick else 20000
    for _ in range(nsmall):
        yield _rate_case(rng, 12)


# ----------------------------------------------------------------------------------------------
# implementation
# ----------------------------------------------------------------------------------------------
def _dense(case):
    n = case["n"]
    Sd = np.zeros((n, n))
    hd = np.zeros((n, n))
    for (i, j), s, x in zip(case["pairs"], case["S"], case["h"]):
        Sd[i, j] = Sd[j, i] = s
        hd[i, j] = hd[j, i] = x
    for i, j, x in case.get("extra_h", []):
        hd[i, j] = hd[j, i] = x
    if "h_single" in case:
        hd = np.zeros((n, n))
        i, j, x = case["h_single"]
        hd[i, j] = x
    return Sd, hd


def _mk(fmt, dense):
    """the two storage forms the package produces: canonical csr (coo + coo), row-major coo (coo_array(dense))"""
    from scipy.sparse import coo_array, csr_array
    return csr_array(dense) if fmt == "csr" else coo_array(dense)


def _enc(m):
    n = int(m.shape[0])
    if m.format == "csr":
        return {"fmt": "csr", "n": n, "indptr": [int(v) for v in m.indptr], "indices": [int(v) for v in m.indices],
                "data": [core.fbits(v) for v in m.data]}
    return {"fmt": "coo", "n": n, "row": [int(v) for v in m.row], "col": [int(v) for v in m.col],
            "data": [core.fbits(v) for v in m.data]}


def _mk_rep(family, dense, dtype):
    import scipy.sparse as sp
    if family.startswith("bsr"):     # 1x1 blocks: larger blocks store explicit zeros (outside the quantifier, see REP_EXCLUDED)
        return getattr(sp, family)(dense.astype(dtype), blocksize=(1, 1))
    return getattr(sp, family)(dense.astype(dtype))


def _arr_rep(kind, vals):
    a = np.array(vals, dtype=float)
    if kind == "f32":
        return a.astype(np.float32)
    if kind == "i64":
        return a.astype(np.int64)
    if kind == "i32":
        return a.astype(np.int32)
    if kind in ("noncontig", "noncontig_readonly"):
        b = np.full(2 * len(a) + 1, 7.0)
        b[1::2] = a
        a = b[1::2]
    if kind == "negstride":
        a = a[::-1].copy()[::-1]
    if kind in ("readonly", "noncontig_readonly"):
        a.setflags(write=False)
    return a


def _scalar_rep(kind, x):
    return {"float": lambda: float(x), "int": lambda: int(x), "np.float64": lambda: np.float64(x),
            "np.float32": lambda: np.float32(x), "np.int64": lambda: np.int64(int(x)), "np.int32": lambda: np.int32(int(x)),
            "0d": lambda: np.array(float(x)), "0d_int": lambda: np.array(int(x))}[kind]()


def _rep_tol(rep):
    """comparison tolerances for a representation: float64 everywhere unless energies or surfaces data are float32"""
    t = {"entry": 1e-10, "sum": 1e-12, "db": 1e-9, "ref": 1e-13, "model": 1e-11}
    if rep["Sdt"] == "float32":       # the whole matrix is float32: a few roundings of 6e-8 per entry, n per row sum
        t = {"entry": 2e-6, "sum": 2e-5, "db": 1e-5, "ref": 2e-6, "model": 2e-6}
    if rep["E"] == "f32":             # the exponent (|x| < 80, or the witnesses' 90) carries a few float32 roundings
        t.update({"entry": 1e-4, "db": 3e-4, "ref": 1e-4, "model": 1e-4})
    return t


def _f32_sets(case, rep):
    """entries that overflow (over) / may or may not overflow or are subnormal (border) because np.exp or the data are float32"""
    over, border = set(), set()
    fE, fS = rep["E"] == "f32", rep["Sdt"] == "float32"
    if not (fE or fS):
        return over, border
    rt2 = 2.0 * R_KJ * case["T"]
    E, V, D = case["E"], case["V"], case["D"]
    for (i, j), sv, hv in zip(case["pairs"], case["S"], case["h"]):
        for a, b in ((i, j), (j, i)):
            x = min(E[a] - E[b], CAP) / rt2
            lg = math.log(D * sv / (hv * V[a])) + x
            if (fE and x > F32_HI) or (fS and lg > F32_HI):
                over.add((a, b))
            elif (fE and (x > F32_LO or x < F32_UNDER)) or (fS and (lg > F32_LO or lg < F32_UNDER)):
                border.add((a, b))
    return over, border


def _rep_label(rep):
    return (f"surfaces={rep['S']}[{rep['Sdt']}] distances={rep['h']}[{rep['hdt']}] energies={rep['E']} volumes={rep['V']} "
            f"D={rep['D']} T={rep['T']}")


def _survey():
    """what the representations that are NOT part of the sweep do on the tree under test (evidence only)"""
    import scipy.sparse as sp
    from molgri.molecules.transitions import SQRA
    A = np.array([[0.0, 1.0], [1.0, 0.0]])
    E, V = np.array([450.0, 0.0]), np.array([1.0, 1.0])

    def go(e, v, h, sf, D):
        try:
            q = _call(SQRA(e, v, h, sf), D, 300.0).toarray()
            return "returns " + ("a finite matrix" if np.isfinite(q).all() else "inf/nan entries") + f", Q[0][1]={q[0][1]!r}"
        except Exception as ex:
            return "raises " + type(ex).__name__
    return {
        "reference csr_array/float64": go(E, V, sp.csr_array(A), sp.csr_array(A), 1.0),
        "dok_array surfaces": go(E, V, sp.csr_array(A), sp.dok_array(A), 1.0),
        "dok_matrix distances": go(E, V, sp.dok_matrix(A), sp.csr_array(A), 1.0),
        "energies list": go(list(E), V, sp.csr_array(A), sp.csr_array(A), 1.0),
        "volumes tuple": go(E, tuple(V), sp.csr_array(A), sp.csr_array(A), 1.0),
        "int64 surfaces, int D": go(E, V, sp.csr_array(A), sp.csr_array(A.astype(np.int64)), 1),
        "bsr 2x2 blocks, surfaces only": go(E, V, sp.csr_array(A), sp.bsr_array(A, blocksize=(2, 2)), 1.0),
        "bsr 2x2 blocks, both": go(E, V, sp.bsr_array(A, blocksize=(2, 2)), sp.bsr_array(A, blocksize=(2, 2)), 1.0),
        "float32 energies": go(E.astype(np.float32), V, sp.csr_array(A), sp.csr_array(A), 1.0),
        "float32 surfaces": go(E, V, sp.csr_array(A), sp.csr_array(A.astype(np.float32)), 1.0),
    }


def _call(sq, D, T):
    with core.quiet():
        return sq.get_rate_matrix(D, T)


def impl(case):
    if case["kind"] == "round":
        return {"r": [float(v) for v in np.round(np.array(case["xs"], dtype=float), 14)]}
    if case["kind"] == "survey":
        return {"survey": _survey()}
    from molgri.molecules.transitions import SQRA
    Sd, hd = _dense(case)
    Ss, hs = _mk(case["fmtS"], Sd), _mk(case["fmth"], hd)
    out = {"surf": _enc(Ss), "dist": _enc(hs)}
    E = np.array(case["E"], dtype=float)
    V = np.array(case["V"], dtype=float)
    try:
        sq = SQRA(E, V, hs, Ss)
        Q = _call(sq, case["D"], case["T"])
        out.update({"type": type(Q).__name__, "format": getattr(Q, "format", None), "shape": list(Q.shape),
                    "sorted": bool(Q.has_sorted_indices), "Q": Q.toarray().tolist()})
    except Exception as e:
        out["err"] = core.errname(e)
        return out
    if case["kind"] != "rate":
        return out
    # further calls used by the oracle only (the real code again, other arguments)
    try:
        out["Q_D2_same_object"] = _call(sq, case["D2"], case["T"]).toarray().tolist()      # second call, same object
        out["Q_again"] = _call(sq, case["D"], case["T"]).toarray().tolist()                # third call, first arguments
        out["inputs_unchanged"] = bool(np.array_equal(Ss.toarray(), Sd) and np.array_equal(hs.toarray(), hd)
                                       and np.array_equal(E, np.array(case["E"])) and np.array_equal(V, np.array(case["V"])))
        other = {"csr": "coo", "coo": "csr"}
        sq2 = SQRA(E.copy(), V.copy(), _mk(other[case["fmth"]], hd), _mk(other[case["fmtS"]], Sd))
        out["Q_other_format"] = _call(sq2, case["D"], case["T"]).toarray().tolist()
        sq3 = SQRA(E + case["shift"], V.copy(), _mk(case["fmth"], hd), _mk(case["fmtS"], Sd))
        out["Q_shift"] = _call(sq3, case["D"], case["T"]).toarray().tolist()
    except Exception as e:
        out["err2"] = core.errname(e)
    # the same denoted input in another representation (container class, dtypes, array kinds, scalar kinds)
    rep = case.get("rep")
    if rep:
        try:
            Sr, hr = _mk_rep(rep["S"], Sd, rep["Sdt"]), _mk_rep(rep["h"], hd, rep["hdt"])
            Er, Vr = _arr_rep(rep["E"], case["E"]), _arr_rep(rep["V"], case["V"])
            Dr, Tr = _scalar_rep(rep["D"], case["D"]), _scalar_rep(rep["T"], case["T"])
            faithful = (np.array_equal(Sr.toarray(), Sd) and np.array_equal(hr.toarray(), hd)
                        and np.array_equal(np.asarray(Er, dtype=float), E) and np.array_equal(np.asarray(Vr, dtype=float), V)
                        and float(Dr) == case["D"] and float(Tr) == case["T"])
            if not faithful:       # a generator mistake, not the code's: the representation would denote other numbers
                raise core.HarnessError(f"representation {rep} does not denote the numbers of the case")
            Qr = _call(SQRA(Er, Vr, hr, Sr), Dr, Tr)
            out.update({"rep_type": type(Qr).__name__, "rep_format": getattr(Qr, "format", None), "rep_shape": list(Qr.shape),
                        "Q_rep": np.asarray(Qr.toarray(), dtype=float).tolist()})
            out["rep_inputs_unchanged"] = bool(
                np.array_equal(Sr.toarray(), Sd) and np.array_equal(hr.toarray(), hd)
                and np.array_equal(np.asarray(Er, dtype=float), E) and np.array_equal(np.asarray(Vr, dtype=float), V)
                and float(Dr) == case["D"] and float(Tr) == case["T"])
        except core.HarnessError:
            raise
        except Exception as e:
            out["err_rep"] = core.errname(e)
    return out


# ----------------------------------------------------------------------------------------------
# correspondence
# ----------------------------------------------------------------------------------------------
def model_ops(case, out):
    if case["kind"] == "round":
        return [{"op": "round14", "xs": [core.fbits(x) for x in case["xs"]]}, {"op": "consts"}]
    if case["kind"] == "survey":
        return []
    return [{"op": "rate", "E": [core.fbits(x) for x in case["E"]], "V": [core.fbits(x) for x in case["V"]],
             "D": core.fbits(case["D"]), "T": core.fbits(case["T"]), "dist": out["dist"], "surf": out["surf"]}]


TINY = 1e-290


def _close(a, b, rel):
    return a == b or abs(a - b) <= TINY + rel * max(abs(a), abs(b))


def _key(case):
    return hashlib.sha256(json.dumps(case, sort_keys=True).encode()).hexdigest()[:20]


def _outside(ctx, case, impl_v, model_v):
    """model and implementation differ on an input the property does not quantify over (no common pattern, unequal
    lengths, a single cell): recorded in the evidence, never a violation"""
    ctx.branch("outside_quantifier_model_differs:" + case["what"])
    if not any(n.startswith("outside the quantifier") for n in ctx.notes):
        ctx.note(f"outside the quantifier ({case['what']}): implementation gives {impl_v}, model {model_v}; the code's error "
                 "behaviour on such inputs is modelled (AssertionError / ValueError / numpy broadcast) but not required")


def compare(ctx, case, out, mouts):
    if case["kind"] == "survey":
        ctx.extra_cov["representations_excluded"] = REP_EXCLUDED
        ctx.extra_cov["representations_excluded_observed_now"] = out["survey"]
        return
    m = mouts[0]
    if case["kind"] == "round":
        mr = [core.unfbits(b) for b in m["ok"]]
        bad = [(x, a, b) for x, a, b in zip(case["xs"], out["r"], mr) if not (a == b or abs(a - b) <= 1.5e-14)]
        if bad:
            ctx.corr("round14", {"kind": "round", "xs": [bad[0][0]]}, bad[0][1], bad[0][2])
        ctx.branch("round14_values", len(mr))
        ctx.branch("round14_bitwise_equal", sum(1 for a, b in zip(out["r"], mr) if core.fbits(a) == core.fbits(b)))
        ctx.branch("round14_changes_value", sum(1 for x, a in zip(case["xs"], out["r"]) if x != a))
        ctx.branch("round14_tie_inputs", sum(1 for x in case["xs"] if abs(x * 1e14) < 2.0 ** 52 and (x * 1e14) % 1 == 0.5))
        kb, na = [core.unfbits(b) for b in mouts[1]["ok"]]
        from scipy.constants import N_A, k
        if (kb, na) != (k, N_A) or (kb, na) != (KB, NA):
            ctx.corr("constants kB, N_A", case, [k, N_A], [kb, na])
        ctx.nt(("round", _key(case)))
        return
    outside = case["kind"] == "error"     # inputs outside the property's quantifier: the answer is left open
    if "err" in out or "err" in m:
        if out.get("err") != m.get("err"):
            if outside:
                _outside(ctx, case, out.get("err", "ok"), m.get("err", "ok"))
            else:
                ctx.corr("rate/outcome", case, out.get("err", "ok"), m.get("err", "ok"))
        ctx.branch("error:" + str(out.get("err")))
        if outside:
            ctx.nt(("err", _key(case)))
        return
    n = case["n"]
    if out["shape"] != [n, n]:
        ctx.corr("rate/shape", case, out["shape"], [n, n])
        return
    Q = out["Q"]
    M = [[core.unfbits(b) for b in row] for row in m["ok"]]
    if len(M) != n or any(len(r) != n for r in M):
        ctx.corr("rate/model shape", case, [n, n], [len(M)])
        return
    for i in range(n):
        scale = sum(abs(v) for v in M[i])
        for j in range(n):
            a, b = Q[i][j], M[i][j]
            ok = _close(a, b, 1e-11) if i != j else (a == b or abs(a - b) <= TINY + 1e-11 * scale)
            if not ok and not (math.isnan(a) and math.isnan(b)):
                if outside:
                    _outside(ctx, case, {"i": i, "j": j, "value": a}, {"value": b})
                else:
                    ctx.corr("rate/entry", case, {"i": i, "j": j, "value": a}, {"value": b})
                return
    if case["kind"] == "error":
        ctx.branch("error_kind_without_error:" + case["what"])
        ctx.nt(("err", _key(case)))
        return
    # the same input in another representation: the model (which takes the denoted numbers) must still describe the result
    rep = case.get("rep")
    if rep and "Q_rep" in out:
        Qr = out["Q_rep"]
        if out["rep_shape"] != [n, n]:
            ctx.corr("rate/shape [" + _rep_label(rep) + "]", case, out["rep_shape"], [n, n])
            return
        tolm = _rep_tol(rep)["model"]
        o32, b32 = _f32_sets(case, rep)
        skip = {i for (i, _j) in o32 | b32}          # rows with a float32 overflow / subnormal entry (finding F23)
        for i in range(n):
            if i in skip:
                continue
            scale = sum(abs(v) for v in M[i])
            for j in range(n):
                a, b = Qr[i][j], M[i][j]
                ok = _close(a, b, tolm) if i != j else (a == b or abs(a - b) <= TINY + tolm * scale)
                if not ok and not (math.isnan(a) and math.isnan(b)):
                    ctx.corr("rate/entry [" + _rep_label(rep) + "]", case, {"i": i, "j": j, "value": a}, {"value": b})
                    return
        for k in ("S", "h"):
            ctx.branch(f"rep:{'surfaces' if k == 'S' else 'distances'}={rep[k]}")
        ctx.branch("rep:surfaces_dtype=" + rep["Sdt"])
        ctx.branch("rep:distances_dtype=" + rep["hdt"])
        ctx.branch("rep:energies=" + rep["E"])
        ctx.branch("rep:volumes=" + rep["V"])
        ctx.branch("rep:D=" + rep["D"])
        ctx.branch("rep:T=" + rep["T"])
        ctx.branch("rep:returned=" + out["rep_type"])
    elif rep:
        ctx.corr("rate/outcome [" + _rep_label(rep) + "]", case, out.get("err_rep"), "ok")
    # evidence
    E = case["E"]
    ctx.branch(f"fmt:{case['fmtS']}/{case['fmth']}")
    ctx.branch("n<=4" if n <= 4 else "n<=12" if n <= 12 else "n>12")
    ctx.branch("pattern:" + case["pattern"])
    ctx.branch("energies:" + case["energies"])
    nb = sum(1 for i, j in case["pairs"] if abs(E[i] - E[j]) >= CAP)
    ctx.branch("pairs_total", len(case["pairs"]))
    ctx.branch("pairs_beyond_cap", nb)
    ctx.branch("pairs_exactly_at_cap", sum(1 for i, j in case["pairs"] if abs(E[i] - E[j]) == CAP))
    deg = [0] * n
    for i, j in case["pairs"]:
        deg[i] += 1
        deg[j] += 1
    if 0 in deg:
        ctx.branch("has_row_without_neighbour")
    if case["pairs"] and len(set(E)) > 1:
        ctx.nt(_key(case))
    if n == 3 and len(case["pairs"]) == 2:
        ctx.sample(case)


# ----------------------------------------------------------------------------------------------
# oracle: the statement of C01 on the implementation
# ----------------------------------------------------------------------------------------------
def _same(a, b, rel):
    return (math.isnan(a) and math.isnan(b)) or _close(a, b, rel)


def _fail_matrix(ctx, key, what, case, A, B, rel, skip_rows=()):
    """first position where two matrices differ beyond the tolerance (diagonal: relative to the row's magnitude)"""
    n = len(A)
    for i in range(n):
        if i in skip_rows:
            continue
        sc = sum(abs(v) for v in A[i])
        for j in range(n):
            a, b = A[i][j], B[i][j]
            ok = _same(a, b, rel) if i != j else (_same(a, b, 0) or abs(a - b) <= TINY + rel * sc)
            if not ok:
                ctx.fail(key, f"{what} (first at ({i},{j}))", case, expected=b, observed=a)
                return True
    return False


def _statement(ctx, case, Q, tag="", main=True, tol=None, f32=(frozenset(), frozenset())):
    """clauses (1)-(3) of C01 evaluated on one returned matrix `Q` (dense) for the numbers the case denotes.
    Returns (ok, over, border, f32_hit); ok=False after a ctx.fail."""
    n, E, V, T, D = case["n"], case["E"], case["V"], case["T"], case["D"]
    S = {}
    H = {}
    for (i, j), s, x in zip(case["pairs"], case["S"], case["h"]):
        S[(i, j)] = S[(j, i)] = s
        H[(i, j)] = H[(j, i)] = x
    rt2 = 2.0 * R_KJ * T
    # entries whose exact value does not fit float64 (only possible below ~42.4 K, where exp(500/(2RT)) > 1.8e308)
    over, border = set(), set()
    for (i, j) in S:
        x = min(E[i] - E[j], CAP) / rt2        # the code multiplies by exp(x): inf as soon as x alone exceeds 709.78
        lg = math.log(D * S[(i, j)] / (H[(i, j)] * V[i])) + x
        if lg > LOG_HI or x > 709.9:
            over.add((i, j))
        elif lg > LOG_LO or x > 709.6:
            border.add((i, j))
    tol = tol or {"entry": 1e-10, "sum": 1e-12, "db": 1e-9}
    # float32 evaluation (finding F23): these entries are inf today; the correct finite value is accepted as well
    f32_hit = {(i, j) for (i, j) in set(f32[0]) - over if Q[i][j] == math.inf}
    border = (border | set(f32[1])) - over
    bad_rows = {i for (i, _j) in over | border | f32_hit}
    if border and main:
        ctx.branch("excluded_entries_within_overflow_margin", len(border))
    # (1) entry formula on the pattern, zero elsewhere off the diagonal
    for i in range(n):
        for j in range(n):
            if i == j:
                if i not in bad_rows and not math.isfinite(Q[i][i]):
                    ctx.fail("C01:not_finite", f"{tag}Q[{i}][{i}] is not finite although every entry of the row fits float64", case)
                    return False, over, border, f32_hit
                continue
            if (i, j) in over:
                if Q[i][j] != math.inf:
                    ctx.fail("C01:entry_formula", f"{tag}Q[{i}][{j}]: exact value exceeds float64, expected inf", case,
                             expected="inf", observed=Q[i][j])
                    return False, over, border, f32_hit
            elif (i, j) in border or (i, j) in f32_hit:
                continue
            elif (i, j) in S:
                d = E[i] - E[j]
                pref, x = D * S[(i, j)] / (H[(i, j)] * V[i]), min(d, CAP) / rt2
                want = pref * math.exp(x) if x < 700 else math.exp(math.log(pref) + x)   # (x >= 700 only below 50 K)
                if not _close(Q[i][j], want, tol["entry"]):
                    ctx.fail("C01:entry_formula", f"{tag}Q[{i}][{j}] is not D*S/(h*V_i)*exp(min(E_i-E_j,500)/(2RT))", case,
                             expected=want, observed=Q[i][j])
                    return False, over, border, f32_hit
            elif Q[i][j] != 0:
                ctx.fail("C01:off_pattern", f"{tag}Q[{i}][{j}] is non-zero off the pattern", case, expected=0.0, observed=Q[i][j])
                return False, over, border, f32_hit
    # (2) zero row sums
    for i in range(n):
        if i in bad_rows:
            continue
        tot = math.fsum(Q[i])
        mag = math.fsum(abs(v) for v in Q[i])
        if abs(tot) > tol["sum"] * mag + TINY:
            ctx.fail("C01:row_sum", f"{tag}row {i} sums to {tot} (magnitude {mag})", case, expected=0.0, observed=tot)
            return False, over, border, f32_hit
    if over and main:
        # OPEN FINDING: the property (all T > 0) fails in float64: inf entries, row sum nan
        i = min(over)[0]
        ctx.fail(KEY_OVERFLOW, f"T={T} K: entry {min(over)} overflows float64 although the energy difference is capped at 500 "
                 f"kJ/mol; row {i} sums to {sum(Q[i])}", case, expected=0.0, observed=sum(Q[i]))
    # (3) detailed balance below the cap, in the overflow-free equivalent form
    #     V_i Q_ij exp(-(E_i-E_j)/(2RT)) = V_j Q_ji exp(-(E_j-E_i)/(2RT))   (both sides divided by exp(-(E_i+E_j)/(2RT)))
    for (i, j) in case["pairs"]:
        d = E[i] - E[j]
        if abs(d) < CAP and abs(d) / rt2 < 700 and not ({(i, j), (j, i)} & (over | border)):
            a = V[i] * Q[i][j] * math.exp(-d / rt2)
            b = V[j] * Q[j][i] * math.exp(d / rt2)
            if min(abs(Q[i][j]), abs(Q[j][i])) < 1e-280 and abs(d) / rt2 > 600:
                if main:
                    ctx.branch("db_pairs_skipped_underflow")       # one direction is subnormal / 0 (only below 50 K)
                continue
            if not _close(a, b, tol["db"]):
                ctx.fail("C01:detailed_balance", f"{tag}V_i pi_i Q_ij != V_j pi_j Q_ji for the pair ({i},{j}) below the cap", case,
                         expected=b, observed=a)
                return False, over, border, f32_hit
            if main:
                ctx.branch("db_pairs_checked")
    return True, over, border, f32_hit


def oracle(ctx, case, out):
    if case["kind"] != "rate":
        return
    if "err" in out or "err2" in out:
        ctx.fail("C01:exception", f"get_rate_matrix raised {out.get('err', out.get('err2'))} on a valid input", case)
        return
    n, E, V, T, D = case["n"], case["E"], case["V"], case["T"], case["D"]
    if out["format"] != "csr" or out["shape"] != [n, n]:
        ctx.fail("C01:return_type", f"returned {out['type']} {out['shape']}, expected csr {n}x{n}", case)
        return
    Q = out["Q"]
    rt2 = 2.0 * R_KJ * T
    ok, over, border, _ = _statement(ctx, case, Q)
    if not ok:
        return
    # (8) the same numbers in another representation the API accepts (container class, dtypes, array / scalar kinds)
    rep = case.get("rep")
    if rep:
        tag = "[input representation: " + _rep_label(rep) + "] "
        if "err_rep" in out:
            ctx.fail("C01:exception", f"{tag}get_rate_matrix raised {out['err_rep']} on a valid input", case)
            return
        if out["rep_format"] != "csr" or out["rep_shape"] != [n, n]:
            ctx.fail("C01:return_type", f"{tag}returned {out['rep_type']} {out['rep_shape']}, expected csr {n}x{n}", case)
            return
        tol = _rep_tol(rep)
        o32, b32 = _f32_sets(case, rep)
        okr, _o, _b, hit = _statement(ctx, case, out["Q_rep"], tag=tag, main=False, tol=tol, f32=(o32, b32))
        if not okr:
            return
        if hit:
            # OPEN FINDING F23: inf where the float64 evaluation is finite (every other entry was checked above)
            i, j = min(hit)
            ctx.fail(KEY_F32, f"{tag}T={T} K, E_i-E_j={E[i] - E[j]} kJ/mol (below the cap or capped): the float32 evaluation of "
                     f"entry ({i},{j}) overflows (exponent > 88.7), Q[{i}][{j}]={out['Q_rep'][i][j]}, row sum {sum(out['Q_rep'][i])}; "
                     f"float64 gives {Q[i][j]}", case, expected=Q[i][j], observed=out["Q_rep"][i][j])
        if _fail_matrix(ctx, "C01:representation", tag + "the matrix differs from the one for csr/coo arrays of float64", case,
                        out["Q_rep"], Q, tol["ref"], skip_rows={i for (i, _j) in hit | b32}):
            return
        if not out["rep_inputs_unchanged"]:
            ctx.fail("C01:inputs_mutated", tag + "get_rate_matrix changed its inputs", case)
            return
    # (5) repeatable, inputs untouched; (6) csr / row-major coo give the same matrix
    if _fail_matrix(ctx, "C01:history", "a repeated call with the first arguments gives another matrix", case,
                    out["Q_again"], Q, 1e-14):
        return
    if not out["inputs_unchanged"]:
        ctx.fail("C01:inputs_mutated", "get_rate_matrix changed its input arrays", case)
        return
    if _fail_matrix(ctx, "C01:storage_form", "csr and coo inputs give different matrices", case, out["Q_other_format"], Q, 1e-13):
        return
    if over or border or any(not math.isfinite(v) for r in Q for v in r):
        ctx.branch("metamorphic_checks_skipped_overflow")
        return
    # (4) linear in D (second call on the same object)
    f = case["D2"] / D
    want = [[v * f for v in r] for r in Q]
    if any(not math.isfinite(v) for r in out["Q_D2_same_object"] for v in r) or max(abs(math.log(abs(v))) if v else 0 for r in want for v in r) > 690:
        ctx.branch("linearity_skipped_near_overflow")
    elif _fail_matrix(ctx, "C01:linear_in_D", "Q(D2) != (D2/D) Q(D) (second call on the same SQRA object)", case,
                      out["Q_D2_same_object"], want, 1e-12):
        return
    # (7) adding a constant to all energies.  Floating point: (E_i+c)-(E_j+c) differs from E_i-E_j by <= 2 ulp(|E|+|c|);
    #     pairs whose difference is within that distance of the cap may fall on either side, with the same value up to it.
    c = case["shift"]
    emax = max(abs(v) for v in E) + abs(c)
    rel = 1e-10 + 32 * math.ulp(emax) / rt2
    if _fail_matrix(ctx, "C01:shift_invariance", f"Q changes when {c} is added to all energies", case, out["Q_shift"], Q, rel):
        return
