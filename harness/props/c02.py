"""C02 - full-grid matrices are the symmetric product of position and rotation geometry
(molgri.space.fullgrid.FullGrid._get_N_N / get_total_volumes, molgri.space.voronoi.HalfRotobjVoronoi._calculate_N_N_array).

Three kinds of cases
  syn    layer (i), assembly: synthetic position / rotation matrices and volumes are injected into a real FullGrid object
         (instance attributes patched in the harness only); model over Rat vs implementation, entry by entry and in storage
         order; oracle = the statement's product rule written with numpy.kron (independent of the model)
  real   layer (ii), end to end: real grids; the model is fed the implementation's own sub-grid matrices (what _get_N_N
         consumes) and must reproduce the three full matrices, the volumes and the row order; oracle = the statement itself on
         the implementation, using only the public getters of the two sub-grids
  fold   the rotation block: antipode fold of the full-sphere matrix (voronoi.py 366-401); model fed scipy's full-sphere
         matrix, the antipode table and the upper indices; oracle = symmetry / diagonal / one pattern / positivity of the
         rotation matrices and the rule "adjacent iff a~b or a~-b"; the hypotheses of the Lean theorems half_entry/half_symm
         (double-cover layout, symmetric and antipodally symmetric full-sphere matrix) are validated on every grid
"""
from __future__ import annotations

import hashlib
import json
import math
import os
import time

import numpy as np

import core

RULE = ("syn: random sizes n_o in 1..5, n_t in 1..3, n_b in 1..5, random position/rotation matrices (consistent symmetric "
        "positive patterns; and wild ones: asymmetric, diagonal entries, negative values, zeros in one family only, exact "
        "cancellation on the diagonal), dyadic and generic floats, factors incl. non-dyadic; real: all direction algorithms "
        "(ico, cube3D, randomS) x rotation algorithms (zero, cube4D, randomQ), n_o in 1..8,12,20(+), n_b in 1,4..9(+17,20), "
        "2-4 radii (lists, linspace, range, random), both position modes, f in {0.5,1,2,3}+random; fold: every rotation grid "
        "used; hist (a real case plus a history): on ONE FullGrid object (inside a GridWriter, freshly built sub-grids) 6-10 "
        "random calls with repetition over all public matrix/volume/index getters, get_full_prefactors, the PositionGrid "
        "getters and GridWriter.save_* + load, the returned objects scaled/overwritten in place between calls, and in 60 % "
        "of the histories fg.factor is re-assigned once or twice; every answer must equal the first answer of a fresh object "
        "built with the factor currently assigned and follow the statement with that factor (failure is shrunk to a two-call history); alias: every getter alone: "
        "call, overwrite the returned object, call again; rep: exhaustive sweep factor representation (Python int/float, "
        "np.float64/float32/int64, 0-d float/int ndarray, squeezed 1-element array, Fraction) x two small grids x both modes x "
        "(borders-, distances-, volumes-first), and a seed-chosen representation of factor / grid names / radial text (str, "
        "np.str_) / position_grid_cartesian (bool, np.bool_, 0/1) for every syn, real, hist and alias case; after every getter "
        "fg.factor must still denote the constructor's number. A case is distinct by its full input; non-trivial when at least one matrix has a stored entry from each of "
        "the two families (position and rotation) or, for n_b = 1 / n_P = 1, from the one family that exists")
CHUNK = 40
SELS = ("adjacency", "border_len", "center_distances")
REL = 1e-11          # model (exact) vs implementation (a handful of float operations)
SYM_REL = 1e-9       # symmetry of float geometry (antipodal images are computed separately by scipy)


def fac(sel, f):
    return {"adjacency": 1.0, "border_len": f ** 2, "center_distances": f}[sel]


# ------------------------------------------------------------------------------------------------------------------
# set-up: memoised grid factories (4-D Voronoi construction is the dominant cost), caches of sub-grid observables
# ------------------------------------------------------------------------------------------------------------------
_installed = False
_pub_rot = {}
_pub_pos = {}
_orig_create = {}
_memo_create = {}


def _install():
    global _installed
    if _installed:
        return
    from molgri.space import rotobj

    def memo(cls):
        orig = cls.create.__func__
        _orig_create[cls] = orig
        cache = {}

        def create(c, alg_name, N, **kw):
            k = (alg_name, N, tuple(sorted(kw.items())))
            if k not in cache:
                cache[k] = orig(c, alg_name=alg_name, N=N, **kw)
            return cache[k]
        cls.create = classmethod(create)
    memo(rotobj.SphereGrid3DFactory)
    memo(rotobj.SphereGrid4DFactory)
    for cls in _orig_create:
        _memo_create[cls] = cls.__dict__["create"]
    _installed = True


class _fresh_factories:
    """inside this block every FullGrid gets its own, newly built sub-grid objects (no sharing through the memoised factories)"""

    def __enter__(self):
        for cls, orig in _orig_create.items():
            cls.create = classmethod(orig)

    def __exit__(self, *a):
        for cls, m in _memo_create.items():
            cls.create = m


def canon(M):
    """sparse matrix -> storage-order observable"""
    C = M.tocoo()
    return {"fmt": M.format, "shape": [int(s) for s in M.shape], "row": C.row.astype(int).tolist(),
            "col": C.col.astype(int).tolist(), "data": np.asarray(C.data, dtype=float).tolist()}


def dense_of(c):
    D = np.zeros(c["shape"])
    np.add.at(D, (np.array(c["row"], dtype=int), np.array(c["col"], dtype=int)), np.array(c["data"], dtype=float))
    return D


def rat_rows(A):
    return [[core.rat(float(v)) for v in row] for row in np.asarray(A, dtype=float)]


def finite(A):
    return bool(np.all(np.isfinite(np.asarray(A, dtype=float))))


# ------------------------------------------------------------------------------------------------------------------
# input representations: the same mathematical input in the representations the public API accepts on the unchanged tree
# ------------------------------------------------------------------------------------------------------------------
# Established on the unchanged tree (two grids x both position modes x f in {2, 1.5, 0.75, 3}, all five observables compared
# with the Python-float object to 1e-12): every representation below is accepted and gives the same answers.
F_REPS = ("py_float", "np_float64", "arr0d_float", "squeezed", "fraction",      # every float f
          "np_float32",                                                       # f, f^2, f^3 exact in float32
          "py_int", "np_int64", "arr0d_int")                                  # integer-valued f
STR_REPS = ("str", "np_str")
CART_REPS = ("bool", "np_bool", "int01")
# representations of the factor that the unchanged tree does not accept (left out; re-probed and recorded on every run)
F_REPS_EXCLUDED = {
    "arr1d": "1-element 1-d ndarray np.array([f]): ValueError 'coordinates and data arrays must be 1-D' in coo_array (fullgrid.py:262)",
    "decimal": "decimal.Decimal(f): TypeError float * Decimal in _get_N_N (fullgrid.py:262)",
    "text": "str(f): TypeError str ** int in _get_N_N (fullgrid.py:254)",
}


def make_factor(f, rep):
    from fractions import Fraction
    if rep in (None, "as_given"):
        return f
    if rep == "py_float":
        return float(f)
    if rep == "np_float64":
        return np.float64(f)
    if rep == "np_float32":
        return np.float32(f)
    if rep == "arr0d_float":
        return np.array(float(f))
    if rep == "squeezed":
        return np.squeeze(np.array([[float(f)]]))
    if rep == "fraction":
        return Fraction(f)
    if rep == "py_int":
        return int(f)
    if rep == "np_int64":
        return np.int64(f)
    if rep == "arr0d_int":
        return np.array(int(f))
    if rep == "arr1d":
        return np.array([float(f)])
    if rep == "decimal":
        from decimal import Decimal
        return Decimal(f)
    if rep == "text":
        return str(f)
    raise core.HarnessError(f"unknown factor representation {rep}")


def f_reps_for(f):
    """the representations that denote exactly the number f"""
    out = ["py_float", "np_float64", "arr0d_float", "squeezed", "fraction"]
    with np.errstate(all="ignore"):
        g = np.float32(f)
        if float(g) == float(f) and float(g * g) == float(f) ** 2 and float(g * g * g) == float(f) ** 3:
            out.append("np_float32")
    if float(f) == int(f):
        out += ["py_int", "np_int64", "arr0d_int"]
    return out


def make_str(x, rep):
    return np.str_(x) if rep == "np_str" else str(x)


def make_cart(c, rep):
    if rep == "np_bool":
        return np.bool_(c)
    if rep == "int01":
        return int(bool(c))
    return bool(c)


def ctor_args(case, factor=None):
    """positional and keyword arguments of FullGrid / GridWriter for this case in the representation it names"""
    rep = case.get("rep") or {}
    f = case["f"] if factor is None else factor
    frep = rep.get("f")
    if factor is not None and frep not in (None, "as_given") and frep not in f_reps_for(f):
        frep = "py_float"            # a re-assigned factor that this representation cannot denote exactly
    args = (make_str(case["b"], rep.get("b")), make_str(case["o"], rep.get("o")), make_str(case["t"], rep.get("t")))
    kw = {"factor": make_factor(f, frep)}
    if "cart" in case:
        kw["position_grid_cartesian"] = make_cart(case["cart"], rep.get("cart"))
    return args, kw


def draw_rep(rng, f, plain=0.35):
    """seed-chosen representation of the constructor arguments of one case"""
    if rng.random() < plain:
        return {"f": "as_given", "b": "str", "o": "str", "t": "str", "cart": "bool"}
    return {"f": rng.choice(f_reps_for(f)), "b": rng.choice(STR_REPS), "o": rng.choice(STR_REPS), "t": rng.choice(STR_REPS),
            "cart": rng.choice(CART_REPS)}


def denotes(x, f):
    """does the object x (whatever its type) still denote the number f?"""
    try:
        return np.ndim(x) == 0 and float(x) == float(f)
    except Exception:
        return False


def factor_drift(fg, f, where, out):
    """after every getter: fg.factor must still denote the number it was given"""
    if "factor_drift" not in out and not denotes(fg.factor, f):
        out["factor_drift"] = {"after": where, "expected": float(f), "found": repr(fg.factor), "type": type(fg.factor).__name__}


def probe_excluded():
    """outcome, on the tree under test, of the factor representations that are left out (for the evidence only)"""
    from molgri.space.fullgrid import FullGrid
    res = {}
    for rep in F_REPS_EXCLUDED:
        try:
            with core.quiet():
                fg = FullGrid("1", "ico_5", "[0.2,0.3]", factor=make_factor(2.0, rep))
                fg.get_full_borders()
                fg.get_full_distances()
                fg.get_total_volumes()
            res[rep] = "accepted on this tree (not used: excluded on the reference tree)"
        except Exception as e:
            res[rep] = f"raises {type(e).__name__}"
    return res


# ------------------------------------------------------------------------------------------------------------------
# generators
# ------------------------------------------------------------------------------------------------------------------
O_ALGS = ("ico", "cube3D", "randomS")
B_ALGS = ("cube4D", "randomQ")
T_FIXED = ["[0.2,0.3]", "[0.1,0.2,0.4]", "linspace(0.2,0.5,4)", "[0.35, 0.1, 0.2]", "range(0.1,0.4,0.1)", "[0.15,0.3,0.35,0.6]",
           "linspace(0.1,0.3,3)", "[1,2]"]


def n_radii(t):
    from molgri.space.translations import TranslationParser
    with core.quiet():
        return TranslationParser(t).get_N_trans()


def rand_t(rng):
    k = rng.choice([2, 2, 3, 4])
    vals = []
    while len(vals) < k:
        v = round(rng.uniform(0.05, 1.2), 3)
        if all(abs(v - w) >= 0.02 for w in vals):     # shells thinner than 0.2 A are left to C05/C06 (degenerate hulls)
            vals.append(v)
    rng.shuffle(vals)
    return "[" + ", ".join(str(v) for v in vals) + "]"


def o_size(name):
    return int(name.split("_")[1]) if "_" in name else int(name)


def b_size(name):
    return int(name.split("_")[1]) if "_" in name else int(name)


def real_cases(ctx):
    rng = ctx.rng
    if ctx.quick:
        no_list = [1, 2, 3, 4, 5, 6, 7, 8, 12, 20]
        nb_list = [1, 4, 5, 6, 7, 8, 9]
        nmax = 260
        extra = 8
    else:
        no_list = [1, 2, 3, 4, 5, 6, 7, 8, 9, 10, 11, 12, 14, 17, 20, 26, 30, 42]
        nb_list = [1, 4, 5, 6, 7, 8, 9, 10, 12, 17, 20, 30]
        nmax = 800
        extra = 200
    o_names = [f"{a}_{n}" for a in O_ALGS for n in no_list]
    b_names = ["1"] + [f"{a}_{n}" for a in B_ALGS for n in nb_list if n > 1]
    f_list = [0.5, 1, 2, 3]

    def pick_t():
        return rng.choice(T_FIXED) if rng.random() < 0.6 else rand_t(rng)

    def fits(o, b, t, cart=False):
        if cart and o_size(o) * n_radii(t) > 80:      # Cartesian border polygons cost O(n_P^2) Python loops
            return False
        return o_size(o) * b_size(b) * n_radii(t) <= nmax

    out = []
    # every direction grid once per mode (cartesian needs n_o >= 3; smaller ones are kept in small number: they must raise)
    for o in o_names:
        for cart in (False, True):
            if cart and o_size(o) < 3 and rng.random() < 0.6:
                continue
            for _try in range(50):
                b, t = rng.choice(b_names), pick_t()
                if fits(o, b, t, cart):
                    break
            else:
                b, t = "1", "[0.2,0.3]"
            out.append({"kind": "real", "b": b, "o": o, "t": t, "f": rng.choice(f_list), "cart": cart})
    # every rotation grid at least once more with a small direction grid
    for b in b_names:
        for _try in range(50):
            o, t = rng.choice(o_names), pick_t()
            if fits(o, b, t) and o_size(o) <= 12:
                break
        else:
            o, t = "ico_5", "[0.2,0.3]"
        cart = rng.random() < 0.5 and fits(o, b, t, True)
        out.append({"kind": "real", "b": b, "o": o, "t": t, "f": rng.choice(f_list), "cart": cart})
    for _ in range(extra):
        cart = rng.random() < 0.5
        for _try in range(50):
            o, b, t = rng.choice(o_names), rng.choice(b_names), pick_t()
            if fits(o, b, t, cart):
                break
        else:
            continue
        f = rng.choice(f_list) if rng.random() < 0.5 else round(math.exp(rng.uniform(math.log(0.2), math.log(5))), 4)
        out.append({"kind": "real", "b": b, "o": o, "t": t, "f": f, "cart": cart})
    for c in out:
        c["rep"] = draw_rep(rng, c["f"])
    if ctx.quick:
        # quick runs the first part of the shuffled sweep per seed (cases() applies the cut); thorough runs all of it
        rng.shuffle(out)
    return out


def rand_matrix(rng, n, style, dyadic, base=None):
    """n x n float matrix. style: 'sym' symmetric positive off-diagonal pattern; 'wild' anything goes."""
    def val(neg=False):
        if dyadic:
            v = rng.randint(1, 40) / 8.0
        else:
            v = rng.uniform(0.05, 7.0)
        return -v if neg and rng.random() < 0.2 else v
    M = np.zeros((n, n))
    if style == "sym":
        pat = base
        if pat is None:
            dens = rng.choice([0.3, 0.6, 1.0])
            pat = np.zeros((n, n), dtype=bool)
            for i in range(n):
                for j in range(i + 1, n):
                    if rng.random() < dens:
                        pat[i, j] = pat[j, i] = True
        for i in range(n):
            for j in range(i + 1, n):
                if pat[i, j]:
                    M[i, j] = M[j, i] = val()
        return M, pat
    dens = rng.choice([0.2, 0.5, 0.9])
    for i in range(n):
        for j in range(n):
            if rng.random() < dens and (i != j or rng.random() < 0.3):
                M[i, j] = val(neg=True)
    return M, None


def syn_cases(ctx):
    rng = ctx.rng
    n = 300 if ctx.quick else 3000
    o_by_n = {1: "zero3D_1", 2: "ico_2", 3: "cube3D_3", 4: "ico_4", 5: "randomS_5"}
    t_by_n = {1: "[0.2]", 2: "[0.2,0.3]", 3: "[0.1,0.2,0.4]"}
    b_by_n = {1: "1", 2: "cube4D_2", 3: "randomQ_3", 4: "cube4D_4", 5: "randomQ_5"}
    for idx in range(n):
        n_o = rng.choice([1, 2, 2, 3, 3, 4, 5])
        n_t = rng.choice([1, 2, 2, 2, 3])
        if rng.random() < 0.1:
            n_o, n_t = 1, 1                      # the n_t*n_o = 1 shortcut
        n_b = rng.choice([1, 2, 3, 4, 5])
        nP = n_o * n_t
        style = "sym" if rng.random() < 0.45 else "wild"
        dyadic = rng.random() < 0.6
        f = rng.choice([0.5, 1.0, 1.5, 2.0, 3.0, 0.75]) if dyadic else round(math.exp(rng.uniform(math.log(0.2), math.log(5))), 4)
        P, R = {}, {}
        if style == "sym":
            pP = pR = None
            for sel in SELS:
                P[sel], pP = rand_matrix(rng, nP, "sym", dyadic, pP)
                R[sel], pR = rand_matrix(rng, n_b, "sym", dyadic, pR)
            P["adjacency"] = (P["adjacency"] != 0).astype(float)
            R["adjacency"] = (R["adjacency"] != 0).astype(float)
        else:
            for sel in SELS:
                P[sel], _ = rand_matrix(rng, nP, "wild", dyadic)
                R[sel], _ = rand_matrix(rng, n_b, "wild", dyadic)
            if dyadic and rng.random() < 0.5 and n_b > 1 and nP > 1:
                # exact cancellation on a diagonal cell: f-scaled position entry + rotation entry = 0
                sel = rng.choice(SELS[1:])
                i, k = rng.randrange(nP), rng.randrange(n_b)
                P[sel][i, i] = 2.0
                R[sel][k, k] = -2.0 * fac(sel, f)
        Vpos = [rng.randint(1, 64) / 16.0 if dyadic else rng.uniform(0.01, 50) for _ in range(nP)]
        Vrot = [rng.randint(1, 64) / 16.0 if dyadic else rng.uniform(0.01, 5) for _ in range(n_b)]
        if rng.random() < 0.1:
            Vpos[rng.randrange(nP)] = 0.0
        yield {"kind": "syn", "style": style, "o": o_by_n[n_o], "t": t_by_n[n_t], "b": b_by_n[n_b], "f": f, "rep": draw_rep(rng, f, plain=0.5),
               "P": {s: P[s].tolist() for s in SELS}, "R": {s: R[s].tolist() for s in SELS}, "Vpos": Vpos, "Vrot": Vrot}


def cases(ctx):
    syn = syn_cases(ctx)
    real = real_cases(ctx)
    seen_b = []
    budget_real = 43 if ctx.quick else 10 ** 9
    hist = list(hist_cases(ctx, 12 if ctx.quick else 130))
    real = hist[:len(hist) // 2] + real + hist[len(hist) // 2:] if not ctx.quick else hist + real
    budget_real += len(hist) if ctx.quick else 0
    # interleave: synthetic first (cheap), then real grids, a fold case the first time a rotation grid shows up
    for _ in range(60 if ctx.quick else 400):
        c = next(syn, None)
        if c is not None:
            yield c
    yield from rep_sweep(ctx)
    alias = [{"kind": "alias", "b": "cube4D_4", "o": "ico_6", "t": "[0.2,0.3]", "f": 2, "cart": ctx.rng.random() < 0.5}]
    if not ctx.quick:
        alias += [{"kind": "alias", "b": "randomQ_5", "o": "cube3D_8", "t": "[0.1,0.2,0.4]", "f": 0.5, "cart": True},
                  {"kind": "alias", "b": "1", "o": "randomS_9", "t": "linspace(0.2,0.5,4)", "f": 3, "cart": False}]
    for c in alias:
        c["rep"] = draw_rep(ctx.rng, c["f"], plain=0.0)
    for k, c in enumerate(real):
        if k >= budget_real:
            break
        if k == 12:                     # after the first histories
            yield from alias
        if b_size(c["b"]) >= 4 and c["b"] not in seen_b:
            seen_b.append(c["b"])
            yield {"kind": "fold", "b": c["b"]}
        yield c
    if ctx.quick:
        for b in [f"{a}_{n}" for a in B_ALGS for n in (4, 5, 6, 7, 8, 9)]:
            if b not in seen_b:
                seen_b.append(b)
                yield {"kind": "fold", "b": b}
    yield from syn


# ------------------------------------------------------------------------------------------------------------------
# histories: state left on one FullGrid object by earlier calls, aliasing of returned objects
# ------------------------------------------------------------------------------------------------------------------
def _load_npz(path):
    from molgri.io import GridReader
    return GridReader().load_borders_array(path)


HIST_OPS = {
    # name: (callable(gw) -> returned object, name of the op whose fresh answer is the reference)
    "adjacency": (lambda gw: gw.fg.get_full_adjacency(), None),
    "borders": (lambda gw: gw.fg.get_full_borders(), None),
    "distances": (lambda gw: gw.fg.get_full_distances(), None),
    "volumes": (lambda gw: gw.fg.get_total_volumes(), None),
    "prefactors": (lambda gw: gw.fg.get_full_prefactors(), None),
    "grid": (lambda gw: gw.fg.get_full_grid_as_array(), None),
    "position_index": (lambda gw: gw.fg.get_position_index(), None),
    "quaternion_index": (lambda gw: gw.fg.get_quaternion_index(), None),
    "between_radii": (lambda gw: gw.fg.get_between_radii(), None),
    "radii": (lambda gw: gw.fg.get_radii(), None),
    "position_array": (lambda gw: gw.fg.get_position_grid().get_position_grid_as_array(), None),
    "position_volumes": (lambda gw: gw.fg.get_position_grid().get_all_position_volumes(), None),
    "pos_adjacency": (lambda gw: gw.fg.get_position_grid().get_adjacency_of_position_grid(), None),
    "pos_borders": (lambda gw: gw.fg.get_position_grid().get_borders_of_position_grid(), None),
    "pos_distances": (lambda gw: gw.fg.get_position_grid().get_distances_of_position_grid(), None),
    "rot_adjacency": (lambda gw: gw.fg.get_adjacency_of_orientation_grid(), None),
    "rot_volumes": (lambda gw: gw.fg.b_rotations.get_spherical_voronoi().get_voronoi_volumes(), None),
    "adjacency_only_position": (lambda gw: gw.fg.get_full_adjacency(only_position=True), None),
    "distances_only_orientation": (lambda gw: gw.fg.get_full_distances(only_orientation=True), None),
    "o_grid_array": (lambda gw: gw.fg.get_o_grid().get_grid_as_array(), None),
    "b_grid_array": (lambda gw: gw.fg.b_rotations.get_grid_as_array(), None),
    # saving through molgri.io.GridWriter and loading the file again
    "save_borders": (lambda gw: (gw.save_borders_array(gw._c02_dir + "/b"), _load_npz(gw._c02_dir + "/b.npz"))[1], "borders"),
    "save_distances": (lambda gw: (gw.save_distances_array(gw._c02_dir + "/d"), _load_npz(gw._c02_dir + "/d.npz"))[1], "distances"),
    "save_adjacency": (lambda gw: (gw.save_adjacency_array(gw._c02_dir + "/a"), _load_npz(gw._c02_dir + "/a.npz"))[1], "adjacency"),
    "save_volumes": (lambda gw: (gw.save_volumes(gw._c02_dir + "/v"), np.load(gw._c02_dir + "/v.npy"))[1], "volumes"),
    "save_grid": (lambda gw: (gw.save_full_grid(gw._c02_dir + "/g"), np.load(gw._c02_dir + "/g.npy"))[1], "grid"),
}
HIST_CORE = ["adjacency", "borders", "distances", "volumes", "prefactors", "save_borders", "save_distances", "save_volumes"]


# get_radii() and the direction grid's get_grid_as_array() return the stored arrays themselves.  They are inputs of the
# grid, not observables of C02 (matrices and volumes), and the property says nothing about callers writing into them:
# histories do not write into what these two return and the alias probe does not report them.
OUTSIDE_PROPERTY_ALIASES = {"radii", "o_grid_array"}


def _known_aliases():
    return set(OUTSIDE_PROPERTY_ALIASES)


def _snap(x):
    """immutable copy of a returned object"""
    if hasattr(x, "tocoo"):
        c = x.tocoo()
        return ("sparse", tuple(int(v) for v in x.shape), np.array(c.row, dtype=int).copy(), np.array(c.col, dtype=int).copy(),
                np.array(c.data, dtype=float).copy())
    return ("array", np.array(x, dtype=float).copy())


def _same(a, b):
    if a[0] != b[0]:
        return False
    if a[0] == "sparse":
        return a[1] == b[1] and np.array_equal(a[2], b[2]) and np.array_equal(a[3], b[3]) and a[4].shape == b[4].shape and \
            rel_close(a[4], b[4], 1e-12)
    return a[1].shape == b[1].shape and rel_close(a[1], b[1], 1e-12)


def _describe(a):
    if a[0] == "sparse":
        return {"shape": list(a[1]), "nnz": int(len(a[4])), "first_entries": [[int(r), int(c), float(v)] for r, c, v in zip(a[2][:4], a[3][:4], a[4][:4])]}
    return {"shape": list(a[1].shape), "first_values": np.ravel(a[1])[:6].tolist()}


def _scribble(x, how):
    """write into a returned object in place"""
    try:
        if hasattr(x, "tocoo") and hasattr(x, "data"):
            if how == "scale":
                x.data *= 3.5
            else:
                x.data[...] = -5
        elif isinstance(x, list):
            for i in range(len(x)):
                x[i] = x[i] * 3.5 if how == "scale" else -5.0
        elif isinstance(x, np.ndarray):
            if how == "scale" and x.dtype.kind == "f":
                x *= 3.5
            else:
                x[...] = 0 if x.dtype.kind in "iub" else -5
    except (ValueError, TypeError):
        pass             # read-only buffers cannot be written to: nothing to do


def _new_writer(case, tmp, factor=None):
    from molgri.io import GridWriter
    args, kw = ctor_args(case, factor)
    gw = GridWriter(*args, **kw)
    gw._c02_dir = tmp
    return gw


def _plain(case):
    """the same grid with every constructor argument in its plain Python representation (the reference)"""
    return {k: v for k, v in case.items() if k != "rep"}


def _run_history(case, steps, tmp, noscribble):
    """answers (snapshots taken before scribbling) of one object along a history, the factor in effect at each step and,
    per step, what fg.factor shows if it no longer denotes that factor.
    The step {"op": "set_factor", "value": v, "rep": r} assigns fg.factor = v in representation r."""
    gw = _new_writer(case, tmp)
    answers, factors, drift = [], [], []
    fcur = case["f"]
    for st in steps:
        if st["op"] == "set_factor":
            gw.fg.factor = make_factor(st["value"], st.get("rep"))
            fcur = st["value"]
            answers.append(("array", np.array([float(gw.fg.factor)])))
            factors.append(fcur)
            drift.append(None)
            continue
        x = HIST_OPS[st["op"]][0](gw)
        answers.append(_snap(x))
        factors.append(fcur)
        drift.append(None if denotes(gw.fg.factor, fcur) else f"{gw.fg.factor!r} ({type(gw.fg.factor).__name__})")
        if st.get("scribble") and st["op"] not in noscribble:
            _scribble(x, st["scribble"])
    return answers, factors, drift


STATEMENT_OPS = {"adjacency": "adjacency", "save_adjacency": "adjacency", "borders": "border_len", "save_borders": "border_len",
                 "distances": "center_distances", "save_distances": "center_distances"}


def _statement_ok(op, ans, fcur, out):
    """the statement of C02 with the factor currently assigned: f to distances, f^2 to borders, f^3 to volumes"""
    nP, nB = out["n_P"], out["n_b"]
    if op in STATEMENT_OPS and nP > 1:
        sel = STATEMENT_OPS[op]
        E = expected(sel, float(fcur), np.asarray(out["pubP"][sel], dtype=float), np.asarray(out["pubR"][sel], dtype=float), nP, nB)
        if ans[0] != "sparse" or list(ans[1]) != [nP * nB, nP * nB]:
            return False
        D = np.zeros(ans[1])
        np.add.at(D, (ans[2], ans[3]), ans[4])
        return bool(np.array_equal(D != 0, E != 0)) and rel_close(D, E, 1e-10)
    if op in ("volumes", "save_volumes"):
        EV = np.kron(np.asarray(out["Vpos"], dtype=float), np.asarray(out["Vrot"], dtype=float)) * float(fcur) ** 3
        return ans[0] == "array" and ans[1].shape == EV.shape and rel_close(ans[1], EV, 1e-10)
    return True


def history_check(case, out):
    """run the stored history on one object; every answer must equal the first answer of a fresh object built with the
    factor currently assigned, and satisfy the statement with that factor"""
    import shutil
    import tempfile
    steps = case["ops"]
    noscribble = _known_aliases()
    tmp = tempfile.mkdtemp(prefix="c02hist_")
    res = {"steps": len(steps), "failures": [], "ops": sorted({st["op"] for st in steps})}
    try:
        with _fresh_factories():
            ref = {}

            def reference(op, f=None):
                f = case["f"] if f is None else f
                base = HIST_OPS[op][1] or op
                if (base, f) not in ref:
                    ref[(base, f)] = _snap(HIST_OPS[base][0](_new_writer(_plain(case), tmp, f)))
                return ref[(base, f)]
            answers, factors, drift = _run_history(case, steps, tmp, noscribble)
            for k, (st, ans, fcur) in enumerate(zip(steps, answers, factors)):
                if st["op"] == "set_factor":
                    if float(ans[1][0]) != float(st["value"]):
                        res["failures"].append({"step": k, "op": "set_factor", "minimal_history": [st], "fresh_object": st["value"],
                                                "this_object": float(ans[1][0]), "why": "the assigned factor is not what fg.factor shows"})
                        break
                    continue
                r = reference(st["op"], fcur)
                same, stated = _same(ans, r), _statement_ok(st["op"], ans, fcur, out)
                if same and stated and drift[k] is None:
                    continue
                # shrink: the last assignment of the factor (if any), one earlier call, then this call, on a new object
                last_set = max((j for j in range(k) if steps[j]["op"] == "set_factor"), default=None)
                cands = [[steps[last_set], st]] if last_set is not None else []
                for j in range(k):
                    if j != last_set:
                        cands.append([steps[i] for i in sorted({j, k} | ({last_set} if last_set is not None else set()))])
                minimal = steps[:k + 1]
                for cand in ([[st]] if last_set is None else []) + cands:
                    a2, f2, d2 = _run_history(case, cand, tmp, noscribble)
                    if f2[-1] == fcur and not (_same(a2[-1], r) and _statement_ok(st["op"], a2[-1], fcur, out) and d2[-1] is None):
                        minimal = cand
                        break
                why = []
                if drift[k] is not None:
                    why.append(f"leaves fg.factor = {drift[k]} behind, which no longer denotes the factor {fcur}")
                if not same:
                    why.append(f"differs from the first answer of a fresh object built with factor {fcur}")
                if not stated:
                    why.append(f"does not follow the statement with the assigned factor {fcur} (f to distances, f^2 to borders, f^3 to volumes)")
                res["failures"].append({"step": k, "op": st["op"], "minimal_history": minimal, "factor": fcur, "why": "; ".join(why),
                                        "fresh_object": _describe(r), "this_object": _describe(ans)})
                break
            # prefactors = border / (distance * volume of the row cell), on fresh objects with the construction-time factor
            if not res["failures"] and ("prefactors", case["f"]) in ref:
                B, Dm, V, Pf = reference("borders"), reference("distances"), reference("volumes"), reference("prefactors")
                ok = B[1] == Dm[1] == Pf[1] and np.array_equal(B[2], Pf[2]) and np.array_equal(B[3], Pf[3]) and \
                    np.array_equal(B[2], Dm[2]) and np.array_equal(B[3], Dm[3])
                if ok:
                    with np.errstate(all="ignore"):
                        exp = B[4] / Dm[4] / V[1][B[2]]
                    good = np.isfinite(exp)
                    ok = rel_close(Pf[4][good], exp[good], 1e-10)
                if not ok:
                    res["failures"].append({"step": -1, "op": "prefactors", "minimal_history": [{"op": "prefactors"}], "factor": case["f"],
                                            "why": "not border/(distance*volume[row]) entry by entry",
                                            "fresh_object": _describe(Pf), "this_object": None})
            res["ref"] = {k[0]: v for k, v in ref.items() if k[1] == case["f"] and k[0] in ("adjacency", "borders", "distances", "volumes")}
    finally:
        shutil.rmtree(tmp, ignore_errors=True)
    return res


_rep_ref = {}


def _rep_reference(case):
    """first answers of a fresh object whose constructor arguments are plain Python values, and the public sub-grid
    quantities the statement is evaluated with (cached per grid within the process)"""
    key = (case["b"], case["o"], case["t"], float(case["f"]), bool(case["cart"]))
    if key not in _rep_ref:
        from molgri.space.fullgrid import FullGrid
        plain = _plain(case)
        ref = {}
        for op in ("adjacency", "borders", "distances", "volumes", "prefactors"):
            args, kw = ctor_args(plain)
            gw = type("W", (), {})()
            gw.fg = FullGrid(*args, **kw)
            ref[op] = _snap(HIST_OPS[op][0](gw))
        args, kw = ctor_args(plain)
        fg = FullGrid(*args, **kw)
        pg, br = fg.get_position_grid(), fg.b_rotations
        nb = int(fg.get_b_N())
        sub = {"n_P": int(len(pg)), "n_b": nb,
               "pubP": {"adjacency": np.asarray(pg.get_adjacency_of_position_grid().toarray(), dtype=float),
                        "border_len": np.asarray(pg.get_borders_of_position_grid().toarray(), dtype=float),
                        "center_distances": np.asarray(pg.get_distances_of_position_grid().toarray(), dtype=float)},
               "pubR": ({"adjacency": np.asarray(br.get_voronoi_adjacency().toarray(), dtype=float),
                         "border_len": np.asarray(br.get_cell_borders().toarray(), dtype=float),
                         "center_distances": np.asarray(br.get_center_distances().toarray(), dtype=float)} if nb > 1
                        else {s_: np.zeros((1, 1)) for s_ in SELS}),
               "Vpos": np.asarray(pg.get_all_position_volumes(), dtype=float),
               "Vrot": np.asarray(br.get_spherical_voronoi().get_voronoi_volumes(), dtype=float)}
        _rep_ref[key] = (ref, sub)
    return _rep_ref[key]


def rep_check(case):
    """one object built from the named representation of its arguments; the getters in the given order, then again;
    every answer = the answer of the plain-Python object = the statement with the denoted factor; fg.factor untouched"""
    from molgri.space.fullgrid import FullGrid
    ref, sub = _rep_reference(case)
    args, kw = ctor_args(case)
    gw = type("W", (), {})()
    gw.fg = FullGrid(*args, **kw)
    calls = list(case["order"]) + list(case["order"][:2]) + ["prefactors", "adjacency"]
    res = {"calls": len(calls), "failures": []}
    for k, op in enumerate(calls):
        ans = _snap(HIST_OPS[op][0](gw))
        why = []
        if not _same(ans, ref[op]):
            why.append("differs from the answer of the same grid built from plain Python arguments")
        if not _statement_ok(op, ans, case["f"], sub):
            why.append(f"does not follow the statement with f = {case['f']} (f to distances, f^2 to borders, f^3 to volumes)")
        if not denotes(gw.fg.factor, case["f"]):
            why.append(f"leaves fg.factor = {gw.fg.factor!r} ({type(gw.fg.factor).__name__}) behind, which no longer denotes {case['f']}")
        if why:
            res["failures"].append({"op": op, "call_sequence": calls[:k + 1], "why": "; ".join(why),
                                    "plain_object": _describe(ref[op]), "this_object": _describe(ans)})
            break
    return res


def rep_sweep(ctx):
    """exhaustive: factor families x two small grids x both position modes x (borders-, distances-, volumes-first)"""
    grids = [("1", "ico_6", "[0.2,0.3]", 2), ("cube4D_4", "cube3D_5", "[0.1,0.2,0.4]", 3)]
    if not ctx.quick:
        grids += [("randomQ_5", "randomS_8", "linspace(0.2,0.5,4)", 1.5), ("cube4D_6", "ico_7", "[0.15,0.3,0.35,0.6]", 0.75)]
    orders = (["borders", "distances", "volumes"], ["distances", "volumes", "borders"], ["volumes", "borders", "distances"])
    k = 0
    for b, o, t, f in grids:
        for cart in (False, True):
            for frep in f_reps_for(f):
                for order in orders:
                    k += 1
                    yield {"kind": "rep", "b": b, "o": o, "t": t, "f": f, "cart": cart, "order": order,
                           "rep": {"f": frep, "b": STR_REPS[k % 2], "o": STR_REPS[(k // 2) % 2], "t": STR_REPS[(k // 4) % 2],
                                   "cart": CART_REPS[k % 3]}}


def alias_probe(case):
    """each getter on its own new object: call, overwrite what was returned, call again"""
    import shutil
    import tempfile
    tmp = tempfile.mkdtemp(prefix="c02alias_")
    found = []
    try:
        with _fresh_factories():
            for op in HIST_OPS:
                gw = _new_writer(case, tmp)
                x = HIST_OPS[op][0](gw)
                before = _snap(x)
                _scribble(x, "overwrite")
                after = _snap(HIST_OPS[op][0](gw))
                if not _same(before, after):
                    found.append({"op": op, "first_answer": _describe(before), "answer_after_overwriting_the_returned_object": _describe(after)})
    finally:
        shutil.rmtree(tmp, ignore_errors=True)
    return {"probed": len(HIST_OPS), "aliases": found}


def hist_cases(ctx, how_many):
    rng = ctx.rng
    o_names = [f"{a}_{n}" for a in O_ALGS for n in ((5, 6, 8) if ctx.quick else (5, 6, 7, 8, 10, 12))] + ["randomS_9", "ico_1", "cube3D_2"]
    b_names = ["1", "cube4D_4", "randomQ_4", "cube4D_5", "randomQ_6"] + ([] if ctx.quick else ["cube4D_8", "randomQ_9", "cube4D_12"])
    names = list(HIST_OPS)
    for _ in range(how_many):
        o, b = rng.choice(o_names), rng.choice(b_names)
        cart = rng.random() < 0.4 and o_size(o) >= 5
        t = rng.choice(T_FIXED[:3] + ["[0.15,0.3,0.35,0.6]"]) if rng.random() < 0.7 else rand_t(rng)
        if cart and o_size(o) * n_radii(t) > 40:
            cart = False
        k = rng.randint(4, 8)
        ops = [rng.choice(HIST_CORE) if rng.random() < 0.55 else rng.choice(names) for _ in range(k)]
        ops.append(rng.choice(ops))                      # repetition
        ops.append(rng.choice(HIST_CORE))
        pure = rng.random() < 0.35             # a third of the histories only call (the code's own in-place arithmetic is then the only writer)
        if pure and "prefactors" not in ops[:-2]:
            ops[rng.randrange(len(ops) - 2)] = "prefactors"
        steps = [{"op": op, "scribble": None if pure else rng.choice(["scale", "overwrite", "overwrite", None])} for op in ops]
        f0 = rng.choice([0.5, 2, 3, 1.7])
        if rng.random() < 0.6:                 # assign a new positive factor once or twice, then ask again
            fprev = f0
            for _k in range(rng.choice([1, 1, 2])):
                fnew = rng.choice([v for v in (0.5, 0.8, 1, 1.7, 2, 2.5, 3) if v != fprev])
                pos = rng.randrange(0, len(steps) - 1)
                steps.insert(pos, {"op": "set_factor", "value": fnew, "rep": rng.choice(f_reps_for(fnew))})
                fprev = fnew
            steps.append({"op": rng.choice(["distances", "borders", "save_distances"]), "scribble": None})
            steps.append({"op": rng.choice(["volumes", "save_volumes", "prefactors"]), "scribble": None})
        yield {"kind": "hist", "b": b, "o": o, "t": t, "f": f0, "cart": cart, "rep": draw_rep(rng, f0, plain=0.2), "ops": steps}


# ------------------------------------------------------------------------------------------------------------------
# implementation side
# ------------------------------------------------------------------------------------------------------------------
class _FakeVoronoi:
    """stands in for the rotation grid's cell model in the assembly layer"""

    def __init__(self, mats, vols, used=None):
        self.mats, self.vols, self.used = mats, vols, used if used is not None else {"R": 0}

    def _calculate_N_N_array(self, sel_property="adjacency", **kw):
        from scipy.sparse import coo_array
        self.used["R"] += 1
        return coo_array(np.array(self.mats[sel_property], dtype=float))

    def get_voronoi_adjacency(self, **kw):
        return self._calculate_N_N_array("adjacency")

    def get_cell_borders(self, **kw):
        return self._calculate_N_N_array("border_len")

    def get_center_distances(self, **kw):
        return self._calculate_N_N_array("center_distances")

    def get_voronoi_volumes(self, **kw):
        return np.array(self.vols, dtype=float)


def _observe(fg, out, f):
    out["n_b"] = int(fg.get_b_N())
    out["n_P"] = int(len(fg.get_position_grid()))
    out["full"] = {}
    for sel, getter in zip(SELS, (fg.get_full_adjacency, fg.get_full_borders, fg.get_full_distances)):
        out["full"][sel] = canon(getter())
        factor_drift(fg, f, getter.__name__, out)
    out["only_position"] = canon(fg.get_full_distances(only_position=True))
    out["only_orientation"] = canon(fg.get_full_distances(only_orientation=True))
    out["only_orientation_adj"] = canon(fg.get_full_adjacency(only_orientation=True))
    factor_drift(fg, f, "get_full_distances/get_full_adjacency(only_...)", out)
    out["V"] = np.asarray(fg.get_total_volumes(), dtype=float)
    factor_drift(fg, f, "get_total_volumes", out)
    grid = np.asarray(fg.get_full_grid_as_array())
    pos = np.asarray(fg.get_position_grid().get_position_grid_as_array())
    quat = np.asarray(fg.b_rotations.get_grid_as_array(only_upper=True))
    out["grid_shape"] = list(grid.shape)
    out["grid"], out["pos"], out["quat"] = grid, pos, quat
    out["len"] = int(len(fg))
    factor_drift(fg, f, "get_full_grid_as_array", out)


_PRIVATE = __import__("re").compile(r"'_[A-Za-z]\w*'")


def impl(case):
    _install()
    from molgri.space.fullgrid import FullGrid
    try:
        with core.quiet():
            if case["kind"] == "fold":
                return impl_fold(case)
            if case["kind"] == "alias":
                return {"alias": alias_probe(case)}
            out = {}
            if case["kind"] == "rep":
                return {"rep": rep_check(case)}
            if case["kind"] == "syn":
                # constructor rule (DESIGN section 14): the object is built by FullGrid's own constructor from real (small)
                # grids; then the public attribute `spherical_voronoi` of its rotation grid is overwritten for the duration
                # of the case (and restored: the grid object is shared through the memoised factory) and the two sub-grid
                # getters of its own PositionGrid are replaced on the instance.
                from scipy.sparse import coo_array
                args, kw = ctor_args(case)
                fg = FullGrid(*args, **kw)
                P = {s: np.array(case["P"][s], dtype=float) for s in SELS}
                used = {"P": 0, "R": 0}
                fake = _FakeVoronoi(case["R"], case["Vrot"], used)
                br = fg.b_rotations
                saved = br.spherical_voronoi
                pg = fg.position_grid

                def injected_P(sel_property="adjacency"):
                    used["P"] += 1
                    return coo_array(P[sel_property])
                pg._get_N_N_position_array = injected_P
                pg.get_all_position_volumes = lambda: np.array(case["Vpos"], dtype=float)
                br.spherical_voronoi = fake
                try:
                    try:
                        _observe(fg, out, case["f"])
                    except (AttributeError, TypeError) as e:
                        if _PRIVATE.search(str(e)):
                            return {"stub_incompatible": f"{type(e).__name__}: {str(e)[:160]}"}
                        raise
                finally:
                    br.spherical_voronoi = saved
                if used["P"] == 0 or (out["n_b"] > 1 and used["R"] == 0):
                    return {"stub_incompatible": "the injected sub-grid getters were not called by the full-grid getters"}
                out["P"], out["R"] = P, {s: np.array(case["R"][s], dtype=float) for s in SELS}
                out["Vpos"], out["Vrot"] = np.array(case["Vpos"], dtype=float), np.array(case["Vrot"], dtype=float)
                return out
            args, kw = ctor_args(case)
            fg = FullGrid(*args, **kw)
            _observe(fg, out, case["f"])
            nb = out["n_b"]
            pg = fg.get_position_grid()
            # what _get_N_N consumes (inputs of the model)
            out["P"] = {s: np.asarray(pg._get_N_N_position_array(sel_property=s).toarray(), dtype=float) for s in SELS}
            vor = fg.b_rotations.get_spherical_voronoi()
            if nb > 1:
                out["R"] = {s: np.asarray(vor._calculate_N_N_array(sel_property=s).toarray(), dtype=float) for s in SELS}
            else:
                out["R"] = {s: np.zeros((1, 1)) for s in SELS}
            out["Vpos"] = np.asarray(pg.get_all_position_volumes(), dtype=float)
            out["Vrot"] = np.asarray(vor.get_voronoi_volumes(), dtype=float)
            # public getters of the two sub-grids (inputs of the oracle), cached per sub-grid
            kp = (case["o"], case["t"], case["cart"])
            if kp not in _pub_pos:
                _pub_pos[kp] = {"adjacency": np.asarray(pg.get_adjacency_of_position_grid().toarray(), dtype=float),
                                "border_len": np.asarray(pg.get_borders_of_position_grid().toarray(), dtype=float),
                                "center_distances": np.asarray(pg.get_distances_of_position_grid().toarray(), dtype=float)}
            out["pubP"] = _pub_pos[kp]
            if case["b"] not in _pub_rot:
                br = fg.b_rotations
                if nb > 1:
                    _pub_rot[case["b"]] = {"adjacency": np.asarray(br.get_voronoi_adjacency().toarray(), dtype=float),
                                           "border_len": np.asarray(br.get_cell_borders().toarray(), dtype=float),
                                           "center_distances": np.asarray(br.get_center_distances().toarray(), dtype=float)}
                else:
                    _pub_rot[case["b"]] = {s: np.zeros((1, 1)) for s in SELS}
            out["pubR"] = _pub_rot[case["b"]]
            if case["kind"] == "hist":
                out["hist"] = history_check(case, out)
            return out
    except Exception as e:
        return {"err": core.errname(e), "msg": str(e)[:200]}


def impl_fold(case):
    from molgri.space.rotobj import SphereGrid4DFactory
    from molgri.naming import GridNameParser
    from molgri.space.utils import which_row_is_k
    nm = GridNameParser(case["b"], "b")
    g = SphereGrid4DFactory.create(alg_name=nm.get_alg(), N=nm.get_N())
    hv = g.get_spherical_voronoi()
    pts = np.asarray(hv.spherical_voronoi.points)
    m = len(pts)
    opp = []
    for d in range(m):
        w = which_row_is_k(pts, -pts[d])
        opp.append(int(w[0]) if len(w) > 0 else None)
    upper = [int(u) for u in hv._get_upper_indices()]
    out = {"m": m, "opp": opp, "upper": upper, "A": {}, "H": {}, "pub": {}}
    for s in SELS:
        out["A"][s] = np.asarray(hv.full_voronoi._calculate_N_N_array(sel_property=s).toarray(), dtype=float)
        H = hv._calculate_N_N_array(sel_property=s)
        out["H"][s] = np.asarray(H.toarray(), dtype=float)
        out["Hc"] = canon(H) if s == "adjacency" else out.get("Hc")
    out["pub"] = {"adjacency": np.asarray(g.get_voronoi_adjacency().toarray(), dtype=float),
                  "border_len": np.asarray(g.get_cell_borders().toarray(), dtype=float),
                  "center_distances": np.asarray(g.get_center_distances().toarray(), dtype=float)}
    out["fullA"] = np.asarray(hv.full_voronoi.get_voronoi_adjacency().toarray(), dtype=float)
    return out


# ------------------------------------------------------------------------------------------------------------------
# model side
# ------------------------------------------------------------------------------------------------------------------
def model_ops(case, out):
    if "err" in out or "stub_incompatible" in out or case["kind"] in ("alias", "rep"):
        return []
    if case["kind"] == "fold":
        if not all(finite(out["A"][s]) for s in SELS):
            return []            # NaN/inf cannot be sent as rationals; the oracle reports them (positivity/finite clause)
        return [{"op": "half", "m": out["m"], "opp": out["opp"], "upper": out["upper"], "A": rat_rows(out["A"][s])} for s in SELS]
    if not all(finite(out["P"][s]) and finite(out["R"][s]) for s in SELS) or not finite(out["Vpos"]) or not finite(out["Vrot"]):
        return []                # NaN/inf cannot be sent as rationals; the oracle reports them
    nP, nB, f = out["n_P"], out["n_b"], core.rat(float(case["f"]))
    ops = []
    for s in SELS:
        ops.append({"op": "full", "sel": s, "nP": nP, "nB": nB, "f": f, "P": rat_rows(out["P"][s]), "R": rat_rows(out["R"][s])})
    s = "center_distances"
    ops.append({"op": "only_position", "nP": nP, "nB": nB, "R": rat_rows(out["R"][s])})
    ops.append({"op": "only_orientation", "sel": s, "nP": nP, "nB": nB, "f": f, "P": rat_rows(out["P"][s]), "R": rat_rows(out["R"][s])})
    ops.append({"op": "only_orientation", "sel": "adjacency", "nP": nP, "nB": nB, "f": f, "P": rat_rows(out["P"]["adjacency"]),
                "R": rat_rows(out["R"]["adjacency"])})
    ops.append({"op": "volumes", "f": f, "Vpos": [core.rat(float(v)) for v in out["Vpos"]], "Vrot": [core.rat(float(v)) for v in out["Vrot"]]})
    ops.append({"op": "rows", "nP": nP, "nB": nB})
    return ops


def cmp_entries(ctx, what, case, obs, mres, n):
    """stored entries: (row, col) sequence exactly, values to REL"""
    if "err" in mres:
        ctx.corr(what + "/model-error", case, {"nnz": len(obs["row"])}, mres)
        return False
    ent = mres["ok"]
    if obs["shape"] != [n, n]:
        ctx.corr(what + "/shape", case, obs["shape"], [n, n])
        return False
    mk = [(e[0], e[1]) for e in ent]
    ik = list(zip(obs["row"], obs["col"]))
    if mk != ik:
        d = next((i for i, (a, b) in enumerate(zip(mk, ik)) if a != b), min(len(mk), len(ik)))
        ctx.corr(what + "/stored-index-sequence", case,
                 {"nnz": len(ik), "first_difference_at": d, "entry": ik[d] if d < len(ik) else None},
                 {"nnz": len(mk), "entry": mk[d] if d < len(mk) else None})
        return False
    for (r, c, v), x in zip(ent, obs["data"]):
        if not core.close(x, float(core.unrat(v)), rel=REL, abs_=0):
            ctx.corr(what + "/value", case, {"row": r, "col": c, "value": x}, {"value": v, "as_float": float(core.unrat(v))})
            return False
    return True


def compare(ctx, case, out, mouts):
    kind = case["kind"]
    if "err" in out:
        ctx.branch(f"{kind}:error:{out['err']}")
        return
    if "stub_incompatible" in out:
        ctx.branch("stub_incompatible")
        if not any(n.startswith("NOTE stub_incompatible") for n in getattr(ctx, "notes", [])):
            ctx.note("NOTE stub_incompatible: a synthetic (injected) case could not be run on this tree: " + out["stub_incompatible"]
                     + " - counted, neither a correspondence break nor a failing input; checks on really constructed objects are unaffected")
        return
    if "rep" in case:
        r = case["rep"]
        ctx.branch(f"representation:factor={r.get('f')}")
        ctx.branch(f"representation:names={r.get('b')}/{r.get('o')}/{r.get('t')}")
        if "cart" in case:
            ctx.branch(f"representation:cartesian_flag={r.get('cart')}")
    if kind == "rep":
        ctx.branch("representation_sweep:objects")
        ctx.branch("representation_sweep:calls", out["rep"]["calls"])
        ctx.nt(("rep", case["b"], case["o"], case["cart"], case["rep"]["f"], "-".join(case["order"])))
        return
    if kind == "alias":
        ctx.branch("alias_probe:getters", out["alias"]["probed"])
        ctx.nt(("alias", case["b"], case["o"], case["t"], case["cart"]))
        return
    if kind == "hist":
        ctx.branch("history:objects")
        ctx.branch("history:calls", out["hist"]["steps"])
        for o in out["hist"]["ops"]:
            ctx.branch(f"history:op={o}")
        if "set_factor" in out["hist"]["ops"]:
            ctx.branch("history:with_factor_reassignment")
        kind = "real"
    if kind == "fold":
        if len(mouts) < 3:
            ctx.branch("fold:non-finite-inputs")
            return
        for s, mres in zip(SELS, mouts):
            if "err" in mres:
                ctx.corr(f"fold/{s}/model-error", case, None, mres)
                return
            Hm = np.array([[float(core.unrat(v)) for v in row] for row in mres["ok"]], dtype=float).reshape(len(out["upper"]), -1)
            Hi = out["H"][s]
            if Hm.shape != Hi.shape or not np.array_equal(Hm, Hi):       # the fold only copies values: exact
                bad = np.argwhere(Hm != Hi)[:3].tolist() if Hm.shape == Hi.shape else "shape"
                ctx.corr(f"fold/{s}", case, {"shape": list(Hi.shape), "differs_at": bad}, {"shape": list(Hm.shape)})
                return
        # coo_array(dense): row-major, zeros skipped
        Hc, Ha = out["Hc"], out["H"]["adjacency"]
        nz = [(int(i), int(j)) for i, j in zip(*np.nonzero(Ha))]
        if list(zip(Hc["row"], Hc["col"])) != nz:
            ctx.corr("fold/coo-order", case, list(zip(Hc["row"], Hc["col"]))[:10], nz[:10])
        ctx.branch(f"fold:N={len(out['upper'])}")
        if np.any(out["H"]["adjacency"] != 0):
            ctx.nt(("fold", case["b"]))
        return
    if not mouts:
        ctx.branch(f"{kind}:non-finite-inputs")
        return
    n = out["n_P"] * out["n_b"]
    ok = True
    for s, mres in zip(SELS, mouts[:3]):
        ok = cmp_entries(ctx, f"{kind}/full/{s}", case, out["full"][s], mres, n) and ok
    if out["n_P"] > 1:
        cmp_entries(ctx, f"{kind}/only_position", case, out["only_position"], mouts[3], n)
        cmp_entries(ctx, f"{kind}/only_orientation", case, out["only_orientation"], mouts[4], n)
        cmp_entries(ctx, f"{kind}/only_orientation_adj", case, out["only_orientation_adj"], mouts[5], n)
    mv = mouts[6]
    if "err" in mv or len(mv["ok"]) != len(out["V"]):
        ctx.corr(f"{kind}/volumes/length", case, len(out["V"]), mv)
    else:
        for k, (v, x) in enumerate(zip(mv["ok"], out["V"])):
            if not core.close(x, float(core.unrat(v)), rel=REL, abs_=0):
                ctx.corr(f"{kind}/volumes/value", case, {"index": k, "value": float(x)}, {"value": v})
                break
    rows = mouts[7].get("ok", [])
    g, pos, quat = out["grid"], out["pos"], out["quat"]
    if len(rows) != len(g) or g.shape[1:] != (7,) or len(pos) != out["n_P"] or len(quat) != out["n_b"]:
        ctx.corr(f"{kind}/rows/length", case, list(g.shape), len(rows))
    else:
        for k, (p, q) in enumerate(rows):
            if not (np.array_equal(g[k, :3], pos[p]) and np.array_equal(g[k, 3:], quat[q])):
                ctx.corr(f"{kind}/rows/order", case, {"row": k, "value": g[k].tolist()}, {"position": p, "quaternion": q})
                break
    # evidence
    ctx.branch(f"{kind}:n_b={out['n_b']}")
    ctx.branch(f"{kind}:n_P={out['n_P']}" if kind == "syn" else f"{kind}:o={case['o'].split('_')[0]}:{'cart' if case['cart'] else 'shells'}")
    if kind == "real":
        ctx.branch(f"real:b={case['b'].split('_')[0]}")
        ctx.branch(f"real:n_o={o_size(case['o'])}")
    ctx.branch(f"{kind}:n<={10 ** len(str(max(n - 1, 1)))}")
    hasP = len(out["only_orientation"]["row"]) > 0
    hasR = len(out["only_position"]["row"]) > 0
    if out["n_P"] == 1:
        ctx.branch("shortcut_single_position")
    if (hasP and hasR) or (out["n_b"] == 1 and hasP) or (out["n_P"] == 1 and len(out["full"]["adjacency"]["row"]) > 0):
        ctx.nt(hashlib.sha256(json.dumps(case, sort_keys=True).encode()).hexdigest()[:16])
    if kind == "syn" and case["style"] == "wild":
        ctx.branch("syn:wild")
    if kind == "real" and len(ctx.samples) < 4 and out["n_b"] > 1 and out["n_P"] > 4:
        ctx.sample(case)
    elif kind == "syn" and out["n_P"] <= 2 and out["n_b"] <= 2 and len(ctx.samples) < 6:
        ctx.sample(case)


# ------------------------------------------------------------------------------------------------------------------
# oracle: the statement of C02 on the implementation
# ------------------------------------------------------------------------------------------------------------------
def expected(sel, f, P, R, nP, nB):
    """the product rule with numpy.kron: same rotation -> factor x position quantity, same position -> rotation quantity"""
    Pm = (P != 0).astype(float) if sel == "adjacency" else P * fac(sel, f)
    return np.kron(Pm, np.eye(nB)) + np.kron(np.eye(nP), R)


def rel_close(A, B, rel):
    A, B = np.asarray(A, dtype=float), np.asarray(B, dtype=float)
    return bool(np.all(np.abs(A - B) <= rel * np.maximum(np.abs(A), np.abs(B))))


def first_bad(A, B, rel):
    """index of the first entry where A and B are not close (NaN counts as not close)"""
    A, B = np.asarray(A, dtype=float), np.asarray(B, dtype=float)
    bad = np.argwhere(~(np.abs(A - B) <= rel * np.maximum(np.abs(A), np.abs(B))))
    return [int(x) for x in bad[0]]


def keyer(case):
    if case["kind"] == "syn":
        return "C02:assembly:"
    if case["kind"] == "alias":
        return "C02:alias:"
    if case["kind"] == "fold":
        return f"C02:rotation:{case['b']}:"
    return f"C02:{'cartesian' if case['cart'] else 'shells'}:{case['o']}:"


def oracle(ctx, case, out):
    K = keyer(case)
    kind = case["kind"]
    if "err" in out:
        if kind == "real" and case["cart"] and o_size(case["o"]) < 3 and out["err"] == "other:QhullError":
            ctx.branch("excluded:cartesian_needs_3_directions(QhullError)")
            return
        ctx.fail(K + "exception", f"building the grid / its matrices raised {out['err']}: {out.get('msg')}", case)
        return
    if "stub_incompatible" in out:
        return
    if kind == "fold":
        return oracle_fold(ctx, case, out, K)
    if kind == "rep":
        for fl in out["rep"]["failures"]:
            r = case["rep"]
            ctx.fail(K + f"representation:{fl['op']}", f"FullGrid built with factor = {r['f']}({case['f']}), names as {r['b']}/{r['o']}/{r['t']}, "
                     f"position_grid_cartesian as {r['cart']}: after the calls  {' -> '.join(fl['call_sequence'])}  the answer of {fl['op']} {fl['why']}",
                     dict(case, order=fl["call_sequence"][:3] if len(fl["call_sequence"]) >= 3 else case["order"]),
                     fl["plain_object"], fl["this_object"])
        return
    if "factor_drift" in out:
        d = out["factor_drift"]
        ctx.fail(K + "factor_changed", f"after {d['after']} the attribute fg.factor is {d['found']} ({d['type']}), which no longer denotes the "
                 f"factor {d['expected']} the grid was built with (representation {(case.get('rep') or {}).get('f', 'as_given')})", case,
                 d["expected"], d["found"])
    if kind == "alias":
        for a in out["alias"]["aliases"]:
            if a["op"] in OUTSIDE_PROPERTY_ALIASES:
                ctx.branch("alias_outside_property:" + a["op"])
                continue
            ctx.fail(K + a["op"], f"the object returned by {a['op']} is internal state: after overwriting it in place the same getter "
                     "answers differently on the same grid object", case, a["first_answer"], a["answer_after_overwriting_the_returned_object"])
        return
    if kind == "hist":
        oracle_history(ctx, case, out)
        kind = "real"
    nP, nB, f = out["n_P"], out["n_b"], float(case["f"])
    n = nP * nB
    full = out["full"]
    D = {s: dense_of(full[s]) if full[s]["shape"] == [n, n] else None for s in SELS}
    if any(D[s] is None for s in SELS):
        ctx.fail(K + "shape", f"a full matrix does not have shape {n}x{n}", case, [n, n], {s: full[s]["shape"] for s in SELS})
        return
    if kind == "syn":
        P, R = out["P"], out["R"]
        if nB == 1:
            R = {s: np.zeros((1, 1)) for s in SELS}
        consistent = case["style"] == "sym"
    else:
        P, R = out["pubP"], out["pubR"]
        consistent = True
    # -- product rule: pattern and values ---------------------------------------------------------------------------
    for s in SELS:
        if nP > 1:
            E = expected(s, f, np.asarray(P[s], dtype=float), np.asarray(R[s], dtype=float), nP, nB)
        else:
            E = np.asarray(R[s], dtype=float)
        tol_zero = 0.0
        Epat = np.abs(E) > tol_zero
        # near-cancellation with generic floats: the statement leaves the pattern open there -> excluded and counted
        scale = np.kron(np.abs(np.asarray(P[s], dtype=float)) * abs(fac(s, f)), np.eye(nB)) + np.kron(np.eye(nP), np.abs(np.asarray(R[s], dtype=float))) if nP > 1 else np.abs(E)
        amb = (np.abs(E) <= 1e-9 * scale) & (scale > 0) & (E != 0)
        if np.any(amb):
            ctx.branch("excluded:near_cancellation")
            continue
        Mpat = np.zeros((n, n), dtype=bool)
        Mpat[np.array(full[s]["row"], dtype=int), np.array(full[s]["col"], dtype=int)] = True
        if not np.array_equal(Mpat, Epat):
            a, b = [int(x) for x in np.argwhere(Mpat != Epat)[0]]
            ctx.fail(K + f"rule:{s}", f"{s}: cells {a} (pos {a // nB}, rot {a % nB}) and {b} (pos {b // nB}, rot {b % nB}): stored={bool(Mpat[a, b])} "
                     f"but the product rule says {bool(Epat[a, b])}", case, {"expected_entry": float(E[a, b])}, {"stored": bool(Mpat[a, b]), "value": float(D[s][a, b])})
            continue
        if not rel_close(D[s], E, 1e-10):
            a, b = first_bad(D[s], E, 1e-10)
            ctx.fail(K + f"value:{s}", f"{s}: entry ({a},{b}) is {D[s][a, b]!r}, the statement gives {E[a, b]!r} "
                     f"(factor {fac(s, f)} on the position family, none on the rotation family)", case, float(E[a, b]), float(D[s][a, b]))
        keys = list(zip(full[s]["row"], full[s]["col"]))
        if len(keys) != len(set(keys)):
            ctx.fail(K + f"duplicates:{s}", f"{s}: a (row, col) position is stored twice", case)
    # -- volumes and cell order -------------------------------------------------------------------------------------
    V, Vpos, Vrot = out["V"], np.asarray(out["Vpos"], dtype=float), np.asarray(out["Vrot"], dtype=float)
    EV = np.kron(Vpos, Vrot) * f ** 3
    if len(V) != n or out["len"] != n or out["grid_shape"] != [n, 7]:
        ctx.fail(K + "volume_order", f"lengths differ: volumes {len(V)}, len(grid) {out['len']}, grid array {out['grid_shape']}, matrices {n}", case)
    elif not rel_close(V, EV, 1e-10):
        k = first_bad(V, EV, 1e-10)[0]
        ctx.fail(K + "volume_order", f"volume of cell {k} is {V[k]!r}, not Vpos[{k // nB}]*Vrot[{k % nB}]*f^3 = {EV[k]!r}", case, float(EV[k]), float(V[k]))
    else:
        g, pos, quat = out["grid"], out["pos"], out["quat"]
        idx = np.arange(n)
        if not (np.array_equal(g[:, :3], pos[idx // nB]) and np.array_equal(g[:, 3:], quat[idx % nB])):
            ctx.fail(K + "row_order", "row n of the grid array is not (position n // n_b, rotation n % n_b)", case)
    if not consistent:
        return
    # -- clauses about well-formed geometry (sub-grid matrices consistent): symmetry, diagonal, one pattern, positivity ---
    for s in SELS:
        M = D[s]
        if not (np.array_equal(M != 0, (M != 0).T) and rel_close(M, M.T, SYM_REL)):
            a, b = first_bad(M, M.T, SYM_REL)
            ctx.fail(K + f"symmetric:{s}", f"{s}: entry ({a},{b}) = {M[a, b]!r} but ({b},{a}) = {M[b, a]!r}", case)
        if any(r == c for r, c in zip(full[s]["row"], full[s]["col"])):
            ctx.fail(K + f"diagonal:{s}", f"{s}: a diagonal entry is stored", case)
        dat = np.array(full[s]["data"], dtype=float)
        if not (np.all(np.isfinite(dat)) and np.all(dat > 0)):
            ctx.fail(K + f"positive:{s}", f"{s}: stored entries must be finite and > 0, found {dat[~(np.isfinite(dat) & (dat > 0))][:3].tolist()}", case)
    ka = list(zip(full["adjacency"]["row"], full["adjacency"]["col"]))
    for s in SELS[1:]:
        ks = list(zip(full[s]["row"], full[s]["col"]))
        if ks != ka:
            ctx.fail(K + "pattern", f"adjacency stores {len(ka)} entries, {s} stores {len(ks)}: the stored (row, col) sequences differ "
                     "(the rate matrix divides borders by distances entry by entry)", case, len(ka), len(ks))
            break
    if kind == "real" and not (np.all(np.isfinite(V)) and np.all(V > 0)):
        ctx.fail(K + "volume_positive", f"{int(np.sum(~(V > 0)))} of {len(V)} cell volumes are not finite and > 0", case)


def oracle_history(ctx, case, out):
    """every answer along the history must be the first answer of a fresh object (whose answers the clauses below check)"""
    h = out["hist"]
    for fl in h["failures"]:
        hist = " -> ".join((f"fg.factor = {st.get('rep') or 'as_given'}({st['value']})" if st["op"] == "set_factor" else st["op"]) +
                           ({"scale": "[returned object scaled in place]", "overwrite": "[returned object overwritten in place]"}.get(st.get("scribble"), ""))
                           for st in fl["minimal_history"])
        ctx.fail(f"C02:history:{fl['op']}", f"on one FullGrid object (built with factor {(case.get('rep') or {}).get('f', 'as_given')}({case['f']})) after the history  {hist}  the answer of "
                 f"{fl['op']} {fl.get('why', 'differs from a fresh object')} (state left by earlier calls / aliasing / stale copies of the factor)",
                 dict(case, ops=fl["minimal_history"]), fl["fresh_object"], fl["this_object"])
    # the references are the data the statement-level clauses are evaluated on
    link = {"adjacency": "adjacency", "borders": "border_len", "distances": "center_distances"}
    for op, snap in h.get("ref", {}).items():
        if op in link:
            c = out["full"][link[op]]
            same = list(snap[1]) == c["shape"] and snap[2].tolist() == c["row"] and snap[3].tolist() == c["col"] and rel_close(snap[4], c["data"], 1e-12)
        else:
            same = snap[1].shape == np.shape(out["V"]) and rel_close(snap[1], out["V"], 1e-12)
        if not same:
            ctx.fail(f"C02:history:{op}", f"two fresh objects of the same grid give different {op}", case)


def oracle_fold(ctx, case, out, K):
    N, m = len(out["upper"]), out["m"]
    H = out["pub"]
    # hypotheses of half_entry / half_symm validated on this grid (assumptions of the theorems, C07/C04 own them)
    layout = out["upper"] == list(range(N)) and m == 2 * N and out["opp"] == [(i + N) % m for i in range(m)]
    ctx.branch("fold:double_cover_layout_ok" if layout else "fold:double_cover_layout_VIOLATED")
    for s in SELS:
        A = out["A"][s]
        sym = np.array_equal(A, A.T)
        o = np.array([(i + N) % m for i in range(m)]) if layout else None
        anti = layout and rel_close(A[np.ix_(o, o)], A, SYM_REL) and np.array_equal(A[np.ix_(o, o)] != 0, A != 0)
        ctx.branch(f"fold:full_sphere_symmetric={sym}")
        ctx.branch(f"fold:full_sphere_antipodal={bool(anti)}")
    for s in SELS:
        M = H[s]
        if M.shape != (N, N):
            ctx.fail(K + "shape", f"rotation {s} matrix has shape {M.shape}, not {(N, N)}", case)
            return
        if not (np.array_equal(M != 0, (M != 0).T) and rel_close(M, M.T, SYM_REL)):
            a, b = first_bad(M, M.T, SYM_REL)
            ctx.fail(K + f"symmetric:{s}", f"rotation grid {s}: entry ({a},{b}) = {M[a, b]!r} but ({b},{a}) = {M[b, a]!r}", case)
        if np.any(np.diag(M) != 0):
            ctx.fail(K + f"diagonal:{s}", f"rotation grid {s}: non-empty diagonal", case)
        v = M[M != 0]
        if not (np.all(np.isfinite(M)) and np.all(v > 0)):
            ctx.fail(K + f"positive:{s}", f"rotation grid {s}: entries must be finite and > 0", case)
        if not np.array_equal(M != 0, H["adjacency"] != 0):
            ctx.fail(K + "pattern", f"rotation grid: {s} and adjacency have different sparsity patterns", case)
    if layout:
        F = out["fullA"] != 0
        rule = F[:N, :N] | F[:N, N:]
        if not np.array_equal(H["adjacency"] != 0, rule):
            a, b = [int(x) for x in np.argwhere((H["adjacency"] != 0) != rule)[0]]
            ctx.fail(K + "fold_rule", f"rotations {a},{b}: adjacent={bool(H['adjacency'][a, b])} but on the sphere a~b or a~-b is {bool(rule[a, b])}", case)


# ------------------------------------------------------------------------------------------------------------------
# driver of the check: chunks of cases; thorough runs the chunks on a process pool (one Lean driver call per chunk)
# ------------------------------------------------------------------------------------------------------------------
class _Recorder:
    """records what compare()/oracle() report inside a worker; replayed onto the real Ctx in the parent"""

    def __init__(self):
        self.events = []
        self.samples = []

    def corr(self, *a):
        self.events.append(("corr", a))

    def fail(self, key, what, case, expected=None, observed=None):
        self.events.append(("fail", (key, what, case, expected, observed)))

    def branch(self, name, n=1):
        self.events.append(("branch", (name, n)))

    def nt(self, key):
        self.events.append(("nt", (key,)))

    def note(self, text):
        self.events.append(("note", (text,)))

    def sample(self, case, limit=6):
        if len(self.samples) < limit:
            self.samples.append(case)
            self.events.append(("sample", (case, limit)))


def _jsonable(x):
    return json.loads(json.dumps(x, default=str))


def _process_chunk(chunk):
    import traceback
    rec = _Recorder()
    outs = [impl(c) for c in chunk]
    ops, spans = [], []
    for c, o in zip(chunk, outs):
        m = model_ops(c, o)
        spans.append((len(ops), len(ops) + len(m)))
        ops.extend(m)
    drv = core.LeanDriver("C02")
    res = drv.run(ops)
    for c, o, (a, b) in zip(chunk, outs, spans):
        try:
            compare(rec, c, o, res[a:b])
            oracle(rec, c, o)
        except core.HarnessError:
            raise
        except Exception:
            raise core.HarnessError(f"compare/oracle crashed on {str(c)[:300]}: {traceback.format_exc()}")
    return _jsonable(rec.events), len(chunk), drv.calls, drv.lines


def _merge(ctx, result):
    events, n, calls, lines = result
    ctx.count(n)
    ctx.driver.calls += calls
    ctx.driver.lines += lines
    for kind, a in events:
        if kind == "note":
            if a[0] not in ctx.notes:
                ctx.note(a[0])
        elif kind == "nt":
            ctx.nt(a[0] if isinstance(a[0], (str, int)) else tuple(a[0]))
        else:
            getattr(ctx, kind)(*a)


def _chunks(cs, size):
    for i in range(0, len(cs), size):
        yield cs[i:i + size]


def run(ctx):
    # witnesses of repaired findings first, then a first batch of generated cases, then the witnesses of the open finding
    # (so that the replay file of a violation is not filled with the F11 grids alone), then everything else
    fixed = [c for f in ctx.fixed_findings for c in f.get("cases", [])]
    opened = [c for f in ctx.open_findings for c in f.get("cases", [])]
    gen = list(cases(ctx))
    allc = fixed + gen[:200] + opened + gen[200:]
    _install()
    ctx.extra_cov["representations"] = {
        "factor_accepted_and_used": {r: ("every f" if r in ("py_float", "np_float64", "arr0d_float", "squeezed", "fraction") else
                                         "f, f^2, f^3 exactly representable in float32" if r == "np_float32" else "integer-valued f")
                                     for r in F_REPS},
        "names_and_radial_text": list(STR_REPS), "position_grid_cartesian": list(CART_REPS),
        "factor_left_out": F_REPS_EXCLUDED, "factor_left_out_observed_on_this_tree": probe_excluded(),
        "rule": "established on the unchanged tree: used representations are accepted there and agree with the plain Python-float "
                "object to 1e-12 on adjacency, borders, distances, prefactors and volumes; left-out ones raise there",
    }
    if ctx.quick:
        for ch in _chunks(allc, CHUNK):
            _merge(ctx, _process_chunk(ch))
        return
    # thorough: group the real grids by rotation grid (its 4-D Voronoi is memoised per process), small chunks, pool
    syn = [c for c in allc if c["kind"] == "syn"]
    rest = sorted([c for c in allc if c["kind"] != "syn"], key=lambda c: (b_size(c["b"]), c["b"]))
    chunks = list(_chunks(rest, 6))[::-1] + list(_chunks(syn, 100))       # expensive chunks first
    import multiprocessing as mp
    limit = float(os.environ.get("VERIF_C02_BUDGET_S", 15 * 60))
    done = 0
    with mp.get_context("fork").Pool(min(14, os.cpu_count() or 2)) as pool:
        for r in pool.imap_unordered(_process_chunk, chunks):
            _merge(ctx, r)
            done += 1
            if time.time() - ctx.t0 > limit and done < len(chunks):
                ctx.note(f"time budget of {limit:.0f} s reached after {done} of {len(chunks)} chunks; the remaining chunks were not run")
                pool.terminate()
                break


def replay(ctx, cs):
    _merge(ctx, _process_chunk(list(cs)))
