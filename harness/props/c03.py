"""C03 - direction-grid cells are the true Voronoi tessellation of the sphere
(molgri.space.voronoi.RotobjVoronoi for dim 3: get_reduced_vertices_regions, _calculate_N_N_array,
_calculate_center_distances, _calculate_borders, get_voronoi_volumes; observed through
SphereGrid3Dim.get_voronoi_adjacency / get_cell_borders / get_center_distances / get_voronoi_volumes).

K  correspondence: the Lean model (Molgri/Model/Voronoi.lean) is given the implementation's scipy object
   (points, vertices, regions - exact rationals) and must reproduce reduced vertices, reduced regions and the
   three coo matrices (index sequences exactly, values through the cosine); additionally the model's exact
   certificate `regionsCertifiedB` (hypothesis of theorem adjacent_shares_arc_partial) is evaluated on every grid.
   Synthetic (non-geometric) vertices/regions drive the same code through duplicate / near-duplicate /
   error branches.
S  failing-input search: an oracle that never looks at vertices or regions.  For every pair (i, j) of every grid
   the bisector great circle of p_i, p_j is cut by the half-spaces of all other points; the feasible arc has
   length max(0, g - pi) with g the largest cyclic gap of the constraint directions.  adjacency <=> length > 0,
   border = length, distance = angle(p_i, p_j), area_i = sum over true neighbours of the spherical triangle
   (p_i, arc end 1, arc end 2); areas positive, sum 4 pi; symmetric matrices, empty diagonal, one pattern.
"""
from __future__ import annotations

import math
import multiprocessing as mp
import os
from fractions import Fraction

import numpy as np

import core

RULE = ("every grid / rot case draws (by seed) the representation of each argument it passes to the package - N as int / np.int64 / "
        "np.int32 / np.uint16 / 0-d array, algorithm name as str / run-time-built str / np.str_ / str subclass, dimensions as int / "
        "numpy integer, construction route (3-D factory positional / keyword, SphereGridFactory, class + gen_grid), getter flags as "
        "absent / bool / np.bool_ / 0-1, RotobjVoronoi point array as C / Fortran / strided / read-only - plus an exhaustive sweep of "
        "all families over ico_8, cube3D_13, randomS_20; the expected result never depends on the representation. "
        "grids: every (algorithm, N) with algorithm in {ico, cube3D, randomS} and N in 4..30 plus seed-chosen larger N "
        "(quick) / every N in 4..162 plus {200,300,500,642} (thorough); each also as a randomly rotated copy fed to "
        "RotobjVoronoi (degenerate vertices then differ in the last bits and exercise the isclose re-indexing); "
        "additionally randomS N in 200..300 (quick: 240 and three seed-chosen; thorough: every N 163..300), the grids with "
        "the shortest Voronoi edges; grids targeted by a pre-scan (Delaunay edges from scipy ConvexHull of the "
        "implementation's points, N = 5..500 randomS / 300 or 500 ico, cube3D): those whose true neighbours have the largest "
        "neighbour rank by distance (quick top 5 pairs + 2 seed-chosen N in 100..500, thorough top 40 + 30) and the most "
        "elongated cells; "
        "synthetic vertices/regions (exact duplicates, near-duplicates at separations log-uniform over 1e-12..1e-3 in one "
        "coordinate / all coordinates / the norm, vanishing and tiny coordinates, antipodes, repeated "
        "region entries, out-of-range entries, more regions than centres, antipodal shared vertices) for the list logic. "
        "A grid case is non-trivial when it has at least one adjacent and one non-adjacent pair or a degenerate vertex; "
        "distinct by (kind, algorithm, N, rotation) resp. by the synthetic data")

ALGS = ("ico", "cube3D", "randomS")
EPS_CERT = Fraction(1, 10 ** 9)          # slack of the exact certificate (dot-product units)
ADJ_MIN = 1e-7                           # arc longer than this => must be adjacent
ZERO_MAX = 1e-9                          # arc shorter than this (or negative) => must not be adjacent
TWO_PI = 2 * math.pi
WORKERS_QUICK = 4


# ------------------------------------------------------------------------------------------------
# cases
# ------------------------------------------------------------------------------------------------
def _rot_case(rng, alg, N):
    q = [rng.gauss(0, 1) for _ in range(4)]
    n = math.sqrt(sum(x * x for x in q))
    return {"kind": "rot", "alg": alg, "N": N, "q": [x / n for x in q]}


def _unit(rng):
    v = [rng.gauss(0, 1) for _ in range(3)]
    n = math.sqrt(sum(x * x for x in v))
    return [x / n for x in v]


def _renorm(v):
    n = math.sqrt(sum(x * x for x in v))
    return [x / n for x in v]


def _isclose_margin_ok(a, b):
    """neither direction of np.isclose(a, b) (rtol 1e-5, atol 1e-8, per coordinate) is within 1e-6 (relative) of its
    decision boundary, so the exact rational reading of the model and numpy's float evaluation must agree"""
    for k, row in ((a, b), (b, a)):
        for x, y in zip(k, row):
            tol = 1e-8 + 1e-5 * abs(y)
            if abs(abs(x - y) - tol) <= 1e-6 * tol:
                return False
    return True


def _near_copy(rng, v):
    """a near-duplicate of v at a separation log-uniform over 1e-12 .. 1e-3: in one coordinate, in all coordinates,
    or in the norm.  Any change of the isclose tolerances (atol or rtol, up or down) flips some of these."""
    for _ in range(20):
        s = 10 ** rng.uniform(-12, -3)
        mode = rng.choice(["one", "all", "norm"])
        if mode == "one":
            w = list(v)
            w[rng.randrange(3)] += rng.choice([-1, 1]) * s
            w = _renorm(w)
        elif mode == "all":
            w = _renorm([x + rng.choice([-1, 1]) * s * rng.uniform(0.3, 1.0) for x in v])
        else:
            f = 1 + rng.choice([-1, 1]) * s
            w = [x * f for x in v]
        if w != v and _isclose_margin_ok(v, w):
            return w
    return list(v)


def _synthetic(rng):
    """vertices with exact duplicates, near-duplicates at every scale and antipodes; arbitrary region lists"""
    nv = rng.randint(4, 12)
    base = []
    for _ in range(nv):
        v = _unit(rng)
        r = rng.random()
        if r < 0.15:        # a vanishing coordinate: there the absolute tolerance alone decides
            v[rng.randrange(3)] = 0.0
            v = _renorm(v)
        elif r < 0.35:      # a tiny coordinate
            v[rng.randrange(3)] = rng.choice([-1, 1]) * 10 ** rng.uniform(-10, -2)
            v = _renorm(v)
        base.append(v)
    verts = [(v, k) for k, v in enumerate(base)]          # (vertex, family)
    has_near = set()
    for _ in range(rng.randint(0, 7)):
        v, fam = rng.choice(verts)
        mode = rng.choice(["exact", "near", "near", "near", "antipode"])
        if mode == "near":
            if fam in has_near:           # one non-exact copy per family keeps `isclose` an equivalence on the case
                continue
            has_near.add(fam)
            v = _near_copy(rng, v)
        elif mode == "antipode":
            if fam in has_near:
                has_near.add(("anti", fam))
            v, fam = [-x for x in v], ("anti", fam)
        verts.insert(rng.randint(0, len(verts)), (list(v), fam))
    verts = [v for v, _ in verts]
    ncent = rng.randint(2, 8)
    centers = [_unit(rng) for _ in range(ncent)]
    nreg = ncent if rng.random() < 0.9 else ncent + rng.randint(1, 2)
    regions = []
    for _ in range(nreg):
        L = rng.choice([0, 1, 2, 2, 3, 3, 4, 5])
        r = [rng.randrange(len(verts)) for _ in range(L)]
        if r and rng.random() < 0.3:
            r.append(r[0])                      # repeated entry
        if rng.random() < 0.012:
            r.append(len(verts) + rng.randint(0, 2))   # KeyError
        regions.append(r)
    return {"kind": "synthetic", "centers": centers, "vertices": verts, "regions": regions}


# ------------------------------------------------------------------------------------------------
# targeted generator: pre-scan for the grids where completeness of the neighbour search is hardest
# ------------------------------------------------------------------------------------------------
def rank_scan(alg, nmax):
    """Cheap pre-scan, independent of molgri's Voronoi code.  The points come from the implementation (one grid with
    nmax points; the grids of one algorithm are nested, which is re-checked for every selected N), the triangulation
    does not: scipy ConvexHull of the first N points = Delaunay triangulation on the sphere.  For every Delaunay edge
    (i, j): the neighbour rank of j in i's list of centres sorted by distance (1 = nearest) in both directions, and
    edge length / median edge length.  Per N the edge with the largest min-rank, the largest max-rank, the largest ratio."""
    from scipy.spatial import ConvexHull
    from molgri.space.rotobj import SphereGrid3DFactory
    with core.quiet():
        P = np.array(SphereGrid3DFactory.create(alg, nmax).get_grid_as_array(), dtype=float)
    G = P @ P.T
    rows = []
    for N in range(5, nmax + 1):
        try:
            simp = ConvexHull(P[:N]).simplices
        except Exception:       # flat point sets (e.g. four corners of one cube face)
            continue
        e = np.unique(np.sort(np.vstack([simp[:, [0, 1]], simp[:, [1, 2]], simp[:, [0, 2]]]), axis=1), axis=0)
        d = G[e[:, 0], e[:, 1]]
        rij = (G[e[:, 0], :N] > d[:, None]).sum(axis=1)          # includes i itself, hence 1-based rank of j
        rji = (G[e[:, 1], :N] > d[:, None]).sum(axis=1)
        rmin, rmax = np.minimum(rij, rji), np.maximum(rij, rji)
        L = np.arccos(np.clip(d, -1, 1))
        ratio = L / np.median(L)
        a, b, c = int(rmin.argmax()), int(rmax.argmax()), int(ratio.argmax())
        rows.append({"alg": alg, "N": N, "rank_both": int(rmin[a]), "pair": [int(e[a, 0]), int(e[a, 1])],
                     "rank_one": int(rmax[b]), "pair_one": [int(e[b, 0]), int(e[b, 1])],
                     "elongation": round(float(ratio[c]), 3), "pair_elong": [int(e[c, 0]), int(e[c, 1])]})
    return P, rows


def _windows(rows, key, pairkey):
    """group the scan by the extremal pair: one window per (algorithm, pair) with the Ns where its value is maximal"""
    w = {}
    for r in rows:
        k = (r["alg"], tuple(r[pairkey]))
        cur = w.get(k)
        if cur is None or r[key] > cur["value"]:
            w[k] = {"alg": r["alg"], "pair": list(r[pairkey]), "value": r[key], "Ns": [r["N"]], "criterion": key}
        elif r[key] == cur["value"]:
            cur["Ns"].append(r["N"])
    return sorted(w.values(), key=lambda x: (-x["value"], x["alg"], x["Ns"][0]))


def targeted(ctx):
    """grids selected by the pre-scan: largest neighbour rank of a true (Delaunay) neighbour, most elongated cells"""
    rng = ctx.rng
    bounds = {"randomS": 500, "ico": 300 if ctx.quick else 500, "cube3D": 300 if ctx.quick else 500}
    rows, prefix = [], {}
    for alg in ALGS:
        P, r = rank_scan(alg, bounds[alg])
        prefix[alg] = P
        rows.extend(r)
    byN = {(r["alg"], r["N"]): r for r in rows}
    n_rank, n_one, n_el, n_rand = (5, 1, 1, 2) if ctx.quick else (40, 8, 8, 30)
    chosen, seen_pairs = [], set()
    for key, pairkey, n in (("rank_both", "pair", n_rank), ("rank_one", "pair_one", n_one), ("elongation", "pair_elong", n_el)):
        k = 0
        for w in _windows(rows, key, pairkey):
            N = rng.choice(w["Ns"])
            if (w["alg"], tuple(w["pair"])) in seen_pairs or (w["alg"], N) in [(c[0], c[1]) for c in chosen]:
                continue
            seen_pairs.add((w["alg"], tuple(w["pair"])))
            chosen.append((w["alg"], N, key))
            k += 1
            if k >= n:
                break
    for _ in range(n_rand):
        chosen.append(("randomS", rng.randint(100, 500), "seed-chosen"))
    sel = []
    for alg, N, why in chosen:
        r = byN.get((alg, N), {})
        sel.append({"alg": alg, "N": N, "why": why, "rank_both_directions": r.get("rank_both"), "pair": r.get("pair"),
                    "rank_one_direction": r.get("rank_one"), "elongation": r.get("elongation")})
    top = {alg: max((r["rank_both"] for r in rows if r["alg"] == alg), default=None) for alg in ALGS}
    ctx.extra_cov["neighbour_rank_scan"] = {
        "what": "Delaunay edges (scipy ConvexHull of the implementation's points) of every grid N = 5..bound: rank of the "
                "partner among the centres sorted by distance, the smaller / larger of the two directions, and edge length "
                "over median edge length; the grids with the extreme values get the full per-pair check",
        "bounds": bounds, "max_rank_both_directions_per_algorithm": top, "selected": sel}
    for alg, N, why in chosen:
        yield {"kind": "grid", "alg": alg, "N": N, "_prefix_of": bounds[alg]}, prefix[alg][:N]


def cases(ctx):
    rng = ctx.rng
    if ctx.quick:
        Ns = list(range(4, 31))
        big = sorted(rng.sample(range(31, 121), 5)) + [rng.choice([162, 200])]
        rotNs = {"ico": [6, 7, 8, 12, 20, 26, 30], "cube3D": [6, 7, 8, 12, 13, 20, 26], "randomS": [4, 5, 9, 17]}
        nsyn = 400
    else:
        Ns = list(range(4, 163)) + [200, 300, 500, 642]
        big = []
        rotNs = {a: list(range(4, 81)) + [100, 162] for a in ALGS}
        nsyn = 3000
    for alg in ALGS:
        for N in Ns + big:
            yield {"kind": "grid", "alg": alg, "N": N}
    # randomS in 200..300: the explored grids with the shortest Voronoi edges (1.66e-5 for 205 <= N <= 271), i.e. the
    # ones closest to the isclose re-indexing tolerance
    dense = sorted(set([240] + rng.sample(range(200, 301), 3))) if ctx.quick else list(range(163, 301))
    for N in dense:
        if N not in Ns + big:
            yield {"kind": "grid", "alg": "randomS", "N": N}
    done = {("randomS", N) for N in dense} | {(alg, N) for alg in ALGS for N in Ns + big}
    nested_ok = 0
    for case, pref in targeted(ctx):
        key = (case["alg"], case["N"])
        # the scan took the first N points of a larger grid: confirm that this is the grid the factory gives for N
        from molgri.space.rotobj import SphereGrid3DFactory
        with core.quiet():
            Pn = np.array(SphereGrid3DFactory.create(case["alg"], case["N"]).get_grid_as_array(), dtype=float)
        if Pn.shape == pref.shape and np.array_equal(Pn, pref):
            nested_ok += 1
        else:
            ctx.branch("rank_scan_grid_is_not_a_prefix_of_the_larger_grid")
        if key not in done:
            done.add(key)
            yield {"kind": "grid", "alg": case["alg"], "N": case["N"]}
    ctx.branch("rank_scan_selected_grids_confirmed_nested", nested_ok)
    for alg in ALGS:
        extra = sorted(rng.sample(range(4, 80), 6)) if ctx.quick else []
        for N in sorted(set(rotNs[alg] + extra)):
            yield _rot_case(rng, alg, N)
    for _ in range(nsyn):
        yield _synthetic(rng)


# ------------------------------------------------------------------------------------------------
# implementation
# ------------------------------------------------------------------------------------------------
def _rotmat(q):
    w, x, y, z = q
    return np.array([[1 - 2 * (y * y + z * z), 2 * (x * y - z * w), 2 * (x * z + y * w)],
                     [2 * (x * y + z * w), 1 - 2 * (x * x + z * z), 2 * (y * z - x * w)],
                     [2 * (x * z - y * w), 2 * (y * z + x * w), 1 - 2 * (x * x + y * y)]])


def _coo(m):
    m = m.tocoo() if not hasattr(m, "row") else m
    return {"row": [int(v) for v in m.row], "col": [int(v) for v in m.col], "data": [float(v) for v in m.data],
            "shape": [int(v) for v in m.shape]}


def _names_private_member(e):
    """an AttributeError / TypeError whose message names a private attribute or helper (`'_something'`)"""
    import re
    return isinstance(e, (AttributeError, TypeError)) and re.search(r"['\"]_[A-Za-z]\w*['\"]", str(e)) is not None


def _template_voronoi():
    """a really constructed RotobjVoronoi on a small valid input (regular tetrahedron): everything the class's own
    __init__ sets up exists; the synthetic cases then overwrite the PUBLIC attributes they want to control"""
    from molgri.space.voronoi import RotobjVoronoi
    P = np.array([[1.0, 1, 1], [1, -1, -1], [-1, 1, -1], [-1, -1, 1]]) / math.sqrt(3.0)
    with core.quiet():
        return RotobjVoronoi(P, using_detailed_grid=False)


class _StubIncompatible(Exception):
    pass


def _stub_call(name, sv):
    """call method `name` of the synthetic object `sv`.  A failure that names a private member is re-tried on a really
    constructed object: if the call works there, the failure is in the stub plumbing (_StubIncompatible), not in the
    package; otherwise it is the package's own exception and is reported as such."""
    try:
        with core.quiet():
            return getattr(sv, name)()
    except Exception as e:
        if _names_private_member(e):
            try:
                with core.quiet():
                    getattr(_template_voronoi(), name)()
            except Exception:
                raise e
            raise _StubIncompatible(f"{name}: {type(e).__name__}: {e}")
        raise


def _getter(fn, stub=None):
    """`fn`: bound getter of a really constructed object; with `stub` = (name, synthetic object) the call goes through
    `_stub_call`"""
    try:
        if stub is not None:
            return {"ok": _coo(_stub_call(*stub))}
        with core.quiet():
            return {"ok": _coo(fn())}
    except _StubIncompatible as e:
        return {"stub_incompatible": str(e)}
    except Exception as e:  # the library's exception is part of the observable
        return {"err": core.errname(e)}


# argument representations: the same mathematical input in every form the public API accepts on the unchanged tree and
# for which the result is bit-identical to the plain-Python call there (established once, see REPS_LEFT_OUT for the rest).
# A case stores the NAMES of the representations (case["rep"]); model and oracle always take the denoted values.
class _StrSub(str):
    pass


N_REPS = {"int": int, "np.int64": np.int64, "np.int32": np.int32, "np.uint16": np.uint16, "0d_array": lambda n: np.array(n)}
STR_REPS = {"str": str, "built": lambda t: "".join(list(t)), "np.str_": np.str_, "subclass": _StrSub}
DIM_REPS = {"int": int, "np.int64": np.int64, "np.int32": np.int32}
FLAG_REPS = {"absent": None, "bool": bool, "np.bool_": np.bool_, "0-1": int}
ROUTES = ("factory3", "factory3_kw", "factory_dims", "factory_dims_kw", "class", "class_kw")
ARR_REPS = ("c", "fortran", "strided", "readonly")
PLAIN = {"N": "int", "alg": "str", "route": "factory3", "dims": "int", "flag": "absent", "arr": "c"}
REPS_LEFT_OUT = [
    {"argument": "N", "representation": "float (integer valued)", "reason": "rejected on the unchanged tree: TypeError"},
    {"argument": "algorithm name", "representation": "bytes", "reason": "rejected on the unchanged tree: ValueError (unknown algorithm)"},
    {"argument": "RotobjVoronoi(my_array)", "representation": "list of lists / tuple of tuples",
     "reason": "rejected on the unchanged tree: AttributeError ('list' object has no attribute 'shape')"},
    {"argument": "RotobjVoronoi(my_array)", "representation": "float32 array (exactly representable values)",
     "reason": "accepted, same pattern, but the radius is then a float32 norm: borders / areas differ by up to 9e-8 from the "
               "float64 call on the same values - not the same computation in another representation"},
    {"argument": "RotobjVoronoi(my_array)", "representation": "np.longdouble array",
     "reason": "accepted, same pattern, values agree to 1e-7 only (extended-precision norm), as for float32"},
]


def _draw_rep(rr, kind):
    rep = {"N": rr.choice(list(N_REPS)), "alg": rr.choice(list(STR_REPS)), "route": rr.choice(ROUTES),
           "dims": rr.choice(list(DIM_REPS)), "flag": rr.choice(list(FLAG_REPS))}
    if kind == "rot":
        rep["arr"] = rr.choice(ARR_REPS)
    return rep


def _rep_tag(case):
    rep = case.get("rep") or {}
    d = [f"{k}={v}" for k, v in sorted(rep.items()) if PLAIN.get(k) != v]
    return "[" + ",".join(d) + "]" if d else ""


def _build_grid(alg, N, rep):
    """a fresh 3-D grid object through the public route and argument representations named in `rep`"""
    from molgri.space import rotobj
    rep = {**PLAIN, **(rep or {})}
    n, a, d = N_REPS[rep["N"]](N), STR_REPS[rep["alg"]](alg), DIM_REPS[rep["dims"]](3)
    route = rep["route"]
    if route == "factory3":
        return rotobj.SphereGrid3DFactory.create(a, n)
    if route == "factory3_kw":
        return rotobj.SphereGrid3DFactory.create(alg_name=a, N=n)
    if route == "factory_dims":
        return rotobj.SphereGridFactory.create(a, n, d)
    if route == "factory_dims_kw":
        return rotobj.SphereGridFactory.create(alg_name=a, N=n, dimensions=d)
    cls = {"ico": rotobj.IcoRotations, "cube3D": rotobj.Cube3DRotations, "randomS": rotobj.RandomSRotations}[alg]
    g = cls(n) if route == "class" else cls(N=n)
    g.gen_grid()
    return g


def _flag_kw(rep, name):
    f = {**PLAIN, **(rep or {})}["flag"]
    return {} if f == "absent" else {name: FLAG_REPS[f](False)}


def _arr_rep(P, rep):
    a = {**PLAIN, **(rep or {})}["arr"]
    if a == "fortran":
        return np.asfortranarray(P)
    if a == "strided":
        wide = np.zeros((len(P), 6))
        wide[:, ::2] = P
        return wide[:, ::2]
    if a == "readonly":
        Q = P.copy()
        Q.setflags(write=False)
        return Q
    return P


def _points(case):
    """grid points of a grid / rot case (through the public route / representations the case names)"""
    with core.quiet():
        g = _build_grid(case["alg"], case["N"], case.get("rep"))
        P = np.array(g.get_grid_as_array(**_flag_kw(case.get("rep"), "only_upper")), dtype=float)
    if case["kind"] == "grid":
        return g, P
    P2 = P @ _rotmat(case["q"]).T
    P2 = P2 / np.linalg.norm(P2, axis=1, keepdims=True)
    return g, P2


def impl(case):
    from molgri.space.voronoi import RotobjVoronoi
    out = {}
    stub = None
    if case["kind"] == "synthetic":
        # constructed by the class's own __init__ (small valid grid), then the public attributes are overwritten
        sv = _template_voronoi()
        sv.centers = np.array(case["centers"], dtype=float)
        sv.vertices = np.array(case["vertices"], dtype=float)
        sv.regions = [list(r) for r in case["regions"]]
        sv.additional_points = None
        try:
            red = _stub_call("get_reduced_vertices_regions", sv)
            sv.reduced_vertices, sv.reduced_regions = red[0], red[1]
        except _StubIncompatible as e:
            return {"stub_incompatible": str(e)}
        except Exception as e:
            return {"centers": sv.centers, "vertices": sv.vertices, "regions": sv.regions,
                    "reduce": {"err": core.errname(e)}}
        obj = sv
        stub = sv
        getters = (None, None, None)
    else:
        try:
            g, P = _points(case)
            if case["kind"] == "grid":
                obj = g.get_spherical_voronoi()
                getters = (g.get_voronoi_adjacency, g.get_cell_borders, g.get_center_distances)
            else:
                with core.quiet():
                    obj = RotobjVoronoi(_arr_rep(P, case.get("rep")))
                getters = (obj.get_voronoi_adjacency, obj.get_cell_borders, obj.get_center_distances)
        except Exception as e:
            return {"build_err": core.errname(e)}
        out["P"] = P
    try:
        out["centers"] = np.array(obj.get_all_voronoi_centers(), dtype=float)
        out["vertices"] = np.array(obj.get_all_voronoi_vertices(reduced=False), dtype=float)
        out["regions"] = [[int(x) for x in r] for r in obj.get_all_voronoi_regions(reduced=False)]
        out["reduce"] = {"ok": {"nv": np.array(obj.get_all_voronoi_vertices(reduced=True), dtype=float),
                                "nr": [[int(x) for x in r] for r in obj.get_all_voronoi_regions(reduced=True)]}}
    except Exception as e:
        # the object behind the grid does not expose a SphericalVoronoi diagram (e.g. a MikroVoronoi stand-in): nothing to
        # feed the model with; the getters and the oracle still run
        for k in ("centers", "vertices", "regions", "reduce"):
            out.pop(k, None)
        out["no_diagram"] = f"{type(obj).__name__}: {core.errname(e)}"
    names = ("get_voronoi_adjacency", "get_cell_borders", "get_center_distances")
    out["adj"] = _getter(getters[0], stub and (names[0], stub))
    out["border"] = _getter(getters[1], stub and (names[1], stub))
    out["dist"] = _getter(getters[2], stub and (names[2], stub))
    out["adj2"] = _getter(getters[0], stub and (names[0], stub))          # asked again after the other two
    inc = [out[k]["stub_incompatible"] for k in ("adj", "border", "dist", "adj2") if "stub_incompatible" in out[k]]
    if inc:
        return {"stub_incompatible": inc[0]}
    if case["kind"] != "synthetic":
        try:
            with core.quiet():
                kw = _flag_kw(case.get("rep"), "approx")
                a = obj.get_voronoi_volumes(**kw) if case["kind"] == "rot" else g.get_voronoi_volumes(**kw)
            out["areas"] = {"ok": [float(v) for v in a]}
        except Exception as e:
            out["areas"] = {"err": core.errname(e)}
    return out


# ------------------------------------------------------------------------------------------------
# model
# ------------------------------------------------------------------------------------------------
def _ratrows(a):
    return [[core.rat(float(x)) for x in row] for row in np.asarray(a, dtype=float).reshape(-1, 3)]


def model_ops(case, out):
    if "build_err" in out or "stub_incompatible" in out or "no_diagram" in out:
        return []
    return [{"op": "grid", "eps": core.rat(EPS_CERT), "centers": _ratrows(out["centers"]),
             "vertices": _ratrows(out["vertices"]), "regions": out["regions"]}]


def _expected_angle(d, n1, n2):
    """arccos(clip(d / sqrt(n1 n2))) * sqrt(n1) from the model's exact data"""
    c = float(d) / math.sqrt(float(n1) * float(n2))
    c = max(-1.0, min(1.0, c))
    return math.acos(c) * math.sqrt(float(n1)), c, math.sqrt(float(n1))


def _angle_ok(value, d, n1, n2):
    e, c, r1 = _expected_angle(d, n1, n2)
    # the radius factor is the norm of whichever of the two vectors the code happens to take first (`list(set)` order)
    for r in (r1, math.sqrt(float(n2))):
        ee = e / r1 * r
        if abs(value - ee) <= 1e-9 * max(1.0, abs(ee)):
            return True
        if abs(math.cos(value / r) - c) <= 1e-14:      # arccos is ill-conditioned at 0 and pi: compare the cosine there
            return True
    return False


def _near_parallel(nv, nr):
    """two distinct reduced vertices that some region pair could share are parallel/antipodal within 1e-7 but not
    exactly (exactly parallel rows have rank 1 in both readings)"""
    used = sorted({x for r in nr for x in r})
    if len(used) < 2:
        return False
    A = np.asarray(nv, dtype=float).reshape(-1, 3)[used]
    cr = np.linalg.norm(np.cross(A[:, None, :], A[None, :, :]), axis=2)
    for a, b in np.argwhere(np.triu(cr < 1e-7, 1)):
        x = [Fraction(float(v)) for v in A[a]]
        y = [Fraction(float(v)) for v in A[b]]
        c = (x[1] * y[2] - x[2] * y[1], x[2] * y[0] - x[0] * y[2], x[0] * y[1] - x[1] * y[0])
        if any(v != 0 for v in c):
            return True
    return False


def _max_shared(nr):
    m = 0
    sets = [set(r) for r in nr]
    for i in range(len(sets)):
        for j in range(i + 1, len(sets)):
            m = max(m, len(sets[i] & sets[j]))
    return m


def compare(ctx, case, out, mouts):
    tag = {k: case[k] for k in ("kind", "alg", "N") if k in case}
    if "build_err" in out:
        ctx.branch("build_error:" + out["build_err"])
        return
    if "no_diagram" in out:
        ctx.corr("grid object exposes no Voronoi diagram (centres / vertices / regions) to feed the model with", case,
                 out["no_diagram"], "RotobjVoronoi with scipy SphericalVoronoi data")
        return
    if "stub_incompatible" in out:
        # the synthetic object could not be driven (a private member the stub does not have, while the same call on a
        # really constructed object works): harness plumbing, neither a correspondence break nor a failing input
        if not ctx.dist.get("stub_incompatible"):
            print(f"NOTE: [C03] synthetic object incompatible with the package's internals, case skipped: {out['stub_incompatible'][:200]}")
        ctx.branch("stub_incompatible")
        return
    m = mouts[0]
    if "err" in m:
        raise core.HarnessError(f"driver protocol error on {tag}: {m}")
    m = m["ok"]
    # --- reduction -----------------------------------------------------------------------------
    ir, mr = out["reduce"], m["reduce"]
    if "err" in ir or "err" in mr:
        if ir.get("err") != mr.get("err"):
            ctx.corr("reduce/outcome", case, ir.get("err", "ok"), mr.get("err", "ok"))
        ctx.branch("reduce_error:" + str(ir.get("err")))
        if case["kind"] == "synthetic":
            ctx.nt(("syn-err", repr(case["regions"])))
        return
    inv = _ratrows(ir["ok"]["nv"])
    if inv != mr["ok"]["nv"]:
        ctx.corr("reduce/new_vertices", case, {"n": len(inv), "rows": inv[:4]},
                 {"n": len(mr["ok"]["nv"]), "rows": mr["ok"]["nv"][:4]})
        return
    if ir["ok"]["nr"] != mr["ok"]["nr"]:
        bad = [k for k, (a, b) in enumerate(zip(ir["ok"]["nr"], mr["ok"]["nr"])) if a != b][:3]
        ctx.corr("reduce/new_regions", case, {k: ir["ok"]["nr"][k] for k in bad}, {k: mr["ok"]["nr"][k] for k in bad})
        return
    nvert, nred = len(out["vertices"]), len(inv)
    used = len({x for r in ir["ok"]["nr"] for x in r})
    if nred < nvert:
        ctx.branch("exact_duplicate_vertices")
    if case["kind"] != "synthetic":
        # hypothesis `hsep` of theorems reduce_exact / reduced_membership / shared_reduced_iff_common_points
        nvv = np.asarray(ir["ok"]["nv"], dtype=float)
        cl = np.all(np.isclose(nvv[:, None, :], nvv[None, :, :]), axis=2)
        np.fill_diagonal(cl, False)
        ctx.branch("hsep_violated_near_duplicate_vertices" if cl.any() else "hsep_validated_no_near_duplicate_vertices")
    if used < nred:
        ctx.branch("near_duplicate_vertices_merged_by_isclose")
    # --- the three matrices --------------------------------------------------------------------
    N = len(out["centers"])
    m3 = _max_shared(ir["ok"]["nr"])
    near_parallel = _near_parallel(ir["ok"]["nv"], ir["ok"]["nr"]) if case["kind"] == "synthetic" else False
    norm_spread = float(np.abs(np.linalg.norm(np.asarray(out["vertices"], dtype=float).reshape(-1, 3), axis=1) - 1).max(initial=0))
    for name in ("adj", "border", "dist", "adj2"):
        io, mo = out[name], m["adj" if name == "adj2" else name]
        if name == "border" and case["kind"] == "synthetic" and norm_spread > 2e-6:
            # dist_on_sphere asserts equal norms (allclose 1e-5); not modelled - synthetic norm-scaled copies only
            ctx.branch("border_not_compared_norm_spread")
            continue
        if name == "border" and case["kind"] == "synthetic" and near_parallel:
            # `matrix_rank(shared, tol=1e-9) == 2` is a floating-point threshold on the singular values; the model reads
            # it exactly (two independent rows).  The readings differ only for two distinct reduced vertices that are
            # parallel/antipodal within ~1e-9 (synthetic antipodes of near-duplicates); exactly antipodal is compared
            ctx.branch("border_not_compared_near_parallel_vertices")
            continue
        if name == "border" and m3 >= 3:
            # three or more shared vertices: numpy's rank decision is a floating-point threshold and the pair the code
            # picks depends on CPython's set order; the model's exact reading is not comparable here
            ctx.branch("border_not_compared_3_shared")
            continue
        if "err" in io or "err" in mo:
            if io.get("err") != mo.get("err"):
                ctx.corr(f"{name}/outcome", case, io.get("err", "ok"), mo.get("err", "ok"))
            ctx.branch(f"{name}_error:" + str(io.get("err")))
            continue
        io, mo = io["ok"], mo["ok"]
        if io["shape"] != [N, N]:
            ctx.corr(f"{name}/shape", case, io["shape"], [N, N])
            continue
        ipat = list(zip(io["row"], io["col"]))
        mpat = [(e[0], e[1]) for e in mo]
        if ipat != mpat:
            k = next((k for k, (a, b) in enumerate(zip(ipat, mpat)) if a != b), min(len(ipat), len(mpat)))
            ctx.corr(f"{name}/index_sequence", case, {"nnz": len(ipat), "first_diff_at": k, "there": ipat[k:k + 4]},
                     {"nnz": len(mpat), "there": mpat[k:k + 4]})
            continue
        if name in ("adj", "adj2"):
            if any(v != 1.0 for v in io["data"]):
                ctx.corr(f"{name}/values", case, sorted(set(io["data"]))[:5], [True])
            continue
        for k, (v, e) in enumerate(zip(io["data"], mo)):
            d, n1, n2 = core.unrat(e[2]), core.unrat(e[3]), core.unrat(e[4])
            if not _angle_ok(v, d, n1, n2):
                ctx.corr(f"{name}/value", case, {"i": e[0], "j": e[1], "value": v},
                         {"expected": _expected_angle(d, n1, n2)[0], "dot": e[2], "nsq1": e[3], "nsq2": e[4]})
                break
    # --- exact certificate of the external call (hypothesis of adjacent_shares_arc_partial) ------------------------------
    if case["kind"] != "synthetic":
        if not m["cert"]:
            ctx.corr("certificate/regions_certified (hypothesis of theorem adjacent_shares_arc_partial, eps=1e-9)", case,
                     {"first_uncertified_(region,vertex)": m["uncert"]}, True)
        else:
            ctx.branch("certificate_validated")
        ctx.branch(f"grid_N_{'4-12' if N <= 12 else '13-30' if N <= 30 else '31-100' if N <= 100 else '101-200' if N <= 200 else '>200'}")
        ctx.branch("kind_" + case["kind"] + "_" + case["alg"])
        for k, v in sorted((case.get("rep") or {}).items()):
            ctx.branch(f"rep_{k}_{v}")
        if "ok" in out["adj"]:
            nnz = len(out["adj"]["ok"]["row"])
            if 0 < nnz < N * (N - 1) or nred < nvert or used < nred:
                ctx.nt((case["kind"], case["alg"], case["N"], tuple(case.get("q", ())), _rep_tag(case)))
        if case["N"] in (8, 13) or (case["kind"] == "rot" and case["N"] == 12):
            ctx.sample(case)
    else:
        ctx.branch("kind_synthetic")
        ctx.branch(f"synthetic_max_shared_{min(m3, 3)}")
        ctx.nt(("syn", repr(case["vertices"][:2]), repr(case["regions"])))
        if len(case["vertices"]) <= 5:
            ctx.sample(case, limit=8)


# ------------------------------------------------------------------------------------------------
# independent oracle
# ------------------------------------------------------------------------------------------------
def _tri(a, b, c):
    """solid angle of the spherical triangles (rows of a, b, c) - Van Oosterom & Strackee"""
    num = np.abs(np.einsum("ij,ij->i", a, np.cross(b, c)))
    den = 1 + np.einsum("ij,ij->i", a, b) + np.einsum("ij,ij->i", b, c) + np.einsum("ij,ij->i", c, a)
    return 2 * np.arctan2(num, den)


def true_arcs(P):
    """For every ordered pair (i, j), i != j: signed length of the common boundary arc of the nearest-neighbour
    regions of p_i and p_j (negative or zero: none), and its two end points.  Uses only the points."""
    N = len(P)
    L = np.full((N, N), -np.inf)
    E1 = np.zeros((N, N, 3))
    E2 = np.zeros((N, N, 3))
    idx = np.arange(N)
    for i in range(N):
        n = P[i][None, :] - P                       # (N,3): normal of the bisector plane of (i, j)
        nn = np.linalg.norm(n, axis=1)
        nn[i] = 1.0
        n = n / nn[:, None]
        u = P[i][None, :] + P                       # in the bisector plane (equal norms); zero for antipodes
        un = np.linalg.norm(u, axis=1)
        bad = un < 1e-9
        if bad.any():
            for j in np.nonzero(bad)[0]:
                t = np.cross(n[j], [1.0, 0, 0])
                if np.linalg.norm(t) < 0.5:
                    t = np.cross(n[j], [0, 1.0, 0])
                u[j] = t
                un[j] = np.linalg.norm(t)
        u = u / un[:, None]
        w = np.cross(n, u)
        D = P[i][None, :] - P                       # (N,3): p_i - p_k ; constraint x.(p_i - p_k) >= 0
        a = u @ D.T                                 # (j, k)
        b = w @ D.T
        phi = np.arctan2(b, a)
        # k = i and k = j are no constraints: overwrite them with another valid column of the same row
        c0, c1 = [k for k in range(min(N, 3)) if k != i][:2]
        other = np.where(idx != c0, c0, c1)
        phi[idx, i] = phi[idx, other]
        phi[idx, idx] = phi[idx, other]
        ps = np.sort(phi, axis=1)
        gaps = np.diff(np.concatenate([ps, ps[:, :1] + TWO_PI], axis=1), axis=1)
        g = gaps.argmax(axis=1)
        Lrow = gaps[idx, g] - math.pi
        pg = ps[idx, g]
        pg1 = np.where(g + 1 < N, ps[idx, np.minimum(g + 1, N - 1)], ps[:, 0] + TWO_PI)
        t1 = pg - math.pi / 2
        t2 = pg1 + math.pi / 2
        e1 = np.cos(t1)[:, None] * u + np.sin(t1)[:, None] * w
        e2 = np.cos(t2)[:, None] * u + np.sin(t2)[:, None] * w
        Lrow[i] = -np.inf
        L[i] = Lrow
        E1[i] = e1
        E2[i] = e2
    return L, E1, E2


def _near(value, truth):
    if abs(value - truth) <= 1e-9 * max(1.0, abs(truth)):
        return True
    return abs(math.cos(value) - math.cos(truth)) <= 1e-14


def reindex_clause(case, out, tag):
    """Independent of the model: two scipy vertices that numpy's default `np.isclose` (rtol 1e-5, atol 1e-8, per
    coordinate) does not identify must keep different reduced indices, those it identifies must share one, and the
    reduced vertex an entry points to must be close to the original vertex.  Evaluated on the implementation's own
    vertices / regions / reduced vertices / reduced regions."""
    fails, st = [], {}
    red = out.get("reduce", {})
    if "ok" not in red:
        return fails, st
    V = np.asarray(out["vertices"], dtype=float).reshape(-1, 3)
    NV = np.asarray(red["ok"]["nv"], dtype=float).reshape(-1, 3)
    regions, nr = out["regions"], red["ok"]["nr"]
    if len(regions) != len(nr) or any(len(a) != len(b) for a, b in zip(regions, nr)):
        fails.append((f"C03:{tag}:reindex:shape", "reduced regions do not have the shape of the regions", None, None))
        return fails, st
    new = {}
    for r, r2 in zip(regions, nr):
        for el, k in zip(r, r2):
            if new.setdefault(el, k) != k:
                fails.append((f"C03:{tag}:reindex:inconsistent", f"vertex {el} is re-indexed to {new[el]} and to {k}", None, None))
                return fails, st
    used = sorted(new)
    if not used:
        return fails, st
    if max(used) >= len(V) or max(new.values()) >= len(NV) or min(new.values()) < 0:
        fails.append((f"C03:{tag}:reindex:range", "re-indexed entry out of range", None, None))
        return fails, st
    U = V[used]
    c = np.all(np.isclose(U[:, None, :], U[None, :, :]), axis=2)        # c[a, b] = isclose(k = U[a], row = U[b])
    both, either = c & c.T, c | c.T
    st["reindex_vertex_pairs"] = len(used) * (len(used) - 1) // 2
    st["reindex_close_pairs"] = int((both.sum() - len(used)) // 2)
    # is `isclose` an equivalence on this vertex set?  (symmetric, and close-to-close implies close)
    reach = both.astype(int)
    if (either != both).any() or ((reach @ reach > 0) != both).any():
        st["reindex_clause_excluded_not_an_equivalence"] = 1
        return fails, st
    idx = np.array([new[el] for el in used])
    same = idx[:, None] == idx[None, :]
    bad = np.argwhere(same != both)
    if len(bad):
        a, b = (int(x) for x in bad[0])
        ea, eb = used[a], used[b]
        what = (f"scipy vertices {ea} and {eb} differ by {np.abs(V[ea] - V[eb]).max():.3e} (not identified by np.isclose) but "
                f"share reduced index {int(idx[a])}" if same[a, b] else
                f"scipy vertices {ea} and {eb} are identified by np.isclose but get reduced indices {int(idx[a])} and {int(idx[b])}")
        fails.append((f"C03:{tag}:reindex:{ea},{eb}", what, bool(both[a, b]), bool(same[a, b])))
        return fails, st
    rep = NV[idx]
    notclose = ~np.all(np.isclose(U, rep), axis=1)
    if notclose.any():
        a = int(np.argmax(notclose))
        fails.append((f"C03:{tag}:reindex:representative:{used[a]}", f"vertex {used[a]} is re-indexed to reduced vertex "
                      f"{int(idx[a])}, which is not close to it", V[used[a]].tolist(), rep[a].tolist()))
    return fails, st


def oracle_eval(case, out):
    """-> (list of failures (key, what, expected, observed), stats dict).  Pure; runs in worker processes."""
    fails, st = [], {}
    if "stub_incompatible" in out:
        return fails, st
    if case["kind"] == "synthetic":
        return reindex_clause(case, out, "synthetic")
    tag = f"{case['kind']}:{case['alg']}_{case['N']}{_rep_tag(case)}"
    if "build_err" in out:
        fails.append((f"C03:{tag}:exception", f"building the grid / its Voronoi object raised {out['build_err']}", None, None))
        return fails, st
    f0, s0 = reindex_clause(case, out, tag)
    fails.extend(f0)
    st.update(s0)
    P = out["P"]
    N = len(P)
    mats = {}
    for name in ("adj", "border", "dist", "adj2"):
        if "err" in out[name]:
            fails.append((f"C03:{tag}:exception:{name}", f"{name} getter raised {out[name]['err']}", None, None))
            return fails, st
        o = out[name]["ok"]
        if o["shape"] != [N, N]:
            fails.append((f"C03:{tag}:shape:{name}", "matrix is not N x N", [N, N], o["shape"]))
            return fails, st
        M = np.zeros((N, N))
        cnt = np.zeros((N, N), dtype=int)
        np.add.at(M, (o["row"], o["col"]), o["data"])
        np.add.at(cnt, (o["row"], o["col"]), 1)
        if cnt.max(initial=0) > 1:
            i, j = np.argwhere(cnt > 1)[0]
            fails.append((f"C03:{tag}:duplicate_entry:{name}", f"entry ({i},{j}) stored more than once", 1, int(cnt[i, j])))
        mats[name] = (M, cnt > 0)
    A = mats["adj"][1] & (mats["adj"][0] != 0)
    # one common pattern, same storage order, symmetric, empty diagonal
    pat = {name: list(zip(out[name]["ok"]["row"], out[name]["ok"]["col"])) for name in mats}
    for name in ("border", "dist", "adj2"):
        if pat[name] != pat["adj"]:
            s1, s2 = set(pat["adj"]), set(pat[name])
            diff = sorted(s1 ^ s2)[:4]
            fails.append((f"C03:{tag}:pattern:{name}", f"{name} and adjacency do not share one pattern/order"
                          + (f"; pairs in exactly one of them: {diff}" if diff else " (same set, different order)"), None, None))
    for name, (M, S) in mats.items():
        if (S != S.T).any() or not np.array_equal(M, M.T):
            i, j = np.argwhere((S != S.T) | (M != M.T))[0]
            fails.append((f"C03:{tag}:asymmetric:{name}", f"{name}[{i},{j}] != {name}[{j},{i}]", float(M[j, i]), float(M[i, j])))
        if S.diagonal().any():
            fails.append((f"C03:{tag}:diagonal:{name}", f"{name} has a diagonal entry", None, None))
        if name in ("border", "dist") and (M[S] <= 0).any():
            i, j = np.argwhere(S & (M <= 0))[0]
            fails.append((f"C03:{tag}:nonpositive:{name}", f"{name}[{i},{j}] is stored but not positive", "> 0", float(M[i, j])))
    # per pair
    L, E1, E2 = true_arcs(P)
    B, Dm = mats["border"][0], mats["dist"][0]
    cr = np.linalg.norm(np.cross(P[:, None, :], P[None, :, :]), axis=2)
    theta = np.arctan2(cr, P @ P.T)              # robust angle between the points
    amb = 0
    nbad = 0
    iu, ju = np.triu_indices(N, 1)
    true_adj = L > ADJ_MIN
    for i, j in zip(iu, ju):
        l = 0.5 * (L[i, j] + L[j, i])
        if abs(L[i, j] - L[j, i]) > 1e-9:
            raise core.HarnessError(f"oracle inconsistent for {tag} pair ({i},{j}): {L[i, j]} vs {L[j, i]}")
        if ZERO_MAX <= l <= ADJ_MIN:
            amb += 1
            continue
        adj = l > ADJ_MIN
        if adj != bool(A[i, j]):
            nbad += 1
            if nbad <= 3:
                fails.append((f"C03:{tag}:adjacency:{i},{j}",
                              f"cells {i} and {j} " + (f"share an arc of length {l:.3e} but are not reported adjacent" if adj else
                                                      f"share no arc (largest feasible arc {l:.3e}) but are reported adjacent"),
                              adj, bool(A[i, j])))
            continue
        if adj:
            if not _near(B[i, j], l):
                nbad += 1
                if nbad <= 3:
                    fails.append((f"C03:{tag}:border:{i},{j}", "border entry is not the length of the shared arc", l, float(B[i, j])))
            if not _near(Dm[i, j], theta[i, j]):
                nbad += 1
                if nbad <= 3:
                    fails.append((f"C03:{tag}:distance:{i},{j}", "centre-distance entry is not the great-circle angle", float(theta[i, j]), float(Dm[i, j])))
    st["pairs"] = len(iu)
    st["adjacent_pairs"] = int(true_adj[iu, ju].sum())
    st["zero_length_contacts"] = int(((np.abs(L[iu, ju]) < ZERO_MAX)).sum())
    st["ambiguous_excluded"] = amb
    Lu = np.where(L[iu, ju] > ZERO_MAX, L[iu, ju], np.inf)
    if np.isfinite(Lu).any():
        k = int(np.argmin(Lu))
        st["min_positive_arc"] = float(Lu[k])
        st["min_positive_arc_pair"] = [int(iu[k]), int(ju[k])]
    else:
        st["min_positive_arc"] = None
    # areas
    if "err" in out["areas"]:
        fails.append((f"C03:{tag}:exception:areas", f"get_voronoi_volumes raised {out['areas']['err']}", None, None))
        return fails, st
    V = np.array(out["areas"]["ok"], dtype=float)
    if V.shape != (N,):
        fails.append((f"C03:{tag}:areas:shape", "number of areas differs from N", N, list(V.shape)))
        return fails, st
    if not (V > 0).all():
        fails.append((f"C03:{tag}:areas:positive", f"area of cell {int(np.argmin(V))} is not positive", "> 0", float(V.min())))
    if abs(V.sum() - 4 * math.pi) > 1e-9:
        fails.append((f"C03:{tag}:areas:sum", "areas do not sum to 4 pi", 4 * math.pi, float(V.sum())))
    if amb == 0:
        area = np.zeros(N)
        ii, jj = np.nonzero(true_adj)
        t = _tri(P[ii], E1[ii, jj], E2[ii, jj])
        np.add.at(area, ii, t)
        if abs(area.sum() - 4 * math.pi) > 1e-7:
            raise core.HarnessError(f"oracle areas of {tag} sum to {area.sum()}")
        k = int(np.argmax(np.abs(area - V)))
        if abs(area[k] - V[k]) > 1e-8:
            fails.append((f"C03:{tag}:areas:cell:{k}", f"area of cell {k} is not the area of its nearest-neighbour region",
                          float(area[k]), float(V[k])))
    return fails, st


def oracle(ctx, case, out, res=None):
    fails, st = res if res is not None else oracle_eval(case, out)
    for key, what, exp, obs in fails:
        ctx.fail(key, what, case, exp, obs)
    for k in ("pairs", "adjacent_pairs", "zero_length_contacts", "ambiguous_excluded", "reindex_vertex_pairs",
              "reindex_close_pairs", "reindex_clause_excluded_not_an_equivalence"):
        if st.get(k):
            ctx.branch("oracle_" + k, st[k])
    if st.get("min_positive_arc") is not None:
        # the shortest Voronoi edges of the explored grids: how close they come to the isclose tolerance (~1e-5)
        # (one line per distinct arc: the same short edge persists over a range of N of one algorithm)
        lst = ctx.extra_cov.setdefault("smallest_positive_arcs_[length,first_grid,pair,n_grids]", [])
        tag = f"{case['kind']}:{case['alg']}_{case['N']}"
        for t in lst:
            if abs(t[0] - st["min_positive_arc"]) <= 1e-12 and t[1].split("_")[0] == tag.split("_")[0]:
                t[3] += 1
                if case["N"] < int(t[1].rsplit("_", 1)[1]):
                    t[1] = tag
                break
        else:
            lst.append([st["min_positive_arc"], tag, st.get("min_positive_arc_pair"), 1])
        lst.sort(key=lambda t: (t[0], t[1]))
        del lst[8:]


# ------------------------------------------------------------------------------------------------
# driver loop (custom: worker processes in the thorough tier)
# ------------------------------------------------------------------------------------------------
def _strip(out):
    """what the main process needs for model_ops / compare (no big float arrays for the oracle)"""
    return {k: v for k, v in out.items() if k != "P"}


def _weight(case):
    return case["N"] ** 2 if "N" in case else 40


def _work_batch(batch):
    """impl + oracle + model for a batch of cases (runs in a worker process in the thorough tier)"""
    try:
        rows, ops, spans = [], [], []
        for case in batch:
            out = impl(case)
            res = oracle_eval(case, out)
            o = model_ops(case, out)
            spans.append((len(ops), len(ops) + len(o)))
            ops.extend(o)
            rows.append((case, _strip(out), res))
        drv = core.LeanDriver("C03")
        outs = drv.run(ops)
        return [(c, o, r, outs[a:b]) for (c, o, r), (a, b) in zip(rows, spans)], drv.calls, drv.lines
    except core.HarnessError as e:
        return ("harness", str(e)), 0, 0


def _batches(case_list, max_weight=45000, max_len=120):
    order = sorted(range(len(case_list)), key=lambda k: -_weight(case_list[k]))     # big grids first
    cur, load = [], 0
    for k in order:
        w = _weight(case_list[k])
        if cur and (load + w > max_weight or len(cur) >= max_len):
            yield cur
            cur, load = [], 0
        cur.append(case_list[k])
        load += w
    if cur:
        yield cur


def _process(ctx, case_list, workers):
    def feed(results):
        for rows, calls, lines in results:
            if isinstance(rows, tuple) and rows[0] == "harness":
                raise core.HarnessError(rows[1])
            ctx.driver.calls += calls
            ctx.driver.lines += lines
            for case, out, res, mouts in rows:
                ctx.count()
                compare(ctx, case, out, mouts)
                oracle(ctx, case, out, res)

    batches = list(_batches(case_list))
    if workers > 1 and len(batches) > 1:
        with mp.get_context("fork").Pool(workers) as pool:
            feed(pool.imap_unordered(_work_batch, batches, chunksize=1))
    else:
        feed(map(_work_batch, batches))


def representation_sweep():
    """exhaustive sweep of all representation families over three small fixed grids: each family one value at a time
    (the others plain), plus everything non-plain at once; ordinary cases, judged by the per-pair oracle and the model"""
    out = []
    for alg, N, q in (("ico", 8, [0.5, 0.5, -0.5, 0.5]), ("cube3D", 13, [0.8, 0.0, 0.6, 0.0]), ("randomS", 20, [0.6, 0.0, 0.0, 0.8])):
        variants = [{"N": v} for v in N_REPS if v != "int"] + [{"alg": v} for v in STR_REPS if v != "str"]
        variants += [{"route": v} for v in ROUTES if v != "factory3"]
        variants += [{"route": "factory_dims", "dims": v} for v in DIM_REPS if v != "int"]
        variants += [{"flag": v} for v in FLAG_REPS if v != "absent"]
        variants += [{"N": "0d_array", "alg": "np.str_", "route": "factory_dims_kw", "dims": "np.int64", "flag": "np.bool_"},
                     {"N": "np.uint16", "alg": "subclass", "route": "class_kw", "flag": "0-1"}]
        for v in variants:
            out.append({"kind": "grid", "alg": alg, "N": N, "rep": {**PLAIN, **v}})
        for a in ARR_REPS:
            if a != "c":
                out.append({"kind": "rot", "alg": alg, "N": N, "q": q, "rep": {**PLAIN, "arr": a, "N": "np.int64"}})
    return out


def run(ctx):
    corpus = [c for f in ctx.open_findings + ctx.fixed_findings for c in f.get("cases", [])]
    case_list = corpus + list(cases(ctx))
    import random
    rr = random.Random(f"C03-rep-{ctx.seed}")          # representation of every argument, drawn per case
    for c in case_list:
        if c["kind"] in ("grid", "rot") and "rep" not in c:
            c["rep"] = _draw_rep(rr, c["kind"])
    case_list += representation_sweep()
    ctx.extra_cov["representations"] = {
        "N": list(N_REPS), "algorithm name": list(STR_REPS), "dimensions": list(DIM_REPS), "routes": list(ROUTES),
        "flags (only_upper of get_grid_as_array, approx of get_voronoi_volumes; value False)": list(FLAG_REPS),
        "RotobjVoronoi(my_array) (rot cases)": list(ARR_REPS), "left_out": REPS_LEFT_OUT,
        "how": "drawn per grid / rot case from a generator seeded by VERIF_SEED; additionally every family varied one at a "
               "time (and all together) over ico_8, cube3D_13, randomS_20, judged by the same per-pair oracle and model"}
    ctx.note("scipy.spatial.SphericalVoronoi (qhull) output is an input of the model; its vertices are validated per run "
             "by the exact certificate (eps 1e-9) - completeness of the diagram and calculate_areas only by the oracle")
    ctx.note(f"oracle decision band: arc > {ADJ_MIN} must be adjacent, arc < {ZERO_MAX} must not; pairs in between are "
             "excluded and counted (oracle_ambiguous_excluded)")
    ctx.note("border comparison model/implementation is skipped when two regions share >= 3 reduced vertices "
             "(numpy rank threshold / CPython set order); counted as border_not_compared_3_shared; never occurs on grids")
    _process(ctx, case_list, workers=WORKERS_QUICK if ctx.quick else min(14, os.cpu_count() or 2))
    ctx.extra_cov["tolerances"] = {"angles": "1e-9 relative, or 1e-14 in the cosine where arccos is ill-conditioned",
                                   "areas": "1e-8 per cell, 1e-9 on the sum", "certificate_eps": "1e-9"}


def replay(ctx, case_list):
    _process(ctx, case_list, workers=1)
