"""C04 - rotation-grid neighbour relations on SO(3) = S^3 modulo sign
(molgri.space.voronoi.HalfRotobjVoronoi._calculate_N_N_array, RotobjVoronoi._calculate_borders,
 molgri.space.utils.distance_between_quaternions).

Three kinds of cases
  grid    the library grids (cube4D, randomQ) through SphereGrid4DFactory; observed at the three public getters with the
          default flags (only_upper, include_opposing_neighbours)
  custom  other rotation grids G ++ -G (random upper-hemisphere quaternion sets: uniform, equatorial band = many pairs that
          touch only through the antipodal copy, cap, permuted library grids = another point at index 0), through
          HalfRotobjVoronoi directly
  grid + history   object histories: on ONE grid object a seed-chosen sequence of the public read-only getters of the
          SphereGrid4Dim and of its HalfRotobjVoronoi (volumes exact/approx, the three matrices with and without flags,
          grid arrays, upper indices, centres / vertices / regions raw and reduced, reduced_vertices_regions, convex hulls)
          is executed first - quick: sequences that contain every ordered pair (first getter, second getter), repeated
          calls, in-place scribbling over returned arrays where the code returns fresh copies - then the three matrices of
          THAT object go through the same model comparison and per-pair oracle as a fresh grid; every call's result must be
          bit-identical to the same call on a pristine object; a failing history is shrunk to a minimal call sequence
  poly    the area code alone: spherical polygons (tiny faces down to diameter 2e-6, the faces that made the pre-repair
          Girard sum negative, ordinary and near-degenerate ones) through sort_points_on_sphere_ccw +
          exact_area_of_spherical_polygon; oracle = fan of van Oosterom-Strackee triangle areas
  synth   the fold alone: a real HalfRotobjVoronoi whose full-sphere matrix is replaced (in the harness only) by a synthetic
          matrix: symmetric + antipodally symmetric ones (the statement applies), wild ones (asymmetric, negative, explicit
          zeros, Boolean), grids with missing antipodes, all four flag combinations

Correspondence (model vs implementation): the Lean model `halfMatrixQ` is fed the implementation's full-sphere matrix and
the grid rows and must reproduce the half matrix exactly (the fold only copies values: bitwise), its stored pattern in
storage order, the upper indices, and the sign fold of the angle.  The hypotheses of the Lean theorems (double-cover layout,
separation beyond np.isclose, symmetric + antipodally symmetric full-sphere matrix, no cell touching its own antipode,
certified shared vertices) are validated on every grid.

Oracle (independent of the model and of scipy's SphericalVoronoi): the statement itself, per pair of rotations, from the
grid points alone: the bisector 2-sphere of (q_i, +-q_j) cut by the half-spaces of all other points; adjacency <=> the cone
has interior (LP margin), border = Girard area of the cone from its extreme rays, distance = angle minimised over sign.
"""
from __future__ import annotations

import hashlib
import json
import math
import os
from fractions import Fraction

import numpy as np

import core

try:    # the per-pair geometry is thousands of tiny matrix products: BLAS threads only add contention (and the pool uses 16 processes)
    from threadpoolctl import threadpool_limits
    threadpool_limits(1)
except Exception:      # noqa: BLE001
    pass

RULE = ("histories: on one grid object (cube4D / randomQ, N in 4..30, thorough ..60) sequences of public getters containing "
        "every ordered pair of 20 getters, repeated calls, scribbled copies, then the matrices of that object; "
        "grid: cube4D and randomQ, quick N in {4..12,17}, thorough every N in 4..60 and {80,120,200,272} (+ randomQ_315); custom: random "
        "double covers (uniform / equatorial band / cap / permuted library grid), N in 4..14 (thorough ..40), seeds from "
        "VERIF_SEED; synth: random 2N x 2N full-sphere matrices on real Voronoi objects, N in 4..7. A grid case is distinct by "
        "its point set and non-trivial when at least one pair of rotations is adjacent only through the antipodal copy; a "
        "synth case is distinct by (grid, matrix, flags) and non-trivial when the fold changes at least one entry")
CHUNK = 24
SELS = ("adjacency", "border_len", "center_distances")
GETTER = {"adjacency": "get_voronoi_adjacency", "border_len": "get_cell_borders", "center_distances": "get_center_distances"}

T_ADJ = 1e-6          # LP margin above which a common face certainly exists
T_NON = 1e-9          # LP margin below which it certainly does not (observed: >= 1.2e-3 or <= 0)
AREA_TOL = 1e-10      # since a2316f0 the angles keep full precision: observed max deviation 6e-14 over 151k faces
DIST_TOL = 1e-9
HYP_MODEL_MAX_N = 60   # the Lean validators are cubic in 2N (list indexing)
AREA_MODEL_TOL = 1e-11  # Float model of the area code vs the implementation (no rounding step any more)
BORDER_SYM_TOL = 1e-12  # the two congruent faces behind B[i,j] and B[j,i] are measured separately (observed <= 7e-15)
POLY_TOL = 2e-14       # polygon areas vs the triangle-fan oracle (absolute; both sides subtract multiples of pi)


# ------------------------------------------------------------------------------------------------------------------
# generators
# ------------------------------------------------------------------------------------------------------------------
def _canon_upper(Q):
    """q or -q, whichever has its first non-zero coordinate positive (coordinates are generic: never within 1e-8 of 0)"""
    Q = np.array(Q, dtype=float)
    for r in Q:
        for x in r:
            if abs(x) > 1e-6:
                if x < 0:
                    r *= -1
                break
    return Q


def _unit(Q):
    return Q / np.linalg.norm(Q, axis=1)[:, None]


def _generic(Q):
    """coordinates well away from 0 (so the hemisphere test is not at its tolerance) and points well separated"""
    if np.any(np.abs(Q) < 1e-4):
        return False
    D = np.abs(Q @ Q.T) - np.eye(len(Q))
    return D.max() < 1 - 1e-4


def custom_points(rng, N, gen):
    for _ in range(200):
        if gen == "uniform":
            Q = _unit(rng.normal(size=(N, 4)))
        elif gen == "band":      # near the equator q0 = 0: q_i and -q_j are close, many antipode-only neighbours
            Q = rng.normal(size=(N, 4))
            Q[:, 0] = rng.uniform(0.02, 0.35, size=N) * np.linalg.norm(Q[:, 1:], axis=1)
            Q = _unit(Q)
        elif gen == "cap":       # concentrated around one direction
            c = _unit(rng.normal(size=(1, 4)))[0]
            Q = _unit(c[None, :] + rng.uniform(0.3, 0.9) * rng.normal(size=(N, 4)))
        else:
            raise ValueError(gen)
        Q = _canon_upper(Q)
        if _generic(Q):
            return Q
    raise core.HarnessError("no generic custom grid found")


def quick_N():
    return [4, 5, 6, 7, 8, 9, 10, 11, 12, 17]


def thorough_N():
    return list(range(4, 61)) + [80, 120, 200, 272, 315]


def grid_cases(ctx):
    rng = ctx.nprng("callrep")
    Ns = quick_N() if ctx.quick else thorough_N()
    for N in Ns:
        for alg in ("cube4D", "randomQ"):
            if N == 315 and alg == "cube4D":
                continue        # 315 is the randomQ witness of F13 (cube4D_315 needs the 2080-node subdivision: 10 min)
            yield {"kind": "grid", "alg": alg, "N": N, "rep": _draw_call_rep(rng)}


# ---- input representations ------------------------------------------------------------------------------------------
# The same mathematical input in every representation the public API accepts on the unchanged tree (established by a probe
# on the unchanged tree, randomQ_9/10/17 and cube4D_12/15: every family below gives the matrices of the plain-Python /
# float64 C-order call; float32 borders agree to 7e-15 only, because the sphere radius is then taken from a float32 norm).
# Left out, with the reason: list of rows ('list' object has no attribute 'shape' in RotobjVoronoi.__init__), float16
# (scipy: "Radius inconsistent with generators", also for the same numbers as float64), N as float (TypeError in np.zeros).
REPS_GRID = ["f64_c", "f64_fortran", "f64_strided", "f64_readonly", "f32", "longdouble"]
REPS_GRID_LAYOUT = ["f64_c", "f64_fortran", "f64_strided", "f64_readonly"]
REPS_N = ["int", "np.int64", "np.int32", "np.uint16", "array0d"]
REPS_ALG = ["str", "np.str_"]
REPS_CALL = ["positional", "keyword", "keyword_swapped", "generic_positional", "generic_keyword"]
REPS_FLAG = ["bool", "np.bool_", "int"]
REPS_EXCLUDED = {"grid as list of rows": "AttributeError: 'list' object has no attribute 'shape' (RotobjVoronoi.__init__)",
                 "grid as float16": "ValueError: Radius inconsistent with generators (scipy; same for these numbers as float64)",
                 "N as float": "TypeError: 'float' object cannot be interpreted as an integer"}
REP_BORDER_TOL = 1e-12      # float32 / longdouble grids: radius = norm in that dtype (observed 7e-15)


def _represent(P64, fam):
    """(array handed to the package, denoted float64 values)"""
    P64 = np.ascontiguousarray(np.asarray(P64, dtype=np.float64))
    if fam == "f64_c":
        X = P64.copy()
    elif fam == "f64_fortran":
        X = np.asfortranarray(P64)
    elif fam == "f64_strided":
        big = np.full((2 * P64.shape[0] + 1, 2 * P64.shape[1] + 1), np.nan)
        big[1::2, ::2][:, :P64.shape[1]] = P64
        X = big[1::2, ::2][:, :P64.shape[1]]
    elif fam == "f64_readonly":
        X = P64.copy()
        X.flags.writeable = False
    elif fam == "f32":
        X = P64.astype(np.float32)
    elif fam == "longdouble":
        X = P64.astype(np.longdouble)
    else:
        raise core.HarnessError(f"unknown representation {fam}")
    return X, np.ascontiguousarray(np.array(X, dtype=np.float64))


def _rep_scalar(v, fam):
    return {"int": int, "np.int64": np.int64, "np.int32": np.int32, "np.uint16": np.uint16,
            "array0d": lambda x: np.array(int(x))}[fam](v)


def _rep_flag(b, fam):
    return {"bool": bool, "np.bool_": np.bool_, "int": int}[fam](b)


def _factory_create(alg, N, rep):
    """SphereGrid4DFactory.create / SphereGridFactory.create with the arguments in the drawn representation"""
    from molgri.space.rotobj import SphereGrid4DFactory, SphereGridFactory
    rep = rep or {}
    a = np.str_(alg) if rep.get("alg") == "np.str_" else str(alg)
    n = _rep_scalar(N, rep.get("N", "int"))
    call = rep.get("call", "positional")
    if call == "positional":
        return SphereGrid4DFactory.create(a, n)
    if call == "keyword":
        return SphereGrid4DFactory.create(alg_name=a, N=n)
    if call == "keyword_swapped":
        return SphereGrid4DFactory.create(N=n, alg_name=a)
    if call == "generic_positional":
        return SphereGridFactory.create(a, n, 4)
    if call == "generic_keyword":
        return SphereGridFactory.create(alg_name=a, N=n, dimensions=_rep_scalar(4, rep.get("N", "int")))
    raise core.HarnessError(f"unknown call style {call}")


def _draw_call_rep(rng):
    pick = (lambda l: l[int(rng.integers(0, len(l)))]) if hasattr(rng, "integers") else (lambda l: l[rng.randrange(len(l))])
    return {"N": pick(REPS_N), "alg": pick(REPS_ALG), "call": pick(REPS_CALL), "flags": pick(REPS_FLAG)}


def rep_sweep_cases(ctx):
    """quick and thorough: every family of every argument over small fixed cases"""
    for alg, N in (("randomQ", 10), ("cube4D", 12)) + ((("randomQ", 17), ("cube4D", 15)) if not ctx.quick else ()):
        for fam in REPS_GRID:
            yield {"kind": "custom", "gen": "lib", "alg": alg, "N": N, "rep": fam}
    for alg, N in (("randomQ", 9), ("cube4D", 8)):
        for fam in REPS_N:
            yield {"kind": "repcall", "alg": alg, "N": N, "rep": {"N": fam}}
        for fam in REPS_ALG:
            yield {"kind": "repcall", "alg": alg, "N": N, "rep": {"alg": fam}}
        for fam in REPS_CALL:
            yield {"kind": "repcall", "alg": alg, "N": N, "rep": {"call": fam, "N": "np.int32", "alg": "np.str_"}}
        for fam in REPS_FLAG:
            yield {"kind": "repcall", "alg": alg, "N": N, "rep": {"flags": fam}}


def custom_cases(ctx):
    rng = ctx.nprng("custom")
    gens = ["band", "uniform", "cap", "band"]
    n = 10 if ctx.quick else 120
    for t in range(n):
        gen = gens[t % len(gens)]
        N = int(rng.integers(4, 15 if ctx.quick else 41))
        if ctx.quick and t >= 6:
            N = int(rng.integers(4, 9))
        Q = custom_points(rng, N, gen)
        yield {"kind": "custom", "gen": gen, "G": Q.tolist(), "rep": REPS_GRID[int(rng.integers(0, len(REPS_GRID)))]}
    # permuted library grids: same geometry, another rotation at index 0 / N
    for alg, N in ((("randomQ", 8), ("cube4D", 8), ("randomQ", 11)) if ctx.quick else
                   (("randomQ", 8), ("cube4D", 8), ("randomQ", 11), ("cube4D", 17), ("randomQ", 30), ("cube4D", 40))):
        yield {"kind": "custom", "gen": "perm", "alg": alg, "N": N, "perm_seed": int(rng.integers(0, 2 ** 31)),
               "rep": REPS_GRID[int(rng.integers(0, len(REPS_GRID)))]}


def synth_cases(ctx):
    rng = ctx.nprng("synth")
    ngrids = 4 if ctx.quick else 20
    per = 36 if ctx.quick else 150
    for g in range(ngrids):
        N = int(rng.integers(4, 8))
        G = custom_points(rng, N, ["uniform", "band"][g % 2])
        P = np.vstack([G, -G])
        layout = "cover"
        if g % 4 == 3:
            # destroy some antipodes (rows are no longer -G[i]): keys missing in ind2opp_index; mixed hemispheres
            k = int(rng.integers(1, 3))
            for r in rng.choice(2 * N, size=k, replace=False):
                P[r] = _unit(rng.normal(size=(1, 4)))[0]
            layout = "broken"
        n2 = len(P)
        for t in range(per):
            style = ["symanti", "symanti", "wild", "bool", "sym"][t % 5] if layout == "cover" else ["wild", "bool", "sym"][t % 3]
            dens = float(rng.choice([0.08, 0.2, 0.5]))
            if style == "symanti":
                # symmetric, antipodally symmetric, empty diagonal, no self-antipode entry: a legal full-sphere matrix
                M = np.zeros((n2, n2))
                for a in range(N):
                    for b in range(a + 1, N):
                        for bb in (b, b + N):
                            if rng.random() < dens:
                                v = float(rng.choice([1.0, rng.uniform(0.01, 3.0)]))
                                aa, b2 = (a + N) % n2, (bb + N) % n2
                                M[a, bb] = M[bb, a] = M[aa, b2] = M[b2, aa] = v
            elif style == "sym":
                U = np.triu((rng.random((n2, n2)) < dens) * rng.uniform(0.01, 3.0, size=(n2, n2)), 1)
                M = U + U.T
            elif style == "bool":
                M = (rng.random((n2, n2)) < dens)
            else:
                M = (rng.random((n2, n2)) < dens) * rng.choice([-1.5, 0.25, 1.0, 2.0, 7.0], size=(n2, n2))
            r, c = np.nonzero(M)
            trip = [[int(a), int(b), (bool(M[a, b]) if style == "bool" else float(M[a, b]))] for a, b in zip(r, c)]
            if style == "wild" and trip and rng.random() < 0.5:
                trip.append([trip[0][0], (trip[0][1] + 1) % n2, 0.0])      # an explicitly stored zero
            flags = [(True, True), (True, True), (False, True), (True, False), (False, False)][int(rng.integers(0, 5))]
            yield {"kind": "synth", "rep": REPS_GRID[int(rng.integers(0, len(REPS_GRID)))],
                   "P": P.tolist(), "layout": layout, "style": style, "n": n2, "t": trip,
                   "only_upper": flags[0], "include_opp": flags[1],
                   "sel": SELS[int(rng.integers(0, 3))]}


def poly_cases(ctx):
    """convex spherical polygons on the unit 2-sphere, vertices in random order"""
    rng = ctx.nprng("poly")
    n = 140 if ctx.quick else 2500
    for t in range(n):
        delta = float(10 ** rng.uniform(-6, 0.1)) if t % 3 else float(rng.choice([1e-6, 3e-6, 1e-5, 3e-5, 1e-4, 1e-3]))
        delta = min(delta, 1.2)
        k = int(rng.integers(3, 9))
        c = _unit(rng.normal(size=(1, 3)))[0]
        e1 = np.cross(c, rng.normal(size=3)); e1 /= np.linalg.norm(e1)
        e2 = np.cross(c, e1)
        for _ in range(50):
            ang = np.sort(rng.uniform(0, 2 * np.pi, size=k))
            gaps = np.diff(np.append(ang, ang[0] + 2 * np.pi))
            if gaps.max() < 0.9 * np.pi and gaps.min() > 0.05:
                break
        else:
            continue
        rad = delta * (1 if t % 2 else rng.uniform(0.6, 1.0, size=k))       # on a small circle (convex) or inside it
        pts = c[None, :] + (rad * np.cos(ang))[:, None] * e1 + (rad * np.sin(ang))[:, None] * e2
        pts = _unit(pts)
        if t % 2 == 0 and not _convex(pts):
            continue
        pts = pts[rng.permutation(k)]
        yield {"kind": "poly", "src": f"generated delta={delta:.2e}", "pts": pts.tolist(),
               "rep": REPS_GRID_LAYOUT[int(rng.integers(0, len(REPS_GRID_LAYOUT)))]}


def _convex(pts):
    """vertices (in angular order) form a strictly convex spherical polygon"""
    k = len(pts)
    s = [np.dot(np.cross(pts[i - 1], pts[i]), pts[(i + 1) % k]) for i in range(k)]
    return all(x > 0 for x in s) or all(x < 0 for x in s)


# public read-only getters of the rotation-grid objects: (id, target g = SphereGrid4Dim / h = its HalfRotobjVoronoi, method,
# kwargs, result may be scribbled over because the unchanged code returns a fresh copy)
HIST_GETTERS = [
    ("vol", "g", "get_voronoi_volumes", {}, True),
    ("vol_approx", "g", "get_voronoi_volumes", {"approx": True}, True),
    ("vol_h", "h", "get_voronoi_volumes", {}, True),
    ("adj", "g", "get_voronoi_adjacency", {}, True),
    ("bord", "g", "get_cell_borders", {}, True),
    ("dist", "g", "get_center_distances", {}, True),
    ("adj_full", "g", "get_voronoi_adjacency", {"only_upper": False, "include_opposing_neighbours": False}, True),
    ("dist_allfold", "g", "get_center_distances", {"only_upper": False, "include_opposing_neighbours": True}, True),
    ("bord_nofold", "h", "get_cell_borders", {"only_upper": True, "include_opposing_neighbours": False}, True),
    ("grid_upper", "g", "get_grid_as_array", {}, True),
    ("grid_all", "g", "get_grid_as_array", {"only_upper": False}, False),
    ("upper_idx", "g", "get_upper_indices", {}, True),
    ("centers", "h", "get_all_voronoi_centers", {}, False),
    ("vertices", "h", "get_all_voronoi_vertices", {}, False),
    ("vertices_red", "h", "get_all_voronoi_vertices", {"reduced": True}, False),
    ("regions", "h", "get_all_voronoi_regions", {}, False),
    ("regions_red", "h", "get_all_voronoi_regions", {"reduced": True}, False),
    ("red_vr", "h", "get_reduced_vertices_regions", {}, True),
    ("dim_N", "g", "get_N", {}, False),
    ("hulls", "h", "get_convex_hulls", {}, False),
]
HIST_BY_ID = {x[0]: x for x in HIST_GETTERS}
FINAL_CALLS = [["adj", False], ["bord", False], ["dist", False]]


def _all_pairs_sequence(ids, rng):
    """a cyclic sequence over `ids` in which every ordered pair (a, b), a == b included, occurs as consecutive calls
    (Eulerian circuit of the complete digraph with loops, Hierholzer; edge order drawn from rng)"""
    ids = list(ids)
    rng.shuffle(ids)
    out_edges = {a: list(ids) for a in ids}
    for a in ids:
        rng.shuffle(out_edges[a])
    stack, circuit = [ids[0]], []
    while stack:
        v = stack[-1]
        if out_edges[v]:
            stack.append(out_edges[v].pop())
        else:
            circuit.append(stack.pop())
    return circuit[::-1]


def history_cases(ctx):
    rng = ctx.rng
    cheap = [x[0] for x in HIST_GETTERS if x[0] != "hulls"]
    if ctx.quick:
        euler = [("cube4D", 8), ("randomQ", 9), ("cube4D", 5)]
        rand = [("cube4D", 12, 40), ("randomQ", 17, 40), ("cube4D", 30, 15), ("randomQ", 4, 40)]
    else:
        euler = [("cube4D", 8), ("randomQ", 9), ("cube4D", 5), ("randomQ", 4), ("cube4D", 12), ("randomQ", 12), ("cube4D", 17)]
        rand = [(a, N, 60) for a in ("cube4D", "randomQ") for N in (4, 6, 7, 10, 11, 13, 17, 20, 24, 30, 40, 60)]
    for t, (alg, N) in enumerate(euler):
        ids = cheap + (["hulls"] if t == 0 else [])
        seq = _all_pairs_sequence(ids, rng)
        # scribble over a third of the returned copies
        yield {"kind": "grid", "alg": alg, "N": N, "history": [[i, rng.random() < 0.34] for i in seq] + FINAL_CALLS,
               "history_kind": "all_ordered_pairs"}
    for alg, N, L in rand:
        seq = [rng.choice(cheap) for _ in range(L)]
        seq[rng.randrange(L)] = "hulls"
        yield {"kind": "grid", "alg": alg, "N": N, "history": [[i, rng.random() < 0.5] for i in seq] + FINAL_CALLS,
               "history_kind": "random"}
    # the production order (FullGrid.get_full_prefactors / io.py): volumes first, then the matrices
    for alg, N in (("cube4D", 12), ("randomQ", 9)):
        yield {"kind": "grid", "alg": alg, "N": N, "history": [["vol", False]] + FINAL_CALLS, "history_kind": "production_order"}


def cases(ctx):
    if not ctx.quick:
        _prefetch(ctx, list(grid_cases(ctx)) + list(custom_cases(ctx)))
    yield from grid_cases(ctx)
    yield from custom_cases(ctx)
    ctx.extra_cov["representations"] = {"grid_array": REPS_GRID, "N": REPS_N, "algorithm_name": REPS_ALG, "call": REPS_CALL,
                                        "flags": REPS_FLAG, "excluded_with_reason": REPS_EXCLUDED}
    yield from rep_sweep_cases(ctx)
    yield from history_cases(ctx)
    yield from poly_cases(ctx)
    if _cpu:
        ctx.extra_cov["pool_cpu_s"] = {"total": round(sum(_cpu), 1), "max_single_grid": round(max(_cpu), 1), "grids": len(_cpu)}
    yield from synth_cases(ctx)


# ------------------------------------------------------------------------------------------------------------------
# the implementation
# ------------------------------------------------------------------------------------------------------------------
def _case_key(case):
    return json.dumps(case, sort_keys=True)


_cache = {}
_cpu = []
_synth_objs = {}


def _points_of(case):
    """(object with the getters, full 2N x 4 grid) for grid / custom cases"""
    from molgri.space.rotobj import SphereGrid4DFactory
    from molgri.space.voronoi import HalfRotobjVoronoi
    if case["kind"] == "grid":
        g = _factory_create(case["alg"], case["N"], case.get("rep"))
        return g, np.array(g.get_grid_as_array(only_upper=False), dtype=float)
    if case.get("gen") == "lib":
        g = SphereGrid4DFactory.create(case["alg"], case["N"])
        G = np.array(g.get_grid_as_array(only_upper=False), dtype=float)[:case["N"]]
    elif case.get("gen") == "perm":
        g = SphereGrid4DFactory.create(case["alg"], case["N"])
        P0 = np.array(g.get_grid_as_array(only_upper=False), dtype=float)
        N = case["N"]
        perm = np.random.default_rng(case["perm_seed"]).permutation(N)
        G = P0[:N][perm]
    else:
        G = np.array(case["G"], dtype=float)
    X, P = _represent(np.vstack([G, -G]), case.get("rep", "f64_c"))
    h = HalfRotobjVoronoi(X)
    _passed[id(h)] = X
    return h, P


_passed = {}


def _half_of(obj):
    """the HalfRotobjVoronoi behind a SphereGrid4Dim (or the object itself)"""
    from molgri.space.voronoi import HalfRotobjVoronoi
    return obj if isinstance(obj, HalfRotobjVoronoi) else obj.spherical_voronoi


def _full_voronoi(obj, P):
    from molgri.space.voronoi import RotobjVoronoi
    h = _half_of(obj)
    fv = getattr(h, "full_voronoi", None)
    return fv if fv is not None else RotobjVoronoi(P)


# ---- object histories -------------------------------------------------------------------------------------------------
_pristine = {}
_fresh_digest = {}
_geo_cache = {}


def _digest(x):
    """canonical, bit-exact observable of a getter result"""
    import scipy.sparse as sp
    if sp.issparse(x):
        c = x.tocoo()
        return ("sparse", tuple(int(v) for v in c.shape), str(c.dtype), np.asarray(c.toarray()).tobytes(),
                np.asarray(c.row, dtype=np.int64).tobytes(), np.asarray(c.col, dtype=np.int64).tobytes())
    if isinstance(x, np.ndarray):
        if x.dtype == object:
            return ("objarray", tuple(_digest(v) for v in x.ravel()))
        return ("array", x.shape, str(x.dtype), np.ascontiguousarray(x).tobytes())
    if isinstance(x, (list, tuple)):
        return (type(x).__name__, tuple(_digest(v) for v in x))
    if isinstance(x, (int, float, str, bool, np.integer, np.floating)) or x is None:
        return ("scalar", repr(x))
    if hasattr(x, "volume") and hasattr(x, "simplices"):      # scipy ConvexHull
        return ("hull", repr(float(x.volume)), repr(float(x.area)), int(len(x.points)))
    return ("object", type(x).__name__)


def _scribble(x):
    """overwrite a returned copy in place"""
    import scipy.sparse as sp
    if sp.issparse(x):
        for nm in ("data", "row", "col"):
            a = getattr(x, nm, None)
            if isinstance(a, np.ndarray) and a.size:
                a[...] = 0 if a.dtype != bool else False
    elif isinstance(x, np.ndarray):
        if x.dtype != object and x.size and x.flags.writeable:
            x[...] = -3
    elif isinstance(x, list):
        for v in x:
            _scribble(v)
        x.clear()
    elif isinstance(x, tuple):
        for v in x:
            _scribble(v)


def _call(g, gid, scribble):
    _, tgt, meth, kw, mutable = HIST_BY_ID[gid]
    o = g if tgt == "g" else g.get_spherical_voronoi()
    try:
        r = getattr(o, meth)(**kw)
    except Exception as e:      # noqa: BLE001
        return ("raised", core.errname(e))
    d = _digest(r)
    if scribble and mutable:
        _scribble(r)
    return d


def _fresh_grid(alg, N):
    """a grid object on which no getter was ever called: deep copy of a pristine factory product (the factory itself when
    the object cannot be copied)"""
    import copy
    from molgri.space.rotobj import SphereGrid4DFactory
    k = (alg, N)
    if k not in _pristine:
        _pristine[k] = SphereGrid4DFactory.create(alg, N)
    try:
        # SphereGridNDim forwards unknown attributes through __getattr__, which copy.deepcopy(obj) cannot cope with on a
        # half-built instance: copy the attribute dictionary and attach it to a bare instance instead
        src = _pristine[k]
        new = object.__new__(type(src))
        object.__setattr__(new, "__dict__", copy.deepcopy(src.__dict__))
        return new
    except Exception:      # noqa: BLE001
        return SphereGrid4DFactory.create(alg, N)


def _fresh_result(alg, N, gid):
    k = (alg, N, gid)
    if k not in _fresh_digest:
        _fresh_digest[k] = _call(_fresh_grid(alg, N), gid, False)
    return _fresh_digest[k]


def _run_history(g, alg, N, history):
    """execute the calls on g; returns the indices of the calls whose result differs from the same call on a pristine object"""
    bad = []
    for t, (gid, scr) in enumerate(history):
        d = _call(g, gid, scr)
        if d != _fresh_result(alg, N, gid):
            bad.append(t)
    return bad


def _shrink_history(alg, N, history, t_bad, budget_s=20.0):
    """minimal call sequence that still makes the call history[t_bad] differ from its pristine result"""
    import time
    t0 = time.time()
    last = list(history[t_bad])

    def fails(prefix):
        g = _fresh_grid(alg, N)
        for gid, scr in prefix:
            _call(g, gid, scr)
        return _call(g, last[0], False) != _fresh_result(alg, N, last[0])
    prefix = [list(c) for c in history[:t_bad]]
    # one earlier call is usually enough
    seen = []
    for c in prefix:
        if c not in seen:
            seen.append(c)
    for c in seen:
        if time.time() - t0 > budget_s:
            break
        if fails([c]):
            return [c, [last[0], False]]
    # otherwise: drop calls one by one (from the front) while the failure persists
    i = 0
    while i < len(prefix) and time.time() - t0 < budget_s:
        trial = prefix[:i] + prefix[i + 1:]
        if fails(trial):
            prefix = trial
        else:
            i += 1
    return prefix + [[last[0], False]]


def observe(case, with_geo=True):
    """everything compare() and oracle() need, from the real code (and the independent geometry)"""
    with core.quiet():
        obj, P = _points_of(case)
        hist_bad = None
        if case.get("history"):
            hist_bad = _run_history(obj, case["alg"], case["N"], case["history"])
        n2 = len(P)
        N = n2 // 2
        out = {"P": P, "N": N, "half": {}, "full": {}, "coo": {}, "flags": {}}
        if hist_bad is not None:
            out["hist_bad"] = hist_bad
        fv = _full_voronoi(obj, P)
        # record the full-sphere matrix the fold consumes (harness-side wrapper on the instance; the matrix is recomputed
        # directly when the getter did not go through it)
        rec = {}
        orig = fv._calculate_N_N_array

        def _recording(sel_property="adjacency", **kw):
            try:
                r = orig(sel_property=sel_property, **kw)
            except Exception as e:      # noqa: BLE001
                rec[sel_property] = {"err": core.errname(e)}
                raise
            rec[sel_property] = np.array(r.toarray())
            return r
        try:
            fv._calculate_N_N_array = _recording
        except Exception:      # noqa: BLE001
            pass
        for sel in SELS:
            rec.pop(sel, None)
            try:
                H = getattr(obj, GETTER[sel])()
                out["half"][sel] = np.array(H.toarray())
                out["coo"][sel] = (np.array(H.row, dtype=int).tolist(), np.array(H.col, dtype=int).tolist())
            except Exception as e:      # noqa: BLE001
                out["half"][sel] = {"err": core.errname(e)}
            if sel in rec:
                out["full"][sel] = rec[sel]
            else:
                try:
                    out["full"][sel] = np.array(orig(sel_property=sel).toarray())
                except Exception as e:      # noqa: BLE001
                    out["full"][sel] = {"err": core.errname(e)}
        try:
            del fv._calculate_N_N_array
        except Exception:      # noqa: BLE001
            pass
        if N <= 40:
            for sel in ("adjacency", "center_distances"):
                frep = (case.get("rep") or {}).get("flags", "bool") if isinstance(case.get("rep"), dict) else "bool"
                for ou, io in ((False, True), (True, False), (False, False)):
                    try:
                        H = getattr(obj, GETTER[sel])(only_upper=_rep_flag(ou, frep), include_opposing_neighbours=_rep_flag(io, frep))
                        out["flags"][(sel, ou, io)] = np.array(H.toarray())
                    except Exception as e:      # noqa: BLE001
                        out["flags"][(sel, ou, io)] = {"err": core.errname(e)}
        h = _half_of(obj)
        try:
            out["upper"] = [int(i) for i in h._get_upper_indices()]
        except Exception as e:      # noqa: BLE001
            out["upper"] = {"err": core.errname(e)}
        try:
            out["rv"] = np.array(fv.get_all_voronoi_vertices(reduced=True), dtype=float)
            out["rr"] = [list(map(int, r)) for r in fv.get_all_voronoi_regions(reduced=True)]
        except Exception as e:      # noqa: BLE001
            out["rv"] = None
        if isinstance(out["full"]["border_len"], dict) or isinstance(out["half"]["border_len"], dict):
            out["border_diag"] = _diagnose_borders(fv, out)
        out["area_in"] = _area_inputs(out)
        # sign fold of the angle on a few pairs (real functions; arccos is the external call)
        from molgri.space.utils import angle_between_vectors, distance_between_quaternions
        pairs = [(0, 1), (0, N + 1), (1, N), (N - 1, n2 - 2), (2, N + 3), (3, 2)]
        qd = []
        X = _passed.pop(id(obj), None)
        R = X if (X is not None and X.dtype == np.float64) else P       # rows in the layout the grid was passed in
        for a, b in pairs:
            th = float(angle_between_vectors(R[a], R[b]))
            qd.append((a, b, th, float(distance_between_quaternions(R[a], R[b]))))
        out["qd"] = qd
        # representation independence: the same numbers handed over as a plain C-ordered float64 array
        if case["kind"] == "custom" and case.get("rep", "f64_c") != "f64_c":
            from molgri.space.voronoi import HalfRotobjVoronoi
            ref = {}
            try:
                hp = HalfRotobjVoronoi(np.ascontiguousarray(P).copy())
                for sel in SELS:
                    ref[sel] = np.array(getattr(hp, GETTER[sel])().toarray())
            except Exception as e:      # noqa: BLE001
                ref = {"err": core.errname(e)}
            out["ref_plain"] = ref
    if with_geo:
        gk = P.tobytes()
        if N <= 60 and gk in _geo_cache:
            out["geo"] = _geo_cache[gk]
        else:
            out["geo"] = geometry(P, N, out)
            if N <= 60:
                if len(_geo_cache) > 40:
                    _geo_cache.clear()
                _geo_cache[gk] = out["geo"]
    return out


def _diagnose_borders(fv, out):
    """the border getter raised: which pairs of cells of the full-sphere diagram make `_calculate_borders` raise"""
    Fa = out["full"].get("adjacency")
    if isinstance(Fa, dict) or Fa is None:
        return None
    bad, vals = [], {}
    for a, b in np.argwhere(np.triu(np.asarray(Fa) != 0, 1)):
        a, b = int(a), int(b)
        try:
            vals[(a, b)] = float(fv._calculate_borders(a, b))
        except Exception as e:      # noqa: BLE001
            bad.append((a, b, core.errname(e), str(e)[:80]))
    return {"bad": bad, "vals": vals}


def _area_inputs(out):
    """inputs of the Float model of the area code: the SVD-projected shared vertices of adjacent cells of the full-sphere
    diagram, obtained with the same external calls as `_calculate_borders` (set intersection order, scipy.linalg.svd).
    When the border getter raised, the per-pair outcomes of `_calculate_borders` are used instead of the matrix."""
    from scipy.linalg import svd
    F = out["full"].get("border_len")
    if out.get("rv") is None:
        return []
    rv, rr = out["rv"], out["rr"]
    if isinstance(F, dict):
        diag = out.get("border_diag")
        if not diag:
            return []
        val = dict(diag["vals"])
        for a, b, en, _ in diag["bad"]:
            val[(a, b)] = {"err": en}
        prs = sorted(val)
        must = [(a, b) for a, b, _, _ in diag["bad"]]
    else:
        prs = [(int(a), int(b)) for a, b in np.argwhere(np.triu(np.asarray(F) != 0, 1))]
        val = {(a, b): float(F[a, b]) for a, b in prs}
        must = []
    if len(prs) > 160:
        sel = np.random.default_rng(4).choice(len(prs), size=160, replace=False)
        prs = sorted(set(prs[k] for k in sel) | set(must))
    res = []
    for a, b in prs:
        idx = list(set(rr[a]).intersection(set(rr[b])))
        shared = rv[idx]
        try:
            u, s_, vh = svd(shared)
            pts = np.dot(shared, vh.T)[:, :-1]
        except Exception:      # noqa: BLE001
            continue
        res.append((a, b, [[core.fbits(x) for x in r] for r in pts], val[(a, b)],
                    [core.fbits(x) for x in np.linalg.svd(shared, compute_uv=False)]))
    return res


def _work(case):
    try:
        import time
        t0 = time.process_time()
        out = observe(case)
        out["cpu_s"] = time.process_time() - t0
        return _case_key(case), out
    except Exception as e:      # noqa: BLE001
        import traceback
        return _case_key(case), {"crash": traceback.format_exc()}


def _prefetch(ctx, case_list):
    """thorough tier: grids are independent; build them and run the per-pair geometry on all cores"""
    import multiprocessing as mp
    import molgri.space.rotobj  # noqa: F401  (import before the fork)
    order = sorted(case_list, key=lambda c: -(c.get("N") or len(c.get("G", []))))
    with mp.get_context("fork").Pool(min(16, os.cpu_count() or 1)) as pool:
        for k, out in pool.imap_unordered(_work, order, chunksize=1):
            _cache[k] = out
    ctx.note("thorough: grid construction and per-pair geometry run in a 16-process pool")


def impl_poly(case):
    from molgri.space.utils import exact_area_of_spherical_polygon, sort_points_on_sphere_ccw
    X, pts = _represent(np.array(case["pts"], dtype=float), case.get("rep", "f64_c"))
    try:
        with core.quiet():
            return {"area": float(exact_area_of_spherical_polygon(sort_points_on_sphere_ccw(X))), "pts": pts}
    except Exception as e:      # noqa: BLE001
        return {"err": core.errname(e), "pts": pts}


def impl_repcall(case):
    """the factory called with arguments in another representation vs the plain-Python call: grid and matrices, bit for bit"""
    from molgri.space.rotobj import SphereGrid4DFactory
    rep = case["rep"]
    fr = rep.get("flags", "bool")

    def obs(g, fam):
        o = [_digest(np.array(g.get_grid_as_array(only_upper=_rep_flag(False, fam))))]
        for sel in SELS:
            for ou, io in ((True, True), (False, True), (True, False)):
                o.append(_digest(getattr(g, GETTER[sel])(only_upper=_rep_flag(ou, fam), include_opposing_neighbours=_rep_flag(io, fam))))
        o.append(_digest(g.get_voronoi_volumes(approx=_rep_flag(True, fam))))
        return o
    with core.quiet():
        try:
            got = obs(_factory_create(case["alg"], case["N"], rep), fr)
        except Exception as e:      # noqa: BLE001
            got = {"err": core.errname(e), "msg": str(e)[:120]}
        k = ("repcall_ref", case["alg"], case["N"])
        if k not in _fresh_digest:
            _fresh_digest[k] = obs(SphereGrid4DFactory.create(case["alg"], case["N"]), "bool")
    return {"got": got, "ref": _fresh_digest[k]}


def impl(case):
    if case["kind"] == "synth":
        return impl_synth(case)
    if case["kind"] == "repcall":
        return impl_repcall(case)
    if case["kind"] == "poly":
        return impl_poly(case)
    k = _case_key(case)
    out = _cache.pop(k, None)
    if out is None:
        out = observe(case)
    if "crash" in out:
        raise core.HarnessError("observation crashed: " + out["crash"])
    if "cpu_s" in out:
        _cpu.append(out["cpu_s"])
    return out


class _Stub:
    def __init__(self, M):
        self.M = M

    def _calculate_N_N_array(self, sel_property="adjacency", **kw):
        from scipy.sparse import coo_array
        return coo_array(self.M)


def _synth_matrix(case):
    from scipy.sparse import coo_array
    n = case["n"]
    t = case["t"]
    if case["style"] == "bool":
        data = np.array([bool(x[2]) for x in t], dtype=bool)
    else:
        data = np.array([float(x[2]) for x in t], dtype=float)
    r = np.array([x[0] for x in t], dtype=int)
    c = np.array([x[1] for x in t], dtype=int)
    return coo_array((data, (r, c)), shape=(n, n))


def impl_synth(case):
    from molgri.space.voronoi import HalfRotobjVoronoi
    X, P = _represent(np.array(case["P"], dtype=float), case.get("rep", "f64_c"))
    key = (case.get("rep", "f64_c"), P.tobytes())
    with core.quiet():
        if key not in _synth_objs:
            if len(_synth_objs) > 12:
                _synth_objs.clear()
            _synth_objs[key] = HalfRotobjVoronoi(X)
        h = _synth_objs[key]
        M = _synth_matrix(case)
        saved = h.full_voronoi
        h.full_voronoi = _Stub(M)
        try:
            H = h._calculate_N_N_array(sel_property=case["sel"], only_upper=case["only_upper"],
                                       include_opposing_neighbours=case["include_opp"])
            out = {"H": np.array(H.toarray()), "coo": (np.array(H.row, dtype=int).tolist(), np.array(H.col, dtype=int).tolist()),
                   "M": np.array(M.toarray()), "P": P}
        except Exception as e:      # noqa: BLE001
            out = {"err": core.errname(e), "M": np.array(M.toarray()), "P": P}
        finally:
            h.full_voronoi = saved
        try:
            out["upper"] = [int(i) for i in h._get_upper_indices()]
        except Exception as e:      # noqa: BLE001
            out["upper"] = {"err": core.errname(e)}
    return out


# ------------------------------------------------------------------------------------------------------------------
# the model
# ------------------------------------------------------------------------------------------------------------------
def _rows(P):
    return [[core.rat(x) for x in r] for r in P]


def _sparse(M):
    M = np.asarray(M)
    r, c = np.nonzero(M)
    return {"n": int(M.shape[0]), "t": [[int(a), int(b), core.rat(float(M[a, b]))] for a, b in zip(r, c)]}


def model_ops(case, out):
    if case["kind"] == "repcall":
        return []
    if case["kind"] == "poly":
        return [{"op": "area", "pts": [[core.fbits(x) for x in r] for r in out["pts"]]}]
    P = out["P"]
    grid = _rows(P)
    if case["kind"] == "synth":
        return [{"op": "half", "grid": grid, "A": _sparse(out["M"]), "guard": "len",
                 "include_opp": case["include_opp"], "only_upper": case["only_upper"]},
                {"op": "upper", "grid": grid}]
    ops = [{"op": "upper", "grid": grid}]
    for sel in SELS:
        F = out["full"][sel]
        if isinstance(F, dict):
            ops.append({"op": "upper", "grid": grid})       # placeholder keeps the positions fixed
        else:
            ops.append({"op": "half", "grid": grid, "A": _sparse(F), "guard": "len", "include_opp": True, "only_upper": True})
    for (sel, ou, io), H in sorted(out["flags"].items()):
        F = out["full"][sel]
        if isinstance(F, dict):
            ops.append({"op": "upper", "grid": grid})
        else:
            ops.append({"op": "half", "grid": grid, "A": _sparse(F), "guard": "len", "include_opp": io, "only_upper": ou})
    for a, b, th, d in out["qd"]:
        ops.append({"op": "quatdist", "pi": core.rat(math.pi), "theta": core.rat(th)})
    for a, b, pts, val, sing in out["area_in"]:
        ops.append({"op": "area", "pts": pts, "sing": sing})
    if out["N"] <= HYP_MODEL_MAX_N and not isinstance(out["full"]["adjacency"], dict):
        ops.append({"op": "hyp", "grid": grid, "A": _sparse(out["full"]["adjacency"])})
    return ops


def _model_dense(m):
    """driver result -> float matrix (None for NaN), exact"""
    B = m["ok"]["B"]
    return [[None if v is None else core.unrat(v) for v in row] for row in B]


def _same_matrix(H, B):
    """bitwise equality of the implementation's dense result and the model's exact values"""
    H = np.asarray(H)
    if H.ndim != 2 or H.shape[0] != len(B) or any(len(r) != H.shape[1] for r in B):
        return f"shape {list(H.shape)} vs {[len(B), len(B[0]) if B else 0]}"
    for i, row in enumerate(B):
        for j, v in enumerate(row):
            x = float(H[i, j])
            if v is None or Fraction(x) != v:
                return f"entry ({i},{j}): implementation {x!r}, model {v}"
    return None


def _slim(case):
    """cases are replayable as they are; synthetic matrices can be large but stay below a few kB"""
    return case


def compare_poly(ctx, case, out, mouts):
    m = mouts[0]
    if "err" in out or "err" in m:
        if out.get("err") != m.get("err"):
            ctx.corr("poly/outcome", case, out.get("err", "ok"), m.get("err", "ok"))
        return
    mv = core.unfbits(m["ok"])
    if not abs(mv - out["area"]) <= AREA_MODEL_TOL:
        ctx.corr("poly/area_float_model", case, out["area"], mv)
    else:
        ctx.extra_cov["poly_float_model_max_abs_dev"] = max(ctx.extra_cov.get("poly_float_model_max_abs_dev", 0.0), abs(mv - out["area"]))


def compare(ctx, case, out, mouts):
    if case["kind"] == "repcall":
        return
    if case["kind"] == "poly":
        return compare_poly(ctx, case, out, mouts)
    if case["kind"] == "synth":
        m, mu = mouts
        if "err" in out or "err" in m:
            if out.get("err") != m.get("err"):
                ctx.corr("synth/outcome", case, out.get("err", "ok"), m.get("err", "ok"))
            ctx.branch("synth_error_case")
            return
        B = _model_dense(m)
        bad = _same_matrix(out["H"], B)
        if bad:
            ctx.corr("synth/half_matrix", case, bad, "Molgri.HalfFold.halfMatrixQ")
            return
        pat = [tuple(p) for p in m["ok"]["pattern"]]
        if pat != list(zip(*out["coo"])):
            ctx.corr("synth/stored_pattern_order", case, list(zip(*out["coo"]))[:20], pat[:20])
        if mu.get("ok") != out["upper"]:
            ctx.corr("synth/upper_indices", case, out["upper"], mu)
        ctx.branch(f"synth_{case['layout']}_{case['style']}_ou{int(case['only_upper'])}_io{int(case['include_opp'])}")
        M = out["M"]
        if case["include_opp"]:
            u = out["upper"] if case["only_upper"] else list(range(len(M)))
            sub = np.asarray(M, dtype=float)[np.ix_(u, u)] if u else np.zeros((0, 0))
            if sub.shape == out["H"].shape and np.any(sub != out["H"]):
                ctx.nt(("synth", hashlib.md5(out["P"].tobytes() + np.asarray(M, dtype=float).tobytes()).hexdigest(),
                        case["only_upper"]))
        return
    # grid / custom ------------------------------------------------------------------------------------------------
    pos = 0
    mu = mouts[pos]; pos += 1
    if mu.get("ok") != out["upper"]:
        ctx.corr("upper_indices", case, out["upper"], mu)
    N = out["N"]
    for sel in SELS:
        m = mouts[pos]; pos += 1
        H, F = out["half"][sel], out["full"][sel]
        if isinstance(H, dict) or isinstance(F, dict):
            # the getter raised: the model (total on matrices) has no counterpart; the oracle reports it
            ctx.branch("getter_raised")
            continue
        if "err" in m:
            ctx.corr(f"half/{sel}/outcome", case, "ok", m)
            continue
        bad = _same_matrix(H, _model_dense(m))
        if bad:
            ctx.corr(f"half/{sel}", case, bad, "Molgri.HalfFold.halfMatrixQ .len grid A true true")
            continue
        pat = [tuple(p) for p in m["ok"]["pattern"]]
        if pat != list(zip(*out["coo"][sel])):
            ctx.corr(f"half/{sel}/stored_pattern_order", case, list(zip(*out["coo"][sel]))[:20], pat[:20])
    for (sel, ou, io), H in sorted(out["flags"].items()):
        m = mouts[pos]; pos += 1
        F = out["full"][sel]
        if isinstance(H, dict) or isinstance(F, dict):
            ctx.branch("getter_raised")
            continue
        if "err" in m:
            ctx.corr(f"flags/{sel}/{ou}/{io}/outcome", case, "ok", m)
            continue
        bad = _same_matrix(H, _model_dense(m))
        if bad:
            ctx.corr(f"flags/{sel}/only_upper={ou}/include_opposing={io}", case, bad, "Molgri.HalfFold.halfMatrixQ")
    for a, b, th, d in out["qd"]:
        m = mouts[pos]; pos += 1
        md = float(core.unrat(m["ok"])) if "ok" in m else None
        if md is None or not core.close(d, md, rel=4e-16, abs_=0):
            ctx.corr("quat_distance/sign_fold", case, {"pair": [a, b], "theta": th, "value": d}, m)
        ctx.branch("angle_obtuse" if th > math.pi / 2 else "angle_acute")
    for a, b, pts, val, sing in out["area_in"]:
        m = mouts[pos]; pos += 1
        mv = core.unfbits(m["ok"]) if "ok" in m else None
        if isinstance(val, dict):
            # the implementation raised on this pair of cells: the Float model must raise the same error
            if m.get("err") != val["err"]:
                ctx.corr("face_area/float_model_outcome", case, {"cells": [a, b], "n_vertices": len(pts), "raised": val["err"]}, m)
            ctx.branch("face_area_modelled_error_" + val["err"])
            continue
        # one flipped 7-decimal rounding of a cosine moves an angle by 1e-7 / sin(angle)
        if mv is None or not abs(mv - val) <= AREA_MODEL_TOL:
            ctx.corr("face_area/float_model", case, {"cells": [a, b], "n_vertices": len(pts), "area": val},
                     m if mv is None else {"area": mv})
        elif mv is not None:
            ctx.extra_cov["face_area_float_model_max_abs_dev"] = max(ctx.extra_cov.get("face_area_float_model_max_abs_dev", 0.0),
                                                                    abs(mv - val))
        ctx.branch(f"face_area_modelled_{min(len(pts), 7)}{'+' if len(pts) >= 7 else ''}_vertices")
    if out["N"] <= HYP_MODEL_MAX_N and not isinstance(out["full"]["adjacency"], dict):
        m = mouts[pos]; pos += 1
        # the hypotheses of half_matrix_symm / fold_diag_empty decided by the model's own (proved sound) validators
        if m.get("ok") != {k: True for k in ("cover", "sep", "hup", "square", "sym", "anti", "diag")}:
            ctx.corr("hypothesis/model_validators", case, "grid and full-sphere adjacency of the implementation", m)
        else:
            ctx.branch("hypotheses_validated_by_model")
    validate_hypotheses(ctx, case, out)


# ------------------------------------------------------------------------------------------------------------------
# hypotheses of the Lean theorems, validated on the implementation's data
# ------------------------------------------------------------------------------------------------------------------
def validate_hypotheses(ctx, case, out):
    P, N = out["P"], out["N"]
    n2 = 2 * N
    # layout G ++ -G, exactly
    if len(P) != n2 or np.any(P[N:] != -P[:N]):
        ctx.corr("hypothesis/double_cover_layout", case, "grid is not G ++ -G", "Molgri.HalfFold.cover")
        return
    # Sep: no earlier row isclose to a later one
    for a in range(n2):
        close = np.all(np.isclose(P[a], P[:a]), axis=1) if a else np.array([], dtype=bool)
        if close.any():
            ctx.corr("hypothesis/Sep", case, f"row {a} isclose to row {int(np.nonzero(close)[0][0])}", "Molgri.HalfFold.Sep")
            return
    if out["upper"] != list(range(N)):
        ctx.corr("hypothesis/upper_cover", case, out["upper"], list(range(N)))
        return
    opp = [(a + N) % n2 for a in range(n2)]
    for sel in SELS:
        F = out["full"][sel]
        if isinstance(F, dict):
            continue
        F = np.asarray(F, dtype=float)
        if F.shape != (n2, n2):
            ctx.corr(f"hypothesis/Square/{sel}", case, list(F.shape), [n2, n2])
            continue
        if np.any(F != F.T):
            ctx.corr(f"hypothesis/symmetric_full/{sel}", case, "full-sphere matrix not symmetric", "hsym of fold_symm")
        Fa = F[np.ix_(opp, opp)]
        if np.any((Fa != 0) != (F != 0)):
            a, b = [int(x[0]) for x in np.nonzero((Fa != 0) != (F != 0))]
            ctx.corr(f"hypothesis/antipodal_pattern/{sel}", case, f"A[{a},{b}] vs antipodal image differ in pattern", "AntiSymm")
        elif sel != "adjacency":
            tol = 1e-9 if sel == "center_distances" else BORDER_SYM_TOL
            if np.abs(Fa - F).max(initial=0) > tol:
                ctx.corr(f"hypothesis/antipodal_values/{sel}", case, float(np.abs(Fa - F).max()), f"<= {tol}")
        if np.any(np.diag(F) != 0) or np.any(F[np.arange(n2), opp] != 0):
            ctx.corr(f"hypothesis/no_self_antipode_contact/{sel}", case, "A[i,i] or A[i,opp i] non-zero", "h0/h1 of fold_diag_empty")
    ctx.branch("hypotheses_validated")
    # certified shared vertices (hypothesis of shared_face_of_certified): every vertex of region a is a nearest-neighbour
    # tie of a: v.P[a] >= v.P[k] for all k
    if out.get("rv") is not None and len(out["rv"]):
        S = out["rv"] @ P.T
        mx = S.max(axis=1)
        worst = 0.0
        for a, reg in enumerate(out["rr"]):
            if reg:
                worst = max(worst, float((mx[reg] - S[reg, a]).max()))
        if worst > 1e-9:
            ctx.corr("hypothesis/certified_vertices", case, worst, "<= 1e-9")
        else:
            ctx.branch("vertices_certified")


# ------------------------------------------------------------------------------------------------------------------
# the independent geometry: Voronoi faces on S^3 from the points alone
# ------------------------------------------------------------------------------------------------------------------
def _bisector_constraints(P, a, b):
    n = P[a] - P[b]
    n = n / np.linalg.norm(n)
    # orthonormal basis of the hyperplane n^T x = 0 (Householder)
    e = np.zeros(4)
    k = int(np.argmax(np.abs(n)))
    e[k] = -np.sign(n[k]) if n[k] != 0 else 1.0
    w = n - e
    w = w / np.linalg.norm(w)
    Hh = np.eye(4) - 2 * np.outer(w, w)          # maps n to e
    B = np.delete(Hh.T, k, axis=1)               # columns: images of the other unit vectors, orthogonal to n
    mask = np.ones(len(P), dtype=bool)
    mask[[a, b]] = False
    D = P[a] - P[mask]
    C = D @ B
    C = C / np.linalg.norm(C, axis=1)[:, None]
    return C


def _margin(C):
    from scipy.optimize import linprog
    m = len(C)
    res = linprog(c=[0, 0, 0, -1], A_ub=np.hstack([-C, np.ones((m, 1))]), b_ub=np.zeros(m),
                  bounds=[(-1, 1)] * 3 + [(None, 1)], method="highs")
    if res.status != 0:
        return None
    return float(-res.fun)


def _cone_area(C, tol=1e-9):
    """area of {y in S^2 : C y >= 0}: extreme rays = pairwise intersections of the constraint planes that satisfy all
    constraints; Girard with the interior angle at each ray taken from the active constraints"""
    U = _cone_vertices(C, tol)
    if U is None:
        return None
    k = len(U)
    tot = 0.0
    for d in U:
        act = C[np.abs(C @ d) < 1e-7]
        T = act - np.outer(act @ d, d)
        T = T / np.linalg.norm(T, axis=1)[:, None]
        spread = math.acos(float(np.clip((T @ T.T).min(), -1, 1)))
        tot += math.pi - spread
    return tot - (k - 2) * math.pi


SUBSET = 48


def _face(P, a, b, want_area):
    """(LP margin, area) of the common face of the regions of P[a] and P[b].
    Exact working-set scheme: solve on the constraints of the points nearest to the bisector's centre; a relaxed optimum
    that satisfies every constraint is the optimum (LP), a relaxed polygon whose vertices satisfy every constraint is the
    polygon (each constraint is a hemisphere, the polygon is convex); otherwise the violated constraints are added."""
    C = _bisector_constraints(P, a, b)
    m = len(C)
    if m <= SUBSET:
        t = _margin(C)
        if t is None:
            return None, None
        return t, (_cone_area(C) if (want_area and t > T_ADJ) else None)
    mid = P[a] + P[b]
    if np.linalg.norm(mid) < 1e-9:
        S = np.arange(m)[:SUBSET]
    else:
        mask = np.ones(len(P), dtype=bool)
        mask[[a, b]] = False
        S = np.argsort(-(P[mask] @ mid))[:SUBSET]
    S = set(int(x) for x in S)
    # prefilter: a cone with interior (and >= 3 generic constraints) has extreme rays; the relaxed cone of the working set
    # contains the true one, so no extreme ray at all means no common face (the LP is skipped)
    if _cone_vertices(C[sorted(S)]) is None:
        return 0.0, None
    t = None
    for _ in range(12):
        idx = sorted(S)
        r = _margin_point(C[idx])
        if r is None:
            return None, None
        t, y = r
        if t <= T_NON:
            return t, None                      # more constraints can only lower the margin
        viol = np.nonzero(C @ y < t - 1e-11)[0]
        if len(viol) == 0:
            break
        S.update(int(v) for v in viol[np.argsort((C @ y)[viol])[:24]])
    else:
        t = _margin(C)
        if t is None:
            return None, None
        return t, (_cone_area(C) if (want_area and t > T_ADJ) else None)
    if not (want_area and t > T_ADJ):
        return t, None
    for _ in range(12):
        idx = sorted(S)
        U = _cone_vertices(C[idx])
        if U is None:
            return t, None
        bad = np.nonzero((np.array(U) @ C.T < -1e-9).any(axis=0))[0]
        if len(bad) == 0:
            return t, _cone_area(C[idx])
        S.update(int(v) for v in bad[:24])
    return t, _cone_area(C)


def _margin_point(C):
    from scipy.optimize import linprog
    m = len(C)
    res = linprog(c=[0, 0, 0, -1], A_ub=np.hstack([-C, np.ones((m, 1))]), b_ub=np.zeros(m),
                  bounds=[(-1, 1)] * 3 + [(None, 1)], method="highs")
    if res.status != 0:
        return None
    return float(-res.fun), np.array(res.x[:3])


_TRIU = {}


def _cone_vertices(C, tol=1e-9):
    """extreme rays of {y : C y >= 0}: all pairwise intersections of the constraint planes (both signs) that satisfy every
    constraint; duplicates (several planes through one ray) merged"""
    m = len(C)
    if m < 2:
        return None
    if m not in _TRIU:
        _TRIU[m] = np.triu_indices(m, 1)
    r, c = _TRIU[m]
    cr = np.cross(C[r], C[c])
    nn = np.linalg.norm(cr, axis=1)
    ok = nn > 1e-10
    cand = cr[ok] / nn[ok][:, None]
    V = np.vstack([cand, -cand])
    V = V[np.all(V @ C.T >= -tol, axis=1)]
    U = []
    for v in V:
        if not U or np.min(np.linalg.norm(np.array(U) - v, axis=1)) >= 1e-7:
            U.append(v)
    return U if len(U) >= 2 else None


def geometry(P, N, out):
    """per pair of rotations (i<j): LP margins of the faces (q_i|q_j) and (q_i|-q_j), their areas, the sign-minimised angle.
    Large grids: LP for every pair up to N = 60, beyond that for all pairs the implementation reports, all pairs with index 0,
    the pairs closest in angle and a fixed random sample of the rest."""
    n2 = 2 * N
    H = out["half"].get("adjacency")
    Hd = None if isinstance(H, dict) or H is None or np.asarray(H).shape != (N, N) else np.asarray(H) != 0
    pairs = [(i, j) for i in range(N) for j in range(i + 1, N)]
    if N > 60:
        c = np.abs(P[:N] @ P[:N].T)
        keep = set()
        for i, j in pairs:
            if i == 0 or (Hd is not None and (Hd[i, j] or Hd[j, i])):
                keep.add((i, j))
        order = np.argsort(-c, axis=1)[:, 1:26]
        for i in range(N):
            for j in order[i]:
                keep.add((min(i, int(j)), max(i, int(j))))
        rs = np.random.default_rng(12345)
        for _ in range(1500):
            i, j = sorted(rs.integers(0, N, size=2).tolist())
            if i != j:
                keep.add((i, j))
        diag = out.get("border_diag")
        for a, b, _, _ in (diag["bad"] if diag else []):
            if a % N != b % N:
                keep.add((min(a % N, b % N), max(a % N, b % N)))
        pairs = sorted(keep)
    res = {}
    for i, j in pairs:
        t1, a1 = _face(P, i, j, True)
        t2, a2 = _face(P, i, j + N, True)
        dot = abs(float(P[i] @ P[j]))
        # robust angle: 2 asin(|q -+ p| / 2)
        u, w = P[i] / np.linalg.norm(P[i]), P[j] / np.linalg.norm(P[j])     # (float32 grids are unit only to 3e-8)
        d = 2 * math.asin(min(1.0, min(np.linalg.norm(u - w), np.linalg.norm(u + w)) / 2))
        res[(i, j)] = (t1, a1, t2, a2, d, dot)
    selfc = []
    for i in range(N if N <= 60 else 0):
        t, _ = _face(P, i, i + N, False)
        selfc.append(t)
    return {"pairs": res, "self": selfc, "all_pairs": N <= 60}


# ------------------------------------------------------------------------------------------------------------------
# the oracle: the statement of C04 on the implementation
# ------------------------------------------------------------------------------------------------------------------
def _tag(case):
    if case["kind"] == "grid":
        return f"{case['alg']}_{case['N']}" + ("(after history)" if case.get("history") else "")
    if case.get("gen") in ("perm", "lib"):
        return f"{case['gen']}_{case['alg']}_{case['N']}" + (f"[{case['rep']}]" if case.get("rep") else "")
    return f"custom_{case.get('gen')}_{len(case['G'])}" + (f"[{case['rep']}]" if case.get("rep") else "")


KEY_TINY = "C04:F13_tiny_face_negative_area"
KEY_RANK = "C04:F14_rank_assertion_at_machine_precision"
TINY_AREA = 1e-5


def _classify_border_failure(out):
    """The border getter raised.  Returns {key: [pairs]} when every pair of cells on which `_calculate_borders` raises is
    explained by one of the two (repaired) defects F13 / F14, judged from independent data, else None; the keys only name
    the regression, they are not listed as open any more:
      F13  AssertionError and the true common face (independent geometry) has spherical area < 1e-5: the Girard sum with
           cosines rounded to 7 decimals comes out negative ("Area cannot be negative!")
      F14  AssertionError, the common face is an ordinary one, the shared vertices span a 3-dimensional subspace up to 1e-11
           (fourth singular value), and yet numpy's matrix_rank (tolerance max(M,N)*eps*s_max ~ 2e-15) reports 4"""
    diag = out.get("border_diag")
    if not diag or not diag["bad"] or out.get("rv") is None:
        return None
    keys = {}
    for a, b, en, msg in diag["bad"]:
        if en != "AssertionError":
            return None
        t, ar = _face(out["P"], a, b, True)
        if t is None or t < T_ADJ or ar is None:
            return None
        shared = out["rv"][list(set(out["rr"][a]).intersection(set(out["rr"][b])))]
        sing = np.linalg.svd(shared, compute_uv=False)
        if 0 <= ar < TINY_AREA:
            keys.setdefault(KEY_TINY, []).append((a, b))
        elif (len(sing) >= 4 and sing[3] < 1e-11 * sing[0] and sing[2] > 1e-7 * sing[0]
              and np.linalg.matrix_rank(shared) != 3):
            keys.setdefault(KEY_RANK, []).append((a, b))
        else:
            return None
    return keys


def _triangle_area(a, b, c):
    """van Oosterom & Strackee: well conditioned for tiny and for large spherical triangles"""
    return 2 * math.atan2(abs(float(np.dot(a, np.cross(b, c)))), 1 + float(a @ b) + float(b @ c) + float(c @ a))


def oracle_poly(ctx, case, out):
    """'the border entry is that face's spherical area', on the area code alone"""
    pts = out["pts"]
    k = len(pts)
    c = pts.mean(axis=0)
    c /= np.linalg.norm(c)
    e1 = pts[0] - (pts[0] @ c) * c
    e1 /= np.linalg.norm(e1)
    e2 = np.cross(c, e1)
    order = np.argsort(np.arctan2(pts @ e2, pts @ e1))
    q = pts[order]
    ref = sum(_triangle_area(q[0], q[i], q[i + 1]) for i in range(1, k - 1))
    diam = max(float(np.linalg.norm(x - y)) for x in pts for y in pts)
    ctx.branch("poly_diameter_1e%d" % int(math.floor(math.log10(diam))))
    if "err" in out:
        ctx.fail("C04:polygon_area_raises", f"exact_area_of_spherical_polygon raised {out['err']} for a convex spherical {k}-gon of "
                 f"diameter {diam:.3g} and area {ref:.6g} ({case.get('src')})", case, ref, out["err"])
        return
    if not abs(out["area"] - ref) <= POLY_TOL + 1e-12 * ref:
        ctx.fail("C04:polygon_area_wrong", f"area of a convex spherical {k}-gon of diameter {diam:.3g}: {out['area']!r}, "
                 f"triangle-fan value {ref!r} ({case.get('src')})", case, ref, out["area"])
        return
    if diam < 1e-3:
        ctx.nt(("poly", hashlib.md5(pts.tobytes()).hexdigest()))


def oracle_history(ctx, case, out):
    """the matrices are a function of the grid, not of what else was asked of the grid object before"""
    hist = case["history"]
    ctx.branch("history_" + case.get("history_kind", "replayed"))
    ctx.branch("history_calls", len(hist))
    ctx.branch("history_scribbled_copies", sum(1 for gid, scr in hist if scr and HIST_BY_ID[gid][4]))
    ctx.nt(("history", case["alg"], case["N"], hashlib.md5(json.dumps(hist).encode()).hexdigest()))
    bad = out.get("hist_bad") or []
    if not bad:
        return None
    t = bad[0]
    with core.quiet():
        small = _shrink_history(case["alg"], case["N"], hist, t)
    gid = hist[t][0]
    _, tgt, meth, kw, _m = HIST_BY_ID[gid]
    shown = " -> ".join(f"{HIST_BY_ID[i][2]}({', '.join(f'{k}={v}' for k, v in HIST_BY_ID[i][3].items())})"
                        + (" [result overwritten in place]" if scr and HIST_BY_ID[i][4] else "") for i, scr in small)
    shrunk = {"kind": "grid", "alg": case["alg"], "N": case["N"], "history": small, "history_kind": "shrunk"}
    ctx.fail("C04:history_dependent", f"{_tag(case)}: on ONE grid object the call sequence {shown} makes the last call return something "
             f"else than on a pristine object (call {t} of a history of {len(hist)} calls; {len(bad)} calls of that history "
             "differ)", shrunk, "bit-identical to the same call on a pristine grid object",
             {"first_differing_call": t, "getter": meth, "kwargs": kw, "differing_calls": bad[:20]})
    return shrunk


OBS_NAMES = (["grid"] + [f"{sel}(only_upper={ou}, include_opposing_neighbours={io})" for sel in SELS
                          for ou, io in ((True, True), (False, True), (True, False))] + ["volumes(approx=True)"])


def oracle_repcall(ctx, case, out):
    """the result must not depend on how the same N / name / flags are represented"""
    for k, v in case["rep"].items():
        ctx.branch(f"rep_{k}_{v}")
    ctx.nt(("repcall", case["alg"], case["N"], json.dumps(case["rep"], sort_keys=True)))
    got, ref = out["got"], out["ref"]
    if isinstance(got, dict):
        ctx.fail("C04:representation_rejected", f"{case['alg']}_{case['N']} requested as {case['rep']}: {got['err']} ({got['msg']}); the "
                 "plain-Python call gives a grid", case, "the grid and matrices of the plain call", got["err"])
        return
    for nm, a, b in zip(OBS_NAMES, got, ref):
        if a != b:
            ctx.fail("C04:representation_dependent", f"{case['alg']}_{case['N']} requested as {case['rep']}: {nm} differs from the "
                     "plain-Python call (str name, int N, bool flags)", case, "bit-identical", nm)
            return


def oracle_rep_grid(ctx, case, out):
    """same numbers, other array representation: same matrices"""
    fam = case.get("rep", "f64_c")
    ctx.branch("rep_grid_" + fam)
    ref = out.get("ref_plain")
    if ref is None:
        return
    if "err" in ref:
        ctx.note(f"plain float64 reference of a {fam} grid raised {ref['err']}")
        return
    for sel in SELS:
        H = out["half"][sel]
        if isinstance(H, dict):
            ctx.fail("C04:representation_dependent", f"{_tag(case)}: {GETTER[sel]} raises {H['err']} for the grid passed as {fam}; "
                     "the same numbers as C-ordered float64 give a matrix", case, "a matrix", H["err"])
            return
        H, R = np.asarray(H, dtype=float), np.asarray(ref[sel], dtype=float)
        exact = fam.startswith("f64") or sel != "border_len"
        ok = H.shape == R.shape and np.array_equal(H != 0, R != 0) and \
            (np.array_equal(H, R) if exact else float(np.abs(H - R).max(initial=0)) <= REP_BORDER_TOL)
        if not ok:
            where = "shape" if H.shape != R.shape else [int(x) for x in np.argwhere(H != R)[0]]
            ctx.fail("C04:representation_dependent", f"{_tag(case)}: {GETTER[sel]} for the grid passed as {fam} differs from the "
                     f"matrix for the same numbers passed as C-ordered float64 (first difference at {where}: "
                     f"{H[tuple(where)] if where != 'shape' else H.shape!r} vs {R[tuple(where)] if where != 'shape' else R.shape!r})",
                     case, "the same matrix", where)
            return


def oracle(ctx, case, out):
    if case["kind"] == "repcall":
        return oracle_repcall(ctx, case, out)
    if case["kind"] == "poly":
        return oracle_poly(ctx, case, out)
    if case["kind"] == "synth":
        return oracle_synth(ctx, case, out)
    if case["kind"] == "custom":
        oracle_rep_grid(ctx, case, out)
    elif isinstance(case.get("rep"), dict):
        for k, v in case["rep"].items():
            ctx.branch(f"rep_{k}_{v}")
    if case.get("history"):
        shrunk = oracle_history(ctx, case, out)
        if shrunk is not None and shrunk["history"] != case["history"]:
            # report the per-pair consequences on the matrices of the object with the minimal history (short replay)
            case = dict(shrunk, history=shrunk["history"] + [c for c in FINAL_CALLS if c not in shrunk["history"][-1:]])
            out = observe(case)
    N = out["N"]
    tag = _tag(case)
    mats = {}
    for sel in SELS:
        H = out["half"][sel]
        if isinstance(H, dict):
            known = _classify_border_failure(out) if sel == "border_len" else None
            if known:
                for key, prs in known.items():
                    why = ("the Girard sum of a tiny common face is negative ('Area cannot be negative!'; finding F13, repaired "
                           "by a2316f0)" if key == KEY_TINY else
                           "np.linalg.matrix_rank of the shared vertices of an ordinary face is 4 at machine precision "
                           "(fourth singular value ~1e-15; finding F14, repaired by 35f2358)")
                    ctx.fail(key, f"{tag}: get_cell_borders raised {H['err']}: {why}; cells {prs[:4]} of the full-sphere "
                             "diagram; the border matrix of this grid cannot be computed", case,
                             "a border matrix", {"raised": H["err"], "pairs": prs[:8]})
                ctx.branch("border_getter_raised_known_defect")
                continue
            ctx.fail("C04:getter_raises", f"{tag}: {GETTER[sel]} raised {H['err']} on a rotation grid with {N} >= 4 points", case)
            if sel == "adjacency":
                return
            continue
        H = np.asarray(H, dtype=float)
        if H.shape != (N, N):
            ctx.fail("C04:shape", f"{GETTER[sel]} has shape {list(H.shape)}, expected {[N, N]} (one row per rotation)", case)
            return
        if np.isnan(H).any():
            ctx.fail("C04:nan", f"{GETTER[sel]} contains NaN", case)
            return
        mats[sel] = H
    if "adjacency" not in mats:
        return
    have_b, have_d = "border_len" in mats, "center_distances" in mats
    # a float32 grid is a set of unit quaternions only up to 3e-8: the diagram of the points as given and of their
    # directions differ by that much, so values are determined to ~1e-7 only (patterns and symmetry stay exact)
    area_tol, dist_tol = (1e-6, 1e-6) if case.get("rep") == "f32" else (AREA_TOL, DIST_TOL)
    A = mats["adjacency"]
    Bm = mats.get("border_len", np.zeros((N, N)))
    D = mats.get("center_distances", np.zeros((N, N)))
    pat = A != 0
    # symmetric
    asym = np.argwhere(pat != pat.T)
    if len(asym):
        i, j = map(int, asym[0])
        ctx.fail("C04:adjacency_asymmetric", f"({i},{j}) adjacent = {bool(pat[i, j])} but ({j},{i}) adjacent = {bool(pat[j, i])}",
                 case, "symmetric", {"pairs": asym[:10].tolist()})
    if np.abs(D - D.T).max(initial=0) > 1e-12:
        i, j = map(int, np.unravel_index(np.argmax(np.abs(D - D.T)), D.shape))
        ctx.fail("C04:distance_asymmetric", f"distance ({i},{j}) = {D[i, j]!r} but ({j},{i}) = {D[j, i]!r}", case)
    if np.abs(Bm - Bm.T).max(initial=0) > BORDER_SYM_TOL:
        i, j = map(int, np.unravel_index(np.argmax(np.abs(Bm - Bm.T)), Bm.shape))
        ctx.fail("C04:border_asymmetric", f"border ({i},{j}) = {Bm[i, j]!r} but ({j},{i}) = {Bm[j, i]!r}", case)
    # empty diagonal
    for sel, M in mats.items():
        if np.any(np.diag(M) != 0):
            ctx.fail("C04:diagonal", f"{sel}: non-zero diagonal entry at {int(np.nonzero(np.diag(M))[0][0])}", case)
    # one sparsity pattern
    for sel in ("border_len", "center_distances"):
        if sel not in mats:
            continue
        dif = np.argwhere((mats[sel] != 0) != pat)
        if len(dif):
            i, j = map(int, dif[0])
            ctx.fail("C04:pattern_mismatch", f"{sel} and adjacency differ in pattern at ({i},{j}): {mats[sel][i, j]!r} vs {A[i, j]!r}",
                     case, None, {"positions": dif[:10].tolist()})
    # per pair: the geometry of the statement
    geo = out.get("geo") or geometry(out["P"], N, out)
    only_anti = both = amb = 0
    for (i, j), (t1, a1, t2, a2, d, dot) in geo["pairs"].items():
        if t1 is None or t2 is None or (T_NON < t1 < T_ADJ) or (T_NON < t2 < T_ADJ):
            amb += 1
            continue
        f1, f2 = t1 >= T_ADJ, t2 >= T_ADJ
        exp = f1 or f2
        for (x, y) in ((i, j), (j, i)):
            if bool(pat[x, y]) != exp:
                ctx.fail("C04:adjacency_wrong",
                         f"{tag}: rotations ({x},{y}) reported {'adjacent' if pat[x, y] else 'not adjacent'}; the regions of "
                         f"+-q_{i} and +-q_{j} {'share' if exp else 'do not share'} a face (LP margins direct {t1:.3g}, antipodal {t2:.3g})",
                         case, exp, bool(pat[x, y]))
                break
        else:
            if exp:
                for (x, y) in ((i, j), (j, i)):
                    if have_d and abs(D[x, y] - d) > dist_tol:
                        ctx.fail("C04:distance_wrong", f"{tag}: distance ({x},{y}) = {D[x, y]!r}, angle minimised over sign = {d!r}",
                                 case, d, float(D[x, y]))
                        break
                if f1 != f2:
                    ar = a1 if f1 else a2
                    only_anti += (not f1)
                    if i == 0 and not f1:
                        ctx.branch("pairs_with_index_0_adjacent_only_through_antipode")
                    if ar is not None and have_b:
                        for (x, y) in ((i, j), (j, i)):
                            if abs(Bm[x, y] - ar) > area_tol:
                                ctx.fail("C04:border_wrong",
                                         f"{tag}: border ({x},{y}) = {Bm[x, y]!r}; the single common face "
                                         f"({'direct' if f1 else 'through the antipode'}) has spherical area {ar!r}",
                                         case, ar, float(Bm[x, y]))
                                break
                else:
                    both += 1
                    if a1 is not None and a2 is not None and have_b:
                        for (x, y) in ((i, j), (j, i)):
                            if min(abs(Bm[x, y] - a1), abs(Bm[x, y] - a2)) > area_tol:
                                ctx.fail("C04:border_wrong_two_faces",
                                         f"{tag}: border ({x},{y}) = {Bm[x, y]!r} is the area of neither common face ({a1!r}, {a2!r})",
                                         case, [a1, a2], float(Bm[x, y]))
                                break
    if not geo["all_pairs"]:
        ctx.branch("pairs_checked_subset", len(geo["pairs"]))
    for i, t in enumerate(geo["self"]):
        if t is not None and t >= T_ADJ:
            ctx.note(f"{tag}: the region of q_{i} touches the region of -q_{i} (LP margin {t:.3g}); fold_diag_empty does not apply")
            ctx.branch("self_antipode_contact")
    ctx.branch("pairs_checked", len(geo["pairs"]))
    ctx.branch("pairs_adjacent_only_through_antipode", only_anti)
    ctx.branch("pairs_adjacent_through_two_faces", both)
    ctx.branch("pairs_ambiguous_excluded", amb)
    ctx.branch(f"{case['kind']}_N{'<=12' if N <= 12 else '<=60' if N <= 60 else '>60'}")
    if only_anti:
        ctx.nt((tag, hashlib.md5(out["P"].tobytes()).hexdigest()))
    if case["kind"] == "grid" and case["N"] in (8, 17) or (case["kind"] == "custom" and len(case.get("G", [])) == 5):
        ctx.sample({k: v for k, v in case.items() if k != "G"} | ({"G[0]": case["G"][0]} if "G" in case else {}))


def oracle_synth(ctx, case, out):
    """the statement restricted to the fold: for a symmetric, antipodally symmetric full-sphere matrix on a double cover the
    half matrix must be symmetric with empty diagonal and entry (i,j) = M[i,j] or M[i,j+N] (non-zero iff one of them is)"""
    if case["layout"] != "cover" or case["style"] != "symanti":
        return
    if not (case["only_upper"] and case["include_opp"]):
        return
    if "err" in out:
        ctx.fail("C04:fold_raises", f"fold raised {out['err']} on a legal full-sphere matrix", case)
        return
    M = np.asarray(out["M"], dtype=float)
    N = len(M) // 2
    H = np.asarray(out["H"], dtype=float)
    if H.shape != (N, N):
        ctx.fail("C04:fold_shape", f"half matrix has shape {list(H.shape)}, expected {[N, N]}", case)
        return
    if np.any(H != H.T):
        i, j = map(int, np.argwhere(H != H.T)[0])
        ctx.fail("C04:fold_asymmetric", f"folded ({i},{j}) = {H[i, j]!r} but ({j},{i}) = {H[j, i]!r} for a symmetric, antipodally "
                 "symmetric full-sphere matrix", case)
        return
    if np.any(np.diag(H) != 0):
        ctx.fail("C04:fold_diagonal", "non-zero diagonal after the fold", case)
        return
    D1, D2 = M[:N, :N], M[:N, N:]
    exp_pat = (D1 != 0) | (D2 != 0)
    if np.any((H != 0) != exp_pat):
        i, j = map(int, np.argwhere((H != 0) != exp_pat)[0])
        ctx.fail("C04:fold_adjacency", f"folded ({i},{j}) = {H[i, j]!r}; direct entry {D1[i, j]!r}, antipodal entry {D2[i, j]!r}", case)
        return
    single = (D1 != 0) != (D2 != 0)
    exp = np.where(D1 != 0, D1, D2)
    if np.any(H[single] != exp[single]):
        ctx.fail("C04:fold_value", "folded value differs from the single non-zero one of M[i,j], M[i,j+N]", case)
        return
    both = (D1 != 0) & (D2 != 0)
    if np.any((H[both] != D1[both]) & (H[both] != D2[both])):
        ctx.fail("C04:fold_value", "folded value is neither M[i,j] nor M[i,j+N]", case)
