"""C05 - spherical-shell position cells tile the ball (molgri.space.fullgrid.PositionGrid default mode,
molgri.space.translations.get_between_radii / get_increments)."""
from __future__ import annotations

import collections
import math
from fractions import Fraction

import numpy as np

import core

RULE = ("direction grids: every algorithm (ico, cube3D, randomS) x N (quick: 4..20 densely plus 25/42/43, thorough: up to 162 incl. "
        "partial-level N; plus randomS_240 and seed-chosen randomS N in 200..300 with 2-3 shells) x radial grids with T in 1..7 (T=1 only as the F5 corpus and a few generated), strictly increasing "
        "positive radii with unequal increments, written as '[..]' lists (decimal, repr-float, int, scientific; sorted, reversed "
        "or shuffled), 'linspace(a,b,n)' and 'range(a,b,step)' (ascending and descending); getters called in a random order, one "
        "of them twice; plus radial grids outside the quantifier for the correspondence only: rejected ones (duplicate, negative, "
        "empty) and accepted ones with a zero first radius (zero-valued entries are not stored); and direct "
        "scipy.sparse.diags cases (cut / broadcast / too short / out of bounds); every argument handed to the package in a "
        "seed-chosen representation (str / built str / np.str_ / str subclass; bool / np.bool_ / 0; int / np.int64 / np.int32 / "
        "np.uint16 / 0-d array; float / int / np.float64 / np.float32 / 0-d array; array / list / tuple / int dtype / strided / "
        "read-only; PositionGrid directly or through FullGrid), plus an exhaustive one-at-a-time sweep over two fixed cases.  Every entry of volumes, adjacency, borders, "
        "distances is compared.  A grid case is non-trivial when T>=2 and not all increments are equal; distinct by "
        "(direction grid, radial text).")
CHUNK = 40
GETTERS = ("volumes", "adjacency", "borders", "distances")
REL = 1e-9


# ----------------------------------------------------------------------------------------------------------------
# generators
# ----------------------------------------------------------------------------------------------------------------
def _frs(fr):
    return f"{fr.numerator}/{fr.denominator}"


def _dec(fr: Fraction, places=4) -> str:
    """exact decimal text of a fraction that has at most `places` decimals"""
    q = fr * 10 ** places
    assert q.denominator == 1
    s = f"{int(q):0{places + 1}d}"
    s = s[:-places] + "." + s[-places:]
    s = s.rstrip("0")
    return s + "0" if s.endswith(".") else s


def gen_radii(rng, T, places=4):
    """strictly increasing positive decimals (nm) with unequal increments"""
    while True:
        r = [Fraction(round(rng.uniform(0.05, 1.5) * 10 ** places), 10 ** places)]
        for _ in range(T - 1):
            inc = float(r[-1]) * rng.choice([rng.uniform(0.02, 0.2), rng.uniform(0.2, 1.2)])
            r.append(Fraction(round((float(r[-1]) + inc) * 10 ** places), 10 ** places))
        incs = [b - a for a, b in zip(r, r[1:])]
        if r[0] > 0 and all(i >= Fraction(1, 500) for i in incs) and (T < 3 or len(set(incs)) > 1):
            return r


def radial_text(rng, T):
    """-> (text, [Fraction nm in the order written / meant], form)"""
    form = rng.choice(["list_dec", "list_dec", "list_dec", "list_repr", "list_int", "list_sci", "linspace", "linspace", "range"])
    if T == 1 and form in ("range",):
        form = "list_dec"
    if form == "list_dec":
        r = gen_radii(rng, T)
        order = rng.choice(["sorted", "sorted", "reversed", "shuffled"])
        w = list(r)
        if order == "reversed":
            w.reverse()
        elif order == "shuffled":
            rng.shuffle(w)
        sep = rng.choice([", ", ",", " , ", ",  "])
        return "[" + sep.join(_dec(x) for x in w) + "]", w, form + "/" + order
    if form == "list_repr":
        while True:
            fl = sorted(rng.uniform(0.05, 3.0) for _ in range(T))
            if all(b - a > 0.004 * b for a, b in zip(fl, fl[1:])):
                break
        if rng.random() < 0.3:
            rng.shuffle(fl)
        return "[" + ", ".join(repr(x) for x in fl) + "]", [Fraction(x) for x in fl], form
    if form == "list_int":
        vals = sorted(rng.sample(range(1, 12), T))
        return "[" + ", ".join(str(v) for v in vals) + "]", [Fraction(v) for v in vals], form
    if form == "list_sci":
        r = gen_radii(rng, T, places=3)
        txt = []
        for x in r:
            m = x * 1000
            txt.append(f"{int(m)}e-3")
        return "[" + ", ".join(txt) + "]", r, form
    if form == "linspace":
        a = Fraction(rng.randint(5, 150), 100)
        b = a + Fraction(rng.randint(5, 200), 100)
        n = T
        if rng.random() < 0.3:
            a, b = b, a  # descending parameters (F9)
        vals = [a] if n == 1 else [a + (b - a) * i / (n - 1) for i in range(n)]
        sp = rng.choice(["", " "])
        return f"linspace({_dec(a)},{sp}{_dec(b)},{sp}{n})", vals, form + ("/desc" if a > b else "/asc")
    # range(a, b, step): stop placed half a step beyond the last element so that the float length decision is safe
    a = Fraction(rng.randint(5, 150), 100)
    step = Fraction(rng.randint(2, 60), 100)
    vals = [a + step * i for i in range(T)]
    stop = vals[-1] + step / 2
    if rng.random() < 0.25:
        # descending: start high, negative step
        hi = vals[-1]
        lo_stop = a - step / 2
        if lo_stop > 0:
            return f"range({_dec(hi)}, {_dec(lo_stop, 4)}, -{_dec(step)})", vals[::-1], form + "/desc"
    return f"range({_dec(a)}, {_dec(stop, 4)}, {_dec(step)})", vals, form + "/asc"


def _order(rng):
    o = list(GETTERS)
    rng.shuffle(o)
    o.insert(rng.randint(1, 4), rng.choice(GETTERS))
    return o


# ----------------------------------------------------------------------------------------------------------------
# argument representations: the same value handed to the package in another representation must give the same result
# ----------------------------------------------------------------------------------------------------------------
REP_FAMILIES = {
    "str": ("plain", "built", "npstr", "sub"),            # literal-like str / built at run time / np.str_ / str subclass
    "flag": ("bool", "npbool", "int"),                     # False / np.False_ / 0
    "int": ("int", "int64", "int32", "uint16", "arr0"),    # Python int / numpy scalars / 0-d integer array
    "real": ("float", "int", "float64", "float32", "arr0"),  # int only if integer-valued, float32 only if exactly representable
    "arr": ("f64", "list", "tuple", "intdtype", "noncontig", "readonly"),
    "via": ("PositionGrid", "FullGrid"),                   # constructed directly / reached through FullGrid's forwarding
}
# argument -> family.  o, t, flag: PositionGrid(o_grid_name, t_grid_name, position_grid_cartesian); b, factor: the two other
# FullGrid arguments; arr, incl0: get_between_radii(my_array, include_zero); gflag: only_upper / include_opposing_neighbours of
# the unit-sphere getters; pname, role: GridNameParser(name, role); alg, N: SphereGrid3DFactory.create(alg_name, N)
REP_ARGS = {"o": "str", "t": "str", "flag": "flag", "via": "via", "b": "str", "factor": "real", "arr": "arr", "incl0": "flag",
            "gflag": "flag", "pname": "str", "role": "str", "alg": "str", "N": "int"}
REP_PLAIN = {"str": "plain", "flag": "bool", "int": "int", "real": "float", "arr": "f64", "via": "PositionGrid"}


class _StrSub(str):
    """a str subclass instance (like a str-mixin Enum member)"""


def _mk_str(s, fam):
    if fam == "built":
        return "".join([c for c in s])
    if fam == "npstr":
        return np.str_(s)
    if fam == "sub":
        return _StrSub(s)
    return s


def _mk_flag(b, fam):
    return np.bool_(b) if fam == "npbool" else int(b) if fam == "int" else bool(b)


def _mk_int(n, fam):
    return {"int64": np.int64, "int32": np.int32, "uint16": np.uint16, "arr0": np.array}.get(fam, int)(n)


def _mk_real(x, fam, fallbacks):
    x = float(x)
    if fam == "int":
        if x == int(x):
            return int(x)
        fallbacks.append("real/int:not integer-valued")
        return x
    if fam == "float32":
        if float(np.float32(x)) == x:
            return np.float32(x)
        fallbacks.append("real/float32:not exactly representable")
        return np.float64(x)
    if fam == "float64":
        return np.float64(x)
    if fam == "arr0":
        return np.array(x)
    return x


def _mk_arr(a, fam, fallbacks):
    a = np.array(a, dtype=float)
    if fam == "list":
        return [float(x) for x in a]
    if fam == "tuple":
        return tuple(float(x) for x in a)
    if fam == "intdtype":
        if np.all(a == np.round(a)) and np.all(np.abs(a) < 2 ** 31):
            return a.astype(np.int32 if len(a) % 2 else np.int64)
        fallbacks.append("arr/intdtype:not integer-valued")
        return a
    if fam == "noncontig":
        big = np.zeros(2 * len(a))
        big[::2] = a
        return big[::2]
    if fam == "readonly":
        a.setflags(write=False)
        return a
    return a


def draw_reps(rng):
    reps = {arg: rng.choice(REP_FAMILIES[fam]) for arg, fam in REP_ARGS.items()}
    reps["via"] = "FullGrid" if rng.random() < 0.3 else "PositionGrid"
    return reps


def with_reps(rng, case):
    case["reps"] = draw_reps(rng)
    case["factor"] = rng.choice([2, 2, 1.5, 3, 0.5])
    return case


def representation_sweep():
    """quick tier: every family of every argument, one at a time (all others plain), over two small fixed cases"""
    fixed = [{"kind": "grid", "o": "ico_7", "t": "[0.1, 0.25, 0.3]", "radii_nm": ["1/10", "1/4", "3/10"], "factor": 1.5},
             # radii 1, 4, 9 angstrom: integer-valued with odd increments (half-integer boundaries), so integer dtypes are exercised
             {"kind": "grid", "o": "cube3D_8", "t": "[0.4, 0.1, 0.9]", "radii_nm": ["2/5", "1/10", "9/10"], "factor": 3}]
    for base in fixed:
        plain = {arg: REP_PLAIN[fam] for arg, fam in REP_ARGS.items()}
        yield dict(base, form="rep_sweep", order=list(GETTERS) + ["borders"], reps=dict(plain))
        for arg, fam in REP_ARGS.items():
            for f in REP_FAMILIES[fam]:
                if f == REP_PLAIN[fam]:
                    continue
                reps = dict(plain, **{arg: f})
                if arg in ("b", "factor"):
                    reps["via"] = "FullGrid"
                yield dict(base, form="rep_sweep", order=list(GETTERS) + ["borders"], reps=reps)


def grid_case(rng, alg, N, T):
    text, vals, form = radial_text(rng, T)
    return with_reps(rng, {"kind": "grid", "o": f"{alg}_{N}", "t": text, "radii_nm": [_frs(v) for v in vals], "form": form,
                           "order": _order(rng)})


def cases(ctx):
    rng = ctx.rng
    algs = ("ico", "cube3D", "randomS")
    # --- scipy.sparse.diags as modelled (cut, broadcast, short, out of bounds) -------------------------------
    for vals, off, n in [([1, 2, 3, 4], 2, 4), ([7], 1, 4), ([7, 1], 1, 4), ([], 4, 4), ([], 5, 4), ([1, 2, 3], 1, 4),
                         ([0, 2, 0, 5, 6, 7], 3, 6), ([1, 2], 3, 4), ([5], 3, 4), ([], 2, 4), ([4, 5, 6, 7, 8], 0, 3)]:
        for lower in (False, True):
            yield {"kind": "diags", "vals": [f"{v}/1" for v in vals], "off": off, "lower": lower, "n": n}
    for _ in range(20 if ctx.quick else 200):
        n = rng.randint(0, 9)
        off = rng.randint(0, 10)
        L = rng.choice([0, 1, 1, max(0, n - off), max(0, n - off), rng.randint(0, 12)])
        vals = [rng.choice([0, 1, 2, 3, -1]) for _ in range(L)]
        yield {"kind": "diags", "vals": [f"{v}/1" for v in vals], "off": off, "lower": rng.random() < 0.5, "n": n}
    # --- argument representations, exhaustively one at a time over two fixed cases ------------------------------------
    nsweep = 0
    for c in representation_sweep():
        nsweep += 1
        yield c
    ctx.extra_cov["representation_sweep"] = (f"{nsweep} cases: every family of every argument ({', '.join(f'{a}:{f}' for a, f in REP_ARGS.items())}) "
                                             "one at a time over ico_7 '[0.1, 0.25, 0.3]' and cube3D_8 '[0.4, 0.1, 0.9]'")
    # --- fixed small set: every algorithm, small N, hand-written radial texts (run for every seed) --------------
    hand = ["[0.1, 0.25, 0.3]", "linspace(0.1,0.5,4)", "[0.3, 0.1, 0.25, 0.7]", "range(0.2, 0.75, 0.1)", "[1, 2]", "[0.5, 0.6]"]
    hand_vals = [[Fraction(1, 10), Fraction(1, 4), Fraction(3, 10)],
                 [Fraction(1, 10) + Fraction(4, 10) * i / 3 for i in range(4)],
                 [Fraction(3, 10), Fraction(1, 10), Fraction(1, 4), Fraction(7, 10)],
                 [Fraction(2, 10) + Fraction(1, 10) * i for i in range(6)],
                 [Fraction(1), Fraction(2)], [Fraction(1, 2), Fraction(6, 10)]]
    for alg in algs:
        for N in (4, 7, 12):
            for t, v in zip(hand, hand_vals):
                yield with_reps(rng, {"kind": "grid", "o": f"{alg}_{N}", "t": t, "radii_nm": [_frs(x) for x in v], "form": "hand",
                                      "order": list(GETTERS) + ["distances"]})
    # --- radial grids outside the property's quantifier: correspondence only --------------------------------------
    # rejected by the code (duplicate, negative, empty) ...
    for t, v in [("[0.1, 0.1, 0.3]", [Fraction(1, 10)] * 2 + [Fraction(3, 10)]), ("[-0.1, 0.2]", [Fraction(-1, 10), Fraction(2, 10)]),
                 ("[0, 0, 0.2]", [0, 0, Fraction(2, 10)]), ("[]", [])]:
        yield with_reps(rng, {"kind": "grid", "o": "ico_6", "t": t, "radii_nm": [_frs(Fraction(x)) for x in v], "form": "invalid",
                              "order": list(GETTERS)})
    # ... and accepted although not positive: a zero first radius (fix cae935f); zero-valued entries are not stored
    for o in ("ico_6", "cube3D_9", "randomS_5"):
        for t, v in [("[0, 0.1, 0.3]", [0, Fraction(1, 10), Fraction(3, 10)]), ("[0]", [0]), ("range(3)", [0, 1, 2]),
                     ("[0.25, 0]", [Fraction(1, 4), 0]), ("linspace(0, 0.5, 4)", [Fraction(i, 6) for i in range(4)])]:
            yield with_reps(rng, {"kind": "grid", "o": o, "t": t, "radii_nm": [_frs(Fraction(x)) for x in v],
                                  "form": "zero_first", "order": list(GETTERS) + ["borders"]})
    # --- generated ---------------------------------------------------------------------------------------------
    if ctx.quick:
        Ns = list(range(4, 21)) + [25, 42, 43]
        n_cases = 150
        big = []
    else:
        Ns = list(range(4, 45)) + [50, 60, 62, 72, 80, 92, 98, 100, 120, 128, 150, 162]
        n_cases = 800
        big = [(alg, N) for alg in algs for N in (100, 128, 162)]
    for i in range(n_cases):
        alg = algs[i % 3]
        N = rng.choice(Ns)
        if not ctx.quick and N > 60 and rng.random() < 0.6:
            N = rng.choice(Ns[:41])
        T = rng.choice([2, 2, 3, 3, 3, 4, 4, 5, 6, 7] if N <= 60 else [2, 3, 4, 5, 6])
        if rng.random() < 0.04:
            T = 1
        c = grid_case(rng, alg, N, T)
        if rng.random() < 0.04 and c["form"].startswith("list_dec"):
            # same grid with an additional radius 0 in front (accepted by the code, outside the property's quantifier)
            c["t"] = "[0, " + c["t"][1:]
            c["radii_nm"] = ["0/1"] + c["radii_nm"]
            c["form"] = "zero_first"
        yield c
        if ctx.time_left() < 0:
            return
    for alg, N in big:
        yield grid_case(rng, alg, N, rng.choice([3, 4, 6]))
    # --- large random direction grids: many short Voronoi edges (randomS_240 has one of arc length 1.66e-5); few shells ---
    yield grid_case(rng, "randomS", 240, rng.choice([2, 3]))
    for _ in range(1 if ctx.quick else 6):
        yield grid_case(rng, "randomS", rng.randint(200, 300), rng.choice([2, 3]))


# ----------------------------------------------------------------------------------------------------------------
# implementation
# ----------------------------------------------------------------------------------------------------------------
def _coo(m):
    m = m.tocoo()
    return {"shape": list(m.shape), "row": m.row.tolist(), "col": m.col.tolist(), "data": [float(x) for x in m.data]}


def _dense_triples(a):
    a = np.asarray(a)
    ii, jj = np.nonzero(a)
    return [[int(i), int(j), float(a[i, j])] for i, j in zip(ii, jj)]


_RECENT = collections.deque(maxlen=6)   # the last grid cases run in this process (for replays of history-dependent failures)
_FIRST_OF_SHAPE = {}                      # (direction grid size, number of radii) -> first case of that shape


def _bare(case):
    return {k: case[k] for k in ("kind", "o", "t", "radii_nm", "order", "reps", "factor") if k in case}


def impl(case):
    if case["kind"] == "grid" and case.get("history"):
        # replay of a stored failing input: first re-run what ran before it in the failing process
        for h in case["history"]:
            _impl(h)
    out = _impl(case)
    if case["kind"] == "grid":
        shape = (case["o"].split("_")[-1], len(case["radii_nm"]))
        hist = [c for c in ([_FIRST_OF_SHAPE[shape]] if shape in _FIRST_OF_SHAPE else []) if c not in _RECENT] + list(_RECENT)
        out["history"] = hist
        _FIRST_OF_SHAPE.setdefault(shape, _bare(case))
        _RECENT.append(_bare(case))
    return out


def _impl(case):
    if case["kind"] == "diags":
        from scipy.sparse import diags
        vals = [float(Fraction(v)) for v in case["vals"]]
        try:
            m = diags(vals, offsets=-case["off"] if case["lower"] else case["off"], shape=(case["n"], case["n"]), dtype=float,
                      format="coo")
            m = m.tocsr().tocoo()
            return {"m": sorted([int(i), int(j), float(v)] for i, j, v in zip(m.row, m.col, m.data) if v != 0)}
        except Exception as e:
            return {"err": core.errname(e)}
    from molgri.space.fullgrid import PositionGrid, FullGrid
    from molgri.space import translations
    out = {}
    reps = case.get("reps")
    fb = []
    try:
        with core.quiet():
            if reps is None:        # stored corpus / replays of older inputs: the plain call
                pg = PositionGrid(case["o"], case["t"])
            else:
                o_arg, t_arg = _mk_str(case["o"], reps["o"]), _mk_str(case["t"], reps["t"])
                flag = _mk_flag(False, reps["flag"])
                if reps["via"] == "FullGrid":
                    # the position grid reached through FullGrid (getters are forwarded by FullGrid.__getattr__)
                    pg = FullGrid(_mk_str("zero", reps["b"]), o_arg, t_arg, factor=_mk_real(case.get("factor", 2), reps["factor"], fb),
                                  position_grid_cartesian=flag)
                else:
                    pg = PositionGrid(o_arg, t_arg, position_grid_cartesian=flag)
    except Exception as e:
        return {"err": core.errname(e)}
    reps = reps or {arg: REP_PLAIN[fam] for arg, fam in REP_ARGS.items()}
    gflag = _mk_flag(False, reps["gflag"])
    with core.quiet():
        og = pg.get_o_grid()
        out["n_o"] = int(og.get_N())
        out["radii"] = [float(x) for x in pg.get_radii()]
        out["points"] = np.array(og.get_grid_as_array(only_upper=gflag), dtype=float).tolist()
        out["area"] = [float(x) for x in og.get_spherical_voronoi().get_voronoi_volumes()]
        out["adj"] = _dense_triples(og.get_voronoi_adjacency(only_upper=gflag, include_opposing_neighbours=gflag).toarray())
        out["arc"] = _dense_triples(og.get_cell_borders().toarray())
        out["ang"] = _dense_triples(og.get_center_distances(only_upper=gflag, include_opposing_neighbours=gflag).toarray())
        try:
            out["between_fn"] = [float(x) for x in translations.get_between_radii(_mk_arr(pg.get_radii(), reps["arr"], fb),
                                                                                    include_zero=_mk_flag(False, reps["incl0"]))]
        except Exception as e:
            out["between_fn"] = {"err": core.errname(e)}
        # the same direction grid named / requested in other representations: name parser with a role, factory with alg and N
        alg, _, nn = case["o"].rpartition("_")
        if "reps" in case and nn.isdigit():
            from molgri.naming import GridNameParser
            from molgri.space.rotobj import SphereGrid3DFactory
            try:
                gp = GridNameParser(_mk_str(case["o"], reps["pname"]), _mk_str("o", reps["role"]))
                out["parsed"] = [str(gp.get_alg()), int(gp.get_N())]
            except Exception as e:
                out["parsed"] = {"err": core.errname(e)}
            try:
                g2 = SphereGrid3DFactory.create(alg_name=_mk_str(alg, reps["alg"]), N=_mk_int(int(nn), reps["N"]))
                diff = []
                if np.array(g2.get_grid_as_array(only_upper=False), dtype=float).tolist() != out["points"]:
                    diff.append("points")
                if type(g2.get_spherical_voronoi()).__name__ != type(og.get_spherical_voronoi()).__name__:
                    diff.append(f"tessellation object {type(g2.get_spherical_voronoi()).__name__} instead of "
                                f"{type(og.get_spherical_voronoi()).__name__}")
                if [float(x) for x in g2.get_spherical_voronoi().get_voronoi_volumes()] != out["area"]:
                    diff.append("cell areas")
                if _dense_triples(g2.get_voronoi_adjacency(only_upper=False, include_opposing_neighbours=False).toarray()) != out["adj"]:
                    diff.append("adjacency")
                if _dense_triples(g2.get_cell_borders().toarray()) != out["arc"]:
                    diff.append("border arcs")
                out["g2"] = diff
            except Exception as e:
                out["g2"] = {"err": core.errname(e)}
    out["rep_fallbacks"] = fb
    fn = {"volumes": pg.get_all_position_volumes, "adjacency": pg.get_adjacency_of_position_grid,
          "borders": pg.get_borders_of_position_grid, "distances": pg.get_distances_of_position_grid}
    out["repeat_differs"] = None
    for g in case["order"]:
        try:
            with core.quiet():
                v = fn[g]()
            v = [float(x) for x in v] if g == "volumes" else _coo(v)
        except Exception as e:
            v = {"err": core.errname(e)}
        if g in out:
            if out[g] != v and out["repeat_differs"] is None:
                out["repeat_differs"] = g
        else:
            out[g] = v
    with core.quiet():
        out["radii_after"] = [float(x) for x in pg.get_radii()]
        out["area_after"] = [float(x) for x in og.get_spherical_voronoi().get_voronoi_volumes()]
    return out


# ----------------------------------------------------------------------------------------------------------------
# model
# ----------------------------------------------------------------------------------------------------------------
def _tr(ts):
    return [[i, j, core.rat(v)] for i, j, v in ts]


def model_ops(case, out):
    if case["kind"] == "diags":
        return [{"op": "diags", "vals": case["vals"], "off": case["off"], "lower": case["lower"], "n": case["n"]}]
    if "n_o" not in out:  # constructor raised: only the parser part of the model is asked
        return [{"op": "posgrid", "n_o": 0, "radii_nm": case["radii_nm"], "area": [], "adj": [], "arc": [], "ang": []}]
    return [{"op": "posgrid", "n_o": out["n_o"], "radii_nm": case["radii_nm"], "area": [core.rat(a) for a in out["area"]],
             "adj": _tr(out["adj"]), "arc": _tr(out["arc"]), "ang": _tr(out["ang"])}]


def _cmp_list(ctx, what, case, got, want, rel=REL):
    """got: floats of the implementation, want: list of 'num/den' of the model"""
    if len(got) != len(want):
        ctx.corr(what + "/length", case, len(got), len(want))
        return False
    for i, (g, w) in enumerate(zip(got, want)):
        wf = float(core.unrat(w))
        if not core.close(g, wf, rel=rel, abs_=0):
            ctx.corr(what, case, {"index": i, "value": g}, {"index": i, "value": w, "float": wf})
            return False
    return True


def _cmp_matrix(ctx, what, case, got, want, n):
    """got: raw coo of the implementation; want: model triples (canonical).  Stored pattern and values."""
    if got["shape"] != [n, n]:
        ctx.corr(what + "/shape", case, got["shape"], [n, n])
        return False
    g = {}
    for i, j, v in zip(got["row"], got["col"], got["data"]):
        if (i, j) in g:
            ctx.corr(what + "/duplicate_entry", case, [i, j], None)
            return False
        g[(i, j)] = v
    w = {(i, j): v for i, j, v in want}
    if g.keys() != w.keys():
        only_impl = sorted(set(g) - set(w))[:5]
        only_model = sorted(set(w) - set(g))[:5]
        ctx.corr(what + "/pattern", case, {"only_in_implementation": [[i, j, g[(i, j)]] for i, j in only_impl]},
                 {"only_in_model": [[i, j, w[(i, j)]] for i, j in only_model]})
        return False
    for key, v in g.items():
        wf = float(core.unrat(w[key]))
        if not core.close(v, wf, rel=REL, abs_=0):
            ctx.corr(what + "/value", case, {"entry": list(key), "value": v}, {"entry": list(key), "value": w[key], "float": wf})
            return False
    ctx.branch("matrix_entries_compared", len(g))
    return True


def compare(ctx, case, out, mouts):
    m = mouts[0]
    if case["kind"] == "diags":
        ctx.branch("diags_case")
        if "err" in out or "err" in m:
            if out.get("err") != m.get("err"):
                ctx.corr("diags/outcome", case, out, m)
            ctx.branch("diags_error_case")
            return
        mm = sorted([i, j, float(core.unrat(v))] for i, j, v in m["ok"])
        if mm != out["m"]:
            ctx.corr("diags/entries", case, out["m"], mm)
        L = case["n"] - case["off"]
        ctx.branch("diags_cut" if len(case["vals"]) > L else "diags_broadcast" if len(case["vals"]) == 1 and L != 1 else "diags_exact")
        if out["m"]:
            ctx.nt(("diags", tuple(case["vals"]), case["off"], case["lower"], case["n"]))
        return
    # ---- grid case ----
    if "err" in out:  # constructor raised
        ctx.branch("constructor_" + out["err"])
        if m.get("err") != out["err"]:
            ctx.corr("constructor/outcome", case, out, m)
        return
    if "err" in m:
        ctx.corr("constructor/outcome", case, "ok", m)
        return
    mo = m["ok"]
    n_o = out["n_o"]
    T = len(out["radii"])
    n = n_o * T
    ok = _cmp_list(ctx, "radii", case, out["radii"], mo["radii"], rel=1e-13)
    # the five observables, each ok or the same exception
    pairs = [("between_fn", "between"), ("volumes", "volumes"), ("adjacency", "adjacency"), ("borders", "borders"),
             ("distances", "distances")]
    for ikey, mkey in pairs:
        iv, mv = out[ikey], mo[mkey]
        ierr = iv.get("err") if isinstance(iv, dict) else None
        merr = mv.get("err")
        if ierr or merr:
            ctx.branch(f"{mkey}_{ierr or 'ok'}")
            if ierr != merr:
                ctx.corr(mkey + "/outcome", case, iv if ierr else "ok", mv if merr else "ok")
                ok = False
            continue
        if mkey in ("between", "volumes"):
            ok &= _cmp_list(ctx, mkey, case, iv, mv["ok"])
        else:
            ok &= _cmp_matrix(ctx, mkey, case, iv, mv["ok"], n)
    ctx.branch(f"T={T}")
    ctx.branch("n_o<=20" if n_o <= 20 else "n_o<=60" if n_o <= 60 else "n_o>60")
    ctx.branch("alg=" + case["o"].split("_")[0])
    ctx.branch("form=" + case.get("form", "?"))
    if T >= 2:
        incs = {round(b - a, 9) for a, b in zip(out["radii"], out["radii"][1:])}
        if len(incs) > 1 or T == 2:
            ctx.nt((case["o"], case["t"]))
        if len(incs) > 1:
            ctx.branch("unequal_increments")
    if T == 3 and n_o in (5, 7, 13):
        ctx.sample({k: case[k] for k in ("kind", "o", "t", "order")})


# ----------------------------------------------------------------------------------------------------------------
# oracle: the statement of C05 evaluated on the implementation
# ----------------------------------------------------------------------------------------------------------------
def expected_radii(case):
    """the radial grid the text means: ascending, in angstrom (exact)"""
    return sorted(Fraction(x) * 10 for x in case["radii_nm"])


def shell_boundaries(r):
    """R_1..R_T of the statement (exact)"""
    T = len(r)
    if T == 1:
        return [2 * r[0]]
    return [(r[k] + r[k + 1]) / 2 for k in range(T - 1)] + [r[-1] + (r[-1] - r[-2]) / 2]


ARC_MARGIN = 1e-9   # the independent oracle leaves a pair undecided when its common boundary arc is within this of zero
_TRUTH = {}


def sphere_truth(name, pts):
    """Independent notion of "adjacent on the sphere", from the direction points alone (harness/props/c03.true_arcs: for
    every ordered pair the length of the common boundary arc of the two nearest-neighbour regions; handles the degenerate
    corners of the polytope grids, where four or more cells meet in a point and the arc is 0).
    -> (arc length matrix, adjacent, undecided)"""
    key = (name, pts.shape, hash(pts.tobytes()))
    if key not in _TRUTH:
        from props.c03 import true_arcs
        L = true_arcs(pts)[0]
        L = np.minimum(L, L.T)   # the two ordered evaluations agree to ~1e-13; be conservative
        off = ~np.eye(len(pts), dtype=bool)
        und = (np.abs(L) <= ARC_MARGIN) & off
        if len(_TRUTH) > 64:
            _TRUTH.clear()
        _TRUTH[key] = (L, (L > ARC_MARGIN) & off, und)
    return _TRUTH[key]



def _dense_of(coo, n):
    a = np.zeros((n, n))
    np.add.at(a, (np.array(coo["row"], dtype=int), np.array(coo["col"], dtype=int)), np.array(coo["data"], dtype=float))
    return a


def _first_bad(got, want):
    bad = np.abs(got - want) > REL * np.maximum(np.abs(got), np.abs(want))
    if not bad.any():
        return None
    p, q = np.argwhere(bad)[0]
    return int(p), int(q)


def oracle(ctx, case, out):
    if case["kind"] != "grid":
        return
    ci = {k: case[k] for k in ("kind", "o", "t", "radii_nm", "order", "reps", "factor") if k in case}
    ci["history"] = out.get("history", [])   # what ran before in this process; re-run first by --replay
    # --- the direction grid must not depend on how its name / role / algorithm / N are represented -------------------------
    if "reps" in case:
        rp = case["reps"]
        for arg, fam in rp.items():
            ctx.branch(f"rep:{arg}={fam}")
        for f in out.get("rep_fallbacks", []):
            ctx.branch("rep_fallback:" + f)
        alg, _, nn = case["o"].rpartition("_")
        if "parsed" in out and out["parsed"] != [alg, int(nn)]:
            ctx.fail("C05:name_role_representation", f"GridNameParser({case['o']!r} as {rp['pname']}, role 'o' as {rp['role']}) gives "
                     f"{out['parsed']} instead of {[alg, int(nn)]}", ci, [alg, int(nn)], out["parsed"])
            return
        if out.get("g2"):
            ctx.fail("C05:direction_grid_representation", f"SphereGrid3DFactory.create(alg_name={alg!r} as {rp['alg']}, N={nn} as "
                     f"{rp['N']}) is not the direction grid of PositionGrid({case['o']!r}, ...): differs in {out['g2']}", ci,
                     "identical direction grid", out["g2"])
            return
    r = expected_radii(case)
    valid = len(r) >= 1 and r[0] > 0 and all(a < b for a, b in zip(r, r[1:]))
    if not valid:
        zero_first = len(r) >= 1 and r[0] == 0 and all(a < b for a, b in zip(r, r[1:]))
        ctx.branch("excluded_zero_first_radius_outside_quantifier" if zero_first else "excluded_invalid_radial_grid")
        return
    if "err" in out:
        ctx.fail("C05:exception", f"constructing the position grid ({case['o']!r}, {case['t']!r}, representations "
                 f"{case.get('reps', 'plain')}) raised {out['err']}", ci)
        return
    for g in GETTERS:
        if isinstance(out[g], dict) and "err" in out[g]:
            ctx.fail("C05:exception", f"{g} raised {out[g]['err']} for a strictly increasing positive radial grid", ci)
            return
    T = len(r)
    rf = np.array([float(x) for x in r])
    if len(out["radii"]) != T or not np.allclose(out["radii"], rf, rtol=1e-13, atol=0):
        ctx.fail("C05:radii", "radii of the grid are not the ascending radii the text means (x10 angstrom)", ci,
                 rf.tolist(), out["radii"])
        return
    if out["radii_after"] != out["radii"] or out["area_after"] != out["area"]:
        ctx.fail("C05:state_changed", "calling the getters changed the radii / unit-sphere areas of the grid", ci)
        return
    if out["repeat_differs"]:
        ctx.fail("C05:repeat", f"second call of {out['repeat_differs']} returned something else than the first", ci)
        return
    R = shell_boundaries(r)
    Ra = np.array([float(x) for x in R])           # boundary above shell k
    Rb = np.array([0.0] + [float(x) for x in R[:-1]])  # boundary below
    bf = out["between_fn"]
    if isinstance(bf, dict) or len(bf) != T or not np.allclose(bf, Ra, rtol=REL, atol=0):
        ctx.fail("C05:between_radii", "get_between_radii is not (midpoints ..., last + half the last increment) / 2r", ci,
                 Ra.tolist(), bf)
        return
    n_o = out["n_o"]
    n = n_o * T
    area = np.array(out["area"])
    pts = np.array(out["points"], dtype=float)

    def dn(ts):
        a = np.zeros((n_o, n_o))
        for i, j, v in ts:
            a[i, j] = v
        return a
    adjS, arc, ang = dn(out["adj"]) != 0, dn(out["arc"]), dn(out["ang"])
    # unit-sphere inputs: sanity the statement relies on (area of the sphere, symmetric neighbour relation, angle = arccos of dot)
    if len(area) != n_o or abs(area.sum() - 4 * math.pi) > 1e-9:
        ctx.fail("C05:sphere_area", f"unit-sphere cell areas sum to {area.sum()} instead of 4*pi", ci)
        return
    if (adjS != adjS.T).any() or adjS.diagonal().any():
        ctx.fail("C05:sphere_adjacency", "unit-sphere adjacency is not symmetric / has a diagonal entry", ci)
        return
    dots = np.clip(pts @ pts.T, -1, 1)
    ang_true = np.arccos(dots)
    if np.abs(np.where(adjS, ang - ang_true, 0)).max(initial=0) > 1e-7:
        ctx.fail("C05:sphere_angle", "unit-sphere centre distance of neighbours is not the angle between the two directions", ci)
        return
    degenerate = adjS & ((arc == 0) | (ang == 0))
    if degenerate.any() or ((arc != 0) & ~adjS).any() or ((ang != 0) & ~adjS).any():
        # the statement's "exactly when adjacent" presupposes positive arcs/angles on exactly the adjacent pairs (C03's subject)
        ctx.branch("excluded_degenerate_unit_sphere_input")
        return
    # independent of every molgri getter: which directions are adjacent on the sphere, and the arc they share
    Ltrue, adj_true, undecided = sphere_truth(case["o"], pts)
    if undecided.any():
        ctx.branch("excluded_direction_pairs_with_arc_within_1e-9_of_zero", int(undecided.sum()))
    kk = np.arange(n) // n_o
    oo = np.arange(n) % n_o
    # --- volumes -------------------------------------------------------------------------------------------------
    V = np.array(out["volumes"])
    EV = area[oo] * (Ra[kk] ** 3 - Rb[kk] ** 3) / 3
    if V.shape != EV.shape:
        ctx.fail("C05:volume", f"{len(V)} volumes for {n} cells", ci)
        return
    bad = np.abs(V - EV) > REL * np.abs(EV)
    if bad.any():
        p = int(np.argwhere(bad)[0][0])
        ctx.fail("C05:volume", f"cell {p} (shell {p // n_o}, direction {p % n_o}): volume is not area*(R_k^3-R_(k-1)^3)/3", ci,
                 float(EV[p]), float(V[p]))
        return
    for k in range(T):
        s = V[k * n_o:(k + 1) * n_o].sum()
        e = 4 * math.pi / 3 * (Ra[k] ** 3 - Rb[k] ** 3)
        if abs(s - e) > REL * e:
            ctx.fail("C05:shell_volume_sum", f"volumes of shell {k} sum to {s}, the shell has volume {e}", ci, e, float(s))
            return
    tot = 4 * math.pi / 3 * Ra[-1] ** 3
    if abs(V.sum() - tot) > REL * tot:
        ctx.fail("C05:total_volume", "all volumes do not sum to 4/3 pi R_T^3", ci, tot, float(V.sum()))
        return
    # --- pairs ---------------------------------------------------------------------------------------------------
    for g in ("adjacency", "borders", "distances"):
        if out[g]["shape"] != [n, n]:
            ctx.fail("C05:shape", f"{g} has shape {out[g]['shape']} for {n} cells", ci)
            return
        if any(v == 0 for v in out[g]["data"]):
            ctx.fail("C05:stored_zero", f"{g} stores an explicit zero (a neighbour pair that is none)", ci)
            return
    A = _dense_of(out["adjacency"], n) != 0
    B = _dense_of(out["borders"], n)
    D = _dense_of(out["distances"], n)
    same_dir = oo[:, None] == oo[None, :]
    up = same_dir & (kk[None, :] == kk[:, None] + 1)          # q is radially above p
    same_shell = (kk[:, None] == kk[None, :]) & adjS[oo[:, None], oo[None, :]]
    EA = up | up.T | same_shell
    EB = np.where(up, (area[oo] * Ra[kk] ** 2)[:, None], 0.0)
    EB = EB + EB.T + np.where(same_shell, arc[oo[:, None], oo[None, :]] * ((Ra[kk] ** 2 - Rb[kk] ** 2) / 2)[:, None], 0.0)
    inc = np.append(np.diff(rf), 0.0)
    ED = np.where(up, inc[kk][:, None], 0.0)
    ED = ED + ED.T + np.where(same_shell, ang[oo[:, None], oo[None, :]] * rf[kk][:, None], 0.0)

    def where(p, q):
        return f"cells {p} (shell {p // n_o}, direction {p % n_o}) and {q} (shell {q // n_o}, direction {q % n_o})"
    # "exactly when o and o' are adjacent on the sphere ... no other neighbours", against the independent notion of adjacency
    same_k = kk[:, None] == kk[None, :]
    decided = ~(same_k & undecided[oo[:, None], oo[None, :]])
    EA_true = up | up.T | (same_k & adj_true[oo[:, None], oo[None, :]])
    for gname, G in (("adjacency", A), ("borders", B != 0), ("distances", D != 0)):
        wrong = (G != EA_true) & decided
        if wrong.any():
            p, q = (int(x) for x in np.argwhere(wrong)[0])
            o1, o2 = p % n_o, q % n_o
            if EA_true[p, q]:
                what = (f"{where(p, q)} are adjacent on the sphere (their cells share a boundary arc of length "
                        f"{Ltrue[o1, o2]:.6e}, computed from the direction points) but are NOT neighbours in {gname}")
            else:
                what = f"{where(p, q)} are neighbours in {gname} but not adjacent on the sphere (nor radially)"
            ctx.fail("C05:neighbours_vs_sphere", what + f"; {int(wrong.sum())} wrong entries", ci, bool(EA_true[p, q]), bool(G[p, q]))
            return
    badarc = adjS & adj_true & (np.abs(arc - Ltrue) > 1e-8)
    if badarc.any():
        o1, o2 = (int(x) for x in np.argwhere(badarc)[0])
        ctx.fail("C05:sphere_arc", f"directions {o1} and {o2}: the unit-sphere border arc differs from the length of the common "
                 "boundary of the two cells computed from the direction points", ci, float(Ltrue[o1, o2]), float(arc[o1, o2]))
        return
    if (A != EA).any():
        p, q = (int(x) for x in np.argwhere(A != EA)[0])
        ctx.fail("C05:adjacency", f"{where(p, q)}: adjacency {bool(A[p, q])}, but the statement says {bool(EA[p, q])}", ci,
                 bool(EA[p, q]), bool(A[p, q]))
        return
    fb = _first_bad(B, EB)
    if fb:
        p, q = fb
        ctx.fail("C05:border", f"{where(p, q)}: shared face area differs from the statement", ci, float(EB[p, q]), float(B[p, q]))
        return
    fb = _first_bad(D, ED)
    if fb:
        p, q = fb
        ctx.fail("C05:distance", f"{where(p, q)}: centre distance differs from the statement", ci, float(ED[p, q]), float(D[p, q]))
        return
    for k in range(T - 1):
        idx = np.arange(k * n_o, (k + 1) * n_o)
        s = B[idx, idx + n_o].sum()
        e = 4 * math.pi * Ra[k] ** 2
        if abs(s - e) > REL * e:
            ctx.fail("C05:radial_face_sum", f"radial faces above shell {k} sum to {s}, the sphere of radius R_k has {e}", ci, e, float(s))
            return
    ctx.branch("oracle_checked")
    ctx.branch("oracle_cells", n)
    ctx.branch("oracle_cell_pairs", 3 * n * n)


# ----------------------------------------------------------------------------------------------------------------
# driver loop: same C + S steps as the generic loop of run.py, but the model batches are evaluated by several
# concurrent driver processes (the Lean interpreter needs ~15 s for a 972-cell grid) while the implementation
# keeps running in this process, strictly sequentially (so that state leaking from one grid into the next is seen)
# ----------------------------------------------------------------------------------------------------------------
def _weight(case, out):
    if case["kind"] != "grid" or "n_o" not in out:
        return 1
    return max(1, out["n_o"] * len(out["radii"]))


def _check(ctx, chunk, spans, outs):
    import traceback
    for (case, out), (a, b) in zip(chunk, spans):
        try:
            compare(ctx, case, out, outs[a:b])
            oracle(ctx, case, out)
        except core.HarnessError:
            raise
        except Exception:
            raise core.HarnessError(f"compare/oracle crashed on {case}: {traceback.format_exc()}")


def _process(ctx, case_iter, workers):
    from concurrent.futures import ThreadPoolExecutor
    pending = []
    chunk, weight = [], 0

    with ThreadPoolExecutor(max_workers=workers) as pool:
        def submit():
            nonlocal chunk, weight
            if not chunk:
                return
            ops, spans = [], []
            for case, out in chunk:
                o = model_ops(case, out)
                spans.append((len(ops), len(ops) + len(o)))
                ops.extend(o)
            pending.append((chunk, spans, pool.submit(ctx.model, ops)))
            chunk, weight = [], 0

        def drain(block):
            while pending and (block or pending[0][2].done() or len(pending) > 3 * workers):
                ch, spans, fut = pending.pop(0)
                _check(ctx, ch, spans, fut.result())

        for case in case_iter:
            ctx.count()
            out = impl(case)
            chunk.append((case, out))
            weight += _weight(case, out)
            if len(chunk) >= CHUNK or weight >= 1500:
                submit()
                drain(False)
            if ctx.time_left() < 0:
                ctx.note("time budget reached; generation stopped early")
                break
        submit()
        drain(True)


def run(ctx):
    ctx.note("tolerances: radii 1e-13 relative (float x10 / linspace / arange rounding), every other value 1e-9 relative to the "
             "exact model value resp. the statement's formula; patterns (stored entries) compared exactly")
    ctx.note("excluded from the oracle (counted in input_distribution): radial grids outside the quantifier (rejected: duplicate/"
             "negative/empty; accepted: zero first radius; only the correspondence with the model is checked) and direction grids whose unit-sphere arcs/angles are "
             "not non-zero on exactly the adjacent pairs (none in the explored range)")
    ctx.note("'adjacent on the sphere' in the oracle is independent of molgri: length of the common boundary arc of the two nearest-"
             "neighbour regions computed from the direction points (props.c03.true_arcs); pairs whose arc is within 1e-9 of zero "
             "(degenerate corners of polytope grids) are left undecided and counted; unit-sphere arcs are compared with it to 1e-8")
    ctx.note("argument representations (drawn per case; exhaustive one-at-a-time sweep over two fixed cases): established on the "
             "unchanged tree that str / run-time-built str / np.str_ / str subclass (names, radial texts, role, algorithm), bool / "
             "np.bool_ / 0 (flags), int / np.int64 / np.int32 / np.uint16 / 0-d integer array (N), float / int / np.float64 / "
             "np.float32 / 0-d array (factor), float64 / list / tuple / int32-int64 dtype / non-contiguous / read-only arrays "
             "(get_between_radii) are all accepted and give results identical to the plain call; the expected values never depend on "
             "the representation.  Left out: N as Python float / np.float64 (TypeError on the unchanged tree: slice indices / "
             "'cannot be interpreted as an integer'); integer dtype arrays and int factor only for integer-valued numbers, float32 "
             "only when exactly representable (otherwise float64 is used and counted as rep_fallback)")
    ctx.note("range(a,b,step) texts are generated with the stop half a step beyond the last element (np.arange length decisions "
             "within one ulp of an integer quotient are C16's model boundary)")

    if ctx.budget_s is None:
        ctx.budget_s = 90 if ctx.quick else 900   # generation stops (with a note in the evidence) when the machine is too slow

    def all_cases():
        for f in ctx.open_findings + ctx.fixed_findings:
            yield from f.get("cases", [])
        yield from cases(ctx)
    _process(ctx, all_cases(), workers=3 if ctx.quick else 8)


def replay(ctx, stored):
    _process(ctx, iter(stored), workers=1)
