"""C06 - Cartesian position mode reports the Euclidean Voronoi cell geometry
(molgri.space.fullgrid.PositionGrid(..., position_grid_cartesian=True); molgri.space.utils.order_points / get_polygon_area).

Two kinds of cases
  poly : one polygon -> order_points + get_polygon_area          (model ops `order` / `fan`)
  grid : one position grid -> volumes, borders, distances        (model ops `extended`, `surfaces`, `distances`, `volumes`)

Correspondence (C): the Lean model (Molgri/Model/Polygon.lean) gets exactly the numbers the implementation saw (floats as
exact rationals; qhull's Voronoi diagram as data) and must reproduce the vertex selection of every face, the vertex order,
every area / distance (exact squared terms, square roots taken here) and the open/closed decision of every cell.
Failing-input search (S): the property's own statement, evaluated independently of model and of scipy.spatial.Voronoi:
every cell is rebuilt by clipping with the bisector half-spaces of ALL points of the extended point set
(scipy HalfspaceIntersection), its volume and the area of each of its planar faces are compared with what the getters
report; distances against the Euclidean distance of the two grid points; positivity, symmetry, pattern.
"""
from __future__ import annotations

import json
import math
from fractions import Fraction

import numpy as np

import core

RULE = ("grid cases: every direction-grid algorithm (ico, cube3D, randomS) x N (quick: 4..8 every run, four N from 9..21 and one of "
        "26/42 chosen by the seed, plus the F2 witness grids ico_42, cube3D_26, randomS_162 and the F11 witness grids; thorough: 4..62 "
        "densely, 72..162 sparsely) x radial grids with 1..4 radii (equal and unequal increments, lists / linspace / range); four "
        "grids again with every region's vertex list rotated (vertex at infinity not first); every cell, every adjacency entry (both "
        "orientations) is compared and checked.  Every grid case draws the REPRESENTATION of each argument from the seed "
        "(position_grid_cartesian as True / np.True_ / np.bool_(True) / 1 / np.int64(1) / element of a bool array; names as str / np.str_; "
        "PositionGrid directly or FullGrid('zero', ..., factor as 2 / 2.0 / np.int64(2) / np.float64(2.0))); all families are swept over "
        "3 (quick) / 5 small fixed grids, and the flag off (False / np.False_ / 0) is cross-checked against plain False.  polygon cases: random convex polygons (ellipse / Valtr, 3..24 vertices, aspect "
        "ratios down to 1e-5, sizes 1e-6..1e3) in random order and random rigid position; centrally symmetric integer polygons "
        "(hexagons, octagons, decagon, rectangles: exact zeros of sign/cross) in every rotation of the start vertex, both directions "
        "and with the opposite vertex listed second; nearly symmetric ones (opposite vertex off by 1e-9..1e-7); degenerate inputs "
        "(1, 2 points, collinear points, empty array); get_polygon_area alone on ordered polygons.  A grid case is non-trivial when "
        "it has a bounded cell and >= 4 checked faces; a polygon case when it has >= 4 vertices in a non-sorted order; distinct by "
        "(direction grid, radial text, argument representations) / by coordinates.")
CHUNK = 60
ALGS = ("ico", "cube3D", "randomS")
REL = 1e-9

# ---------------------------------------------------------------------------------------------------------------------
# input representations: the same mathematical input in another representation the public API accepts on the unchanged
# tree; the expected result does not depend on it (the model always receives the denoted values)
# ---------------------------------------------------------------------------------------------------------------------
FLAG_ON = ("True", "np.True_", "np.bool_(True)", "1", "np.int64(1)", "bool_array_element")
FLAG_OFF = ("False", "np.False_", "0")
STR_REPS = ("str", "np.str_")
FACTOR_REPS = ("2", "2.0", "np.int64(2)", "np.float64(2.0)")
VIAS = ("PositionGrid", "FullGrid")
REPS_LEFT_OUT = {
    "position_grid_cartesian='True' / 'False' (str)": "accepted, but a non-empty string is truthy whatever it says: not a representation "
                                                      "of the Boolean; left out",
    "position_grid_cartesian=None": "accepted as falsy, agrees with False; not a Boolean representation, left out",
    "position_grid_cartesian=1.0 / np.float64(1.0)": "accepted and identical to True on the unchanged tree; floats are not a usual carrier of a "
                                                     "flag, left out of the sweep",
    "grid names as bytes": "GridNameParser splits str; bytes raise TypeError on the unchanged tree",
}


def _flag_value(name):
    return {"True": True, "np.True_": np.True_, "np.bool_(True)": np.bool_(True), "1": 1, "np.int64(1)": np.int64(1),
            "bool_array_element": np.array([False, True, True])[1],
            "False": False, "np.False_": np.False_, "0": 0}[name]


def _str_value(kind, text):
    return np.str_(text) if kind == "np.str_" else str(text)


def _factor_value(name):
    return {"2": 2, "2.0": 2.0, "np.int64(2)": np.int64(2), "np.float64(2.0)": np.float64(2.0)}[name]


def _draw_rep(rng):
    via = rng.choice(VIAS)
    rep = {"flag": rng.choice(FLAG_ON), "o": rng.choice(STR_REPS), "t": rng.choice(STR_REPS), "via": via}
    if via == "FullGrid":
        rep["factor"] = rng.choice(FACTOR_REPS)
    return rep


def _build_position_grid(case, flag_name=None):
    """the package object of a grid case, built through the public constructors with the argument representations of the case
    (default: plain Python True / str / PositionGrid).  Returns (position grid, full grid or None, factor or None)."""
    from molgri.space.fullgrid import FullGrid, PositionGrid
    rep = case.get("rep") or {}
    flag = _flag_value(flag_name or rep.get("flag", "True"))
    o = _str_value(rep.get("o", "str"), case["o"])
    t = _str_value(rep.get("t", "str"), case["t"])
    if rep.get("via", "PositionGrid") == "FullGrid":
        fac = _factor_value(rep.get("factor", "2"))
        fg = FullGrid(_str_value(rep.get("o", "str"), "zero"), o, t, factor=fac, position_grid_cartesian=flag)
        return fg.position_grid, fg, float(fac)
    return PositionGrid(o, t, position_grid_cartesian=flag), None, None



# =================================================================================================================
# generators
# =================================================================================================================
def _rot(rng):
    """random rotation matrix from a random unit quaternion"""
    while True:
        q = [rng.gauss(0, 1) for _ in range(4)]
        n = math.sqrt(sum(v * v for v in q))
        if n > 1e-3:
            break
    w, x, y, z = (v / n for v in q)
    return np.array([[1 - 2 * (y * y + z * z), 2 * (x * y - z * w), 2 * (x * z + y * w)],
                     [2 * (x * y + z * w), 1 - 2 * (x * x + z * z), 2 * (y * z - x * w)],
                     [2 * (x * z - y * w), 2 * (y * z + x * w), 1 - 2 * (x * x + y * y)]])


def _shoelace(p2):
    x = np.array([p[0] for p in p2], dtype=float)
    y = np.array([p[1] for p in p2], dtype=float)
    return 0.5 * abs(float(np.sum(x * np.roll(y, -1) - np.roll(x, -1) * y)))


def _ellipse_polygon(rng, n):
    """n points on an ellipse (always in convex position), in cyclic order"""
    a = 1.0
    b = rng.choice([1.0, 1.0, rng.uniform(0.2, 1), 10 ** rng.uniform(-5, -1)])
    while True:
        th = sorted(rng.uniform(0, 2 * math.pi) for _ in range(n))
        gaps = [t2 - t1 for t1, t2 in zip(th, th[1:] + [th[0] + 2 * math.pi])]
        if min(gaps) > 0.02 and max(gaps) < math.pi - 0.05:
            break
    ph = rng.uniform(0, math.pi)
    c, s = math.cos(ph), math.sin(ph)
    return [(c * a * math.cos(t) - s * b * math.sin(t), s * a * math.cos(t) + c * b * math.sin(t)) for t in th]


def _valtr_polygon(rng, n):
    """Valtr's random convex polygon, cyclic order"""
    xs = sorted(rng.random() for _ in range(n))
    ys = sorted(rng.random() for _ in range(n))

    def chains(v):
        lo, hi = v[0], v[-1]
        a, b = lo, lo
        out = []
        for t in v[1:-1]:
            if rng.random() < 0.5:
                out.append(t - a)
                a = t
            else:
                out.append(b - t)
                b = t
        out.append(hi - a)
        out.append(b - hi)
        return out
    dx, dy = chains(xs), chains(ys)
    rng.shuffle(dy)
    vec = sorted(zip(dx, dy), key=lambda v: math.atan2(v[1], v[0]))
    pts, x, y = [], 0.0, 0.0
    for vx, vy in vec:
        pts.append((x, y))
        x += vx
        y += vy
    return pts


def _is_strictly_convex(p2, tol=1e-7):
    n = len(p2)
    d = max(max(abs(a) for a in p) for p in p2) or 1.0
    sgn = 0
    for i in range(n):
        a, b, c = p2[i], p2[(i + 1) % n], p2[(i + 2) % n]
        cr = (b[0] - a[0]) * (c[1] - b[1]) - (b[1] - a[1]) * (c[0] - b[0])
        if abs(cr) < tol * d * d * 1e-3:
            return False
        s = 1 if cr > 0 else -1
        if sgn and s != sgn:
            return False
        sgn = s
    return True


def _embed(p2, R, shift, scale):
    return [list(map(float, (R @ np.array([x * scale, y * scale, 0.0])) + shift)) for x, y in p2]


def _poly_case(pts, sub, area=None, op="order"):
    c = {"kind": "poly", "sub": sub, "pts": [[float(v) for v in p] for p in pts]}
    if area is not None:
        c["area"] = float(area)
    if op != "order":
        c["op"] = op
    return c


SIGNED_PERMS = []
for perm in ((0, 1, 2), (1, 2, 0), (2, 0, 1), (0, 2, 1), (2, 1, 0), (1, 0, 2)):
    for sg in ((1, 1, 1), (-1, 1, 1), (1, -1, -1), (-1, -1, -1), (1, 1, -1)):
        M = np.zeros((3, 3))
        for i, (p, s) in enumerate(zip(perm, sg)):
            M[i, p] = s
        SIGNED_PERMS.append(M)

SYM_POLYGONS = [
    [(2, 0), (1, 1), (-1, 1), (-2, 0), (-1, -1), (1, -1)],                      # the hexagon of DESIGN 5.6
    [(2, 0), (1, 2), (-1, 2), (-2, 0), (-1, -2), (1, -2)],
    [(3, 1), (1, 3), (-1, 3), (-3, -1), (-1, -3), (1, -3)],
    [(1, 1), (-1, 1), (-1, -1), (1, -1)],                                       # square
    [(3, 1), (-3, 1), (-3, -1), (3, -1)],                                       # rectangle
    [(2, 1), (1, 2), (-1, 2), (-2, 1), (-2, -1), (-1, -2), (1, -2), (2, -1)],   # octagon
    [(4, 0), (3, 2), (0, 3), (-3, 2), (-4, 0), (-3, -2), (0, -3), (3, -2)],
    [(5, 0), (4, 2), (2, 4), (-1, 4), (-4, 2), (-5, 0), (-4, -2), (-2, -4), (1, -4), (4, -2)],
]


def gen_poly_cases(ctx):
    rng = ctx.rng
    quick = ctx.quick
    # --- exact centrally symmetric polygons: all start vertices, both directions, opposite vertex second ----------------
    for pi, poly in enumerate(SYM_POLYGONS):
        n = len(poly)
        area = _shoelace(poly)
        Ms = SIGNED_PERMS if not quick else [SIGNED_PERMS[(pi * 7 + k * 11) % len(SIGNED_PERMS)] for k in range(3)]
        for M in Ms:
            sc = rng.choice([1.0, 0.5, 0.25, 8.0])
            sh = np.array([rng.randint(-3, 3) * 1.0 for _ in range(3)]) if rng.random() < 0.5 else np.zeros(3)
            for start in range(n):
                for direction in (1, -1):
                    seq = [poly[(start + direction * k) % n] for k in range(n)]
                    yield _poly_case(_embed(seq, M, sh, sc), "sym/cyclic", area * sc * sc)
                    # the vertex opposite the first one listed second (the zero normal of the first repair attempt)
                    opp = seq[n // 2]
                    seq2 = [seq[0], opp] + [p for k, p in enumerate(seq) if k not in (0, n // 2)]
                    yield _poly_case(_embed(seq2, M, sh, sc), "sym/opposite_second", area * sc * sc)
            for _ in range(2 if quick else 6):
                seq = list(poly)
                rng.shuffle(seq)
                yield _poly_case(_embed(seq, M, sh, sc), "sym/shuffled", area * sc * sc)
    # --- nearly symmetric: opposite vertex off by ~1e-9 (sign of a tiny sine) ----------------------------------------------
    for _ in range(40 if quick else 400):
        poly = [tuple(map(float, p)) for p in rng.choice(SYM_POLYGONS)]
        k = rng.randrange(len(poly))
        eps = rng.choice([1e-9, -1e-9, 1e-7, -3e-8])
        poly[k] = (poly[k][0] + eps * rng.uniform(0.3, 1), poly[k][1] + eps * rng.uniform(-1, 1))
        seq = list(poly)
        if rng.random() < 0.5:
            rng.shuffle(seq)
        else:
            s0 = rng.randrange(len(seq))
            seq = seq[s0:] + seq[:s0]
        R = _rot(rng) if rng.random() < 0.5 else rng.choice(SIGNED_PERMS)
        yield _poly_case(_embed(seq, R, np.zeros(3), 1.0), "nearsym", _shoelace(poly))
    # --- random convex polygons ----------------------------------------------------------------------------------------
    for _ in range(350 if quick else 6000):
        n = rng.choice([3, 4, 4, 5, 5, 6, 6, 6, 7, 8, 8, 9, 10, 12, 16, 17, 20, 24])
        p2 = _ellipse_polygon(rng, n) if rng.random() < 0.6 else _valtr_polygon(rng, n)
        if not _is_strictly_convex(p2, 1e-9):
            continue
        scale = rng.choice([1.0, 1.0, 1.0, 10 ** rng.uniform(-6, 3)])
        area = _shoelace(p2) * scale * scale
        order = rng.choice(["shuffled", "shuffled", "cyclic", "reversed"])
        seq = list(p2)
        if order == "shuffled":
            rng.shuffle(seq)
        else:
            s0 = rng.randrange(n)
            seq = seq[s0:] + seq[:s0]
            if order == "reversed":
                seq.reverse()
        sh = np.array([rng.uniform(-3, 3) * scale for _ in range(3)])
        yield _poly_case(_embed(seq, _rot(rng), sh, scale), "convex/" + order, area)
    # --- get_polygon_area alone on ordered polygons (any start, both directions) ---------------------------------------------
    for _ in range(60 if quick else 600):
        n = rng.choice([3, 4, 5, 6, 8, 11])
        p2 = _ellipse_polygon(rng, n)
        s0 = rng.randrange(n)
        seq = p2[s0:] + p2[:s0]
        if rng.random() < 0.5:
            seq.reverse()
        yield _poly_case(_embed(seq, _rot(rng), np.zeros(3), 1.0), "fan_only", _shoelace(p2), op="fan")
    # --- degenerate inputs ---------------------------------------------------------------------------------------------
    yield _poly_case([[1.0, 2.0, 3.0]], "degenerate/one", 0.0)
    yield _poly_case([[1.0, 2.0, 3.0], [2.0, 2.0, 5.0]], "degenerate/two", 0.0)
    yield _poly_case([[0.0, 0.0, 0.0], [1.0, 1.0, 1.0], [3.0, 3.0, 3.0], [-2.0, -2.0, -2.0]], "degenerate/collinear", 0.0)
    yield _poly_case([[0.0, 0.0, 0.0], [1.0, 0.0, 0.0], [-1.0, 0.0, 0.0]], "degenerate/collinear", 0.0)
    yield {"kind": "poly", "sub": "degenerate/empty", "pts": []}


HAND_T = ["[0.2,0.3]", "[0.15,0.3,0.5]", "[0.3]", "linspace(0.1,0.4,4)", "[0.1,0.12,0.3]", "[0.5,0.6,0.65,1.0]", "range(0.2,0.5,0.1)",
          "[1,2]", "[0.05,0.4]", "[0.29,0.3]"]


def _rand_t(rng):
    T = rng.choice([1, 2, 2, 3, 3, 4])
    r = [round(rng.uniform(0.05, 0.6), 3)]
    for _ in range(T - 1):
        r.append(round(r[-1] * (1 + rng.choice([rng.uniform(0.05, 0.3), rng.uniform(0.3, 1.5)])), 3))
    if len(set(r)) < len(r):
        return "[0.2,0.3]"
    return "[" + ",".join(repr(x) for x in r) + "]"


def gen_grid_cases(ctx):
    rng = ctx.rng
    if ctx.quick:
        for alg in ALGS:
            Ns = [4, 5, 6, 7, 8] + sorted(rng.sample(range(9, 22), 4)) + [rng.choice([26, 42])]
            for k, N in enumerate(Ns):
                t = HAND_T[(N + ALGS.index(alg)) % 3] if k % 2 == 0 else rng.choice(HAND_T[3:] + [_rand_t(rng)])
                if N > 25:
                    t = rng.choice(HAND_T[:2] + HAND_T[4:5])
                yield {"kind": "grid", "o": f"{alg}_{N}", "t": t}
    else:
        Ns = list(range(4, 63)) + [72, 80, 92, 98, 100, 128, 150, 162]
        for alg in ALGS:
            for N in Ns:
                if N <= 62:
                    ts = [HAND_T[N % 3], rng.choice(HAND_T[3:] + [_rand_t(rng)])]
                    if N <= 30:
                        ts.append(_rand_t(rng))
                else:
                    ts = [rng.choice(HAND_T[:2]), rng.choice(HAND_T[3:] + [_rand_t(rng)])]
                for t in ts:
                    yield {"kind": "grid", "o": f"{alg}_{N}", "t": t}


REP_SWEEP_CASES = [("ico_12", "[0.2,0.3]"), ("cube3D_8", "[0.15,0.3,0.5]"), ("randomS_9", "[0.3]")]


def gen_representation_sweep(ctx):
    """every family of argument representations over a few small fixed grids (every value of every family at least once per grid)"""
    grids = REP_SWEEP_CASES if ctx.quick else REP_SWEEP_CASES + [("ico_20", "linspace(0.1,0.4,4)"), ("cube3D_15", "[0.1,0.12,0.3]")]
    for o, t in grids:
        k = 0
        for flag in FLAG_ON:
            for via in VIAS:
                rep = {"flag": flag, "o": STR_REPS[k % 2], "t": STR_REPS[(k // 2) % 2], "via": via}
                if via == "FullGrid":
                    rep["factor"] = FACTOR_REPS[(k // 2) % 4]
                k += 1
                yield {"kind": "grid", "o": o, "t": t, "rep": rep, "sweep": True}
    # the flag off in its representations: identical to the plain False (default, spherical-shell mode)
    for o, t in grids[:2]:
        for k, flag in enumerate(FLAG_OFF):
            for via in VIAS:
                rep = {"flag": flag, "o": STR_REPS[k % 2], "t": STR_REPS[(k + 1) % 2], "via": via}
                if via == "FullGrid":
                    rep["factor"] = FACTOR_REPS[k % 4]
                yield {"kind": "grid", "o": o, "t": t, "rep": rep, "mode": "flag_off"}


def cases(ctx):
    for c in gen_grid_cases(ctx):
        c["rep"] = _draw_rep(ctx.rng)
        yield c
    yield from gen_representation_sweep(ctx)
    # radial grids starting at 0 (accepted by get_increments since commit cae935f) and invalid ones: model <-> implementation only;
    # the property needs positive radii, so these stay out of the oracle
    for o, t in [("ico_12", "[0, 0.1]"), ("ico_12", "[0, 0.2, 0.5]"), ("ico_12", "[0]"), ("cube3D_8", "[0,0.3]"),
                 ("randomS_9", "[0, 0.15]"), ("ico_12", "[0.1, 0.1, 0.3]"), ("ico_12", "[0, 0, 0.3]"), ("ico_7", "linspace(0,0.4,3)")]:
        yield {"kind": "grid", "o": o, "t": t, "corr_only": True, "rep": _draw_rep(ctx.rng)}
    # the same diagrams with rotated region lists (vertex at infinity not in first place)
    for o, t in [("randomS_5", "[0.2,0.3]"), ("ico_4", "[0.15,0.3,0.5]"), ("ico_12", "[0.2,0.3]"), ("cube3D_9", "[0.3]")]:
        yield {"kind": "grid", "o": o, "t": t, "rot": ctx.rng.randint(1, 3), "rep": _draw_rep(ctx.rng)}
    yield from gen_poly_cases(ctx)


# =================================================================================================================
# implementation
# =================================================================================================================
def _impl_poly(case):
    from molgri.space.utils import get_polygon_area, order_points
    P = np.array(case["pts"], dtype=float)
    if len(case["pts"]) == 0:
        P = np.zeros((0, 3))
    try:
        with core.quiet():
            if case.get("op") == "fan":
                return {"area": float(get_polygon_area(P))}
            Q = order_points(P)
            area = float(get_polygon_area(Q))
        # recover the permutation (rows are copied unchanged)
        idx, used = [], set()
        for q in np.asarray(Q):
            for i, p in enumerate(P):
                if i not in used and np.array_equal(p, q):
                    idx.append(i)
                    used.add(i)
                    break
        return {"area": area, "idx": idx}
    except Exception as e:
        return {"err": core.errname(e)}


def _observe(pg):
    return (np.array(pg.get_all_position_volumes(), dtype=float), pg.get_borders_of_position_grid().tocoo(),
            pg.get_distances_of_position_grid().tocoo(), pg.get_adjacency_of_position_grid().tocoo())


def _impl_flag_off(case):
    """the flag off in some representation against the plain Python False: the same (spherical-shell) numbers"""
    try:
        with core.quiet():
            pg, _fg, _fac = _build_position_grid(case)
            V, S, D, A = _observe(pg)
            ref_case = {"o": case["o"], "t": case["t"], "rep": {"via": (case.get("rep") or {}).get("via", "PositionGrid")}}
            Vr, Sr, Dr, Ar = _observe(_build_position_grid(ref_case, flag_name="False")[0])
    except Exception as e:
        return {"err": core.errname(e), "msg": str(e)[:200]}
    same = (np.array_equal(V, Vr) and np.array_equal(S.toarray(), Sr.toarray()) and np.array_equal(D.toarray(), Dr.toarray())
            and np.array_equal(A.toarray(), Ar.toarray()))
    return {"flag_off_same": bool(same), "cartesian_diagram_built": bool(hasattr(pg, "voronoi_cells"))}


def _impl_grid(case):
    if case.get("mode") == "flag_off":
        return _impl_flag_off(case)
    full = None
    try:
        with core.quiet():
            pg, fg, fac = _build_position_grid(case)
            if case.get("rot"):
                # same diagram, every region's vertex list rotated (scipy does not promise a position for the vertex at infinity);
                # the object comes from the real constructor, only the public attribute is replaced
                from types import SimpleNamespace
                vc = pg.voronoi_cells
                k = int(case["rot"])
                pg.voronoi_cells = SimpleNamespace(points=vc.points, vertices=vc.vertices, point_region=vc.point_region,
                                                   regions=[list(r[k % len(r):]) + list(r[:k % len(r)]) if len(r) else [] for r in vc.regions])
            V = np.array(pg.get_all_position_volumes(), dtype=float)
            S = pg.get_borders_of_position_grid().tocoo()
            D = pg.get_distances_of_position_grid().tocoo()
            A = pg.get_adjacency_of_position_grid().tocoo()
            polys = pg._get_coordinates_of_border_polygons()
            pts = np.array(pg.get_position_grid_as_array(), dtype=float)
            og = np.array(pg.get_o_grid().get_grid_as_array(only_upper=False), dtype=float)
            radii = np.array(pg.get_radii(), dtype=float)
            tg = np.array(pg.t_grid.trans_grid, dtype=float)
            vor = pg.voronoi_cells
            if fg is not None and not case.get("rot"):
                # one body rotation ("zero"): the full-grid matrices are the position matrices times factor^2 / factor
                full = {"factor": fac, "B": fg.get_full_borders().toarray(), "Dist": fg.get_full_distances().toarray()}
    except Exception as e:
        res = {"err": core.errname(e), "msg": str(e)[:200]}
        try:
            # the two sub-grids, without the Cartesian branch of __init__ (no get_increments, no Voronoi)
            with core.quiet():
                pg0 = _build_position_grid(case, flag_name="False")[0]
                res["og"] = np.array(pg0.get_o_grid().get_grid_as_array(only_upper=False), dtype=float)
                res["tg"] = np.array(pg0.t_grid.trans_grid, dtype=float)
        except Exception:
            pass
        return res
    return {"V": V, "S": (S.row.copy(), S.col.copy(), np.array(S.data, dtype=float)), "Sshape": S.shape,
            "D": (D.row.copy(), D.col.copy(), np.array(D.data, dtype=float)), "Dshape": D.shape,
            "A": (A.row.copy(), A.col.copy()), "Ashape": A.shape, "polys": polys, "pts": pts, "og": og, "radii": radii, "tg": tg,
            "vor_points": np.array(vor.points), "vertices": np.array(vor.vertices), "regions": [list(map(int, r)) for r in vor.regions],
            "point_region": [int(x) for x in vor.point_region], "full": full}


def impl(case):
    return _impl_poly(case) if case["kind"] == "poly" else _impl_grid(case)


# =================================================================================================================
# model
# =================================================================================================================
def _pts(a):
    return [[core.rat(v) for v in p] for p in a]


def model_ops(case, out):
    if case["kind"] == "poly":
        return [{"op": case.get("op", "order"), "pts": _pts(case["pts"])}]
    if case.get("mode") == "flag_off":
        return []
    if "err" in out:
        if "og" in out:
            return [{"op": "extended", "o": _pts(out["og"]), "t": [core.rat(v) for v in out["tg"]]}]
        return []
    adjS = [[int(r), int(c)] for r, c in zip(out["S"][0], out["S"][1])]
    adjD = [[int(r), int(c)] for r, c in zip(out["D"][0], out["D"][1])]
    return [
        {"op": "extended", "o": _pts(out["og"]), "t": [core.rat(v) for v in out["tg"]]},
        {"op": "surfaces", "vertices": _pts(out["vertices"]), "regions": out["regions"], "point_region": out["point_region"], "adj": adjS},
        {"op": "distances", "points": _pts(out["pts"]), "adj": adjD},
        {"op": "volumes", "regions": out["regions"], "point_region": out["point_region"], "n": int(len(out["pts"]))},
    ]


def _area_from_fan2(fan2):
    return sum(math.sqrt(float(core.unrat(t))) for t in fan2) / 2


def _diam(P):
    P = np.asarray(P, dtype=float)
    if len(P) < 2:
        return 0.0
    return float(np.max(np.linalg.norm(P - P.mean(axis=0), axis=1))) * 2


def _float_exact(pts):
    """small dyadic coordinates with a representable centroid: every operation of order_points before the norm / arctan2 is
    exact in double precision, so exact ties of the model are exact ties of numpy"""
    try:
        fr = [[Fraction(v) for v in p] for p in pts]
    except Exception:
        return False
    if not fr or any((v * 8).denominator != 1 or abs(v) > 64 for p in fr for v in p):
        return False
    return all((sum(p[k] for p in fr) / len(fr) * 8).denominator == 1 for k in range(3))


def _dihedral_equal(a, b):
    """equal as cyclic sequences, possibly reversed"""
    if len(a) != len(b) or sorted(a) != sorted(b):
        return False
    n = len(a)
    if n == 0:
        return True
    for seq in (b, b[::-1]):
        k = seq.index(a[0])
        if seq[k:] + seq[:k] == a:
            return True
    return False


def _robust_order(m, float_exact=False):
    """the model's exact keys decide whether numpy's float argsort is determined: all angles separated by > 1e-6 (also from
    the branch cut at +-pi), and the arg max of the normals' norms is not a near tie.  Returns None (not determined) or the
    list of admissible orders: the model's order; if one key is EXACTLY on the negative x-axis (s == 0, c < 0: the vertex
    opposite the first one in an exactly symmetric polygon) numpy returns +pi or -pi according to the sign of the floating
    zero, so that vertex may also come first."""
    exact = [(core.unrat(s), core.unrat(c)) for s, c in m["keys"]]
    keys = [(float(s), float(c)) for s, c in exact]
    nn = float(core.unrat(m["nn"]))
    if nn <= 0:
        return None
    n2 = sorted((core.unrat(v) for v in m["normals2"]), reverse=True)
    for v in n2[1:]:
        if v == n2[0] and float_exact:
            continue        # an exact tie, computed without rounding by numpy as well: np.argmax takes the first one, like the model
        if float(v) > float(n2[0]) * (1 - 1e-9):
            return None
    w = math.sqrt(nn)
    ang = sorted((math.atan2(s, c * w), i) for i, (s, c) in enumerate(keys))
    if any(b[0] - a[0] < 1e-6 for a, b in zip(ang, ang[1:])):
        return None
    if ang[0][0] <= -math.pi + 1e-6:
        return None
    idx = list(m["idx"])
    if ang[-1][0] < math.pi - 1e-6:
        return [idx]
    last = ang[-1][1]
    if exact[last][0] == 0 and exact[last][1] < 0 and idx and idx[-1] == last:
        return [idx, [last] + idx[:-1]]
    return None


def _compare_poly(ctx, case, out, m):
    if "err" in out or "err" in m:
        if out.get("err") != m.get("err"):
            ctx.corr("order_points/outcome", case, out, m)
        ctx.branch("poly/error_case")
        return
    m = m["ok"]
    d = _diam(case["pts"])
    if case.get("op") == "fan":
        a = _area_from_fan2(m)
        if abs(a - out["area"]) > REL * a + 1e-12 * d * d:
            ctx.corr("get_polygon_area", case, out["area"], a)
        return
    a = _area_from_fan2(m["fan2"])
    if abs(a - out["area"]) > REL * a + 1e-12 * d * d:
        ctx.corr("get_polygon_area(order_points)", case, out["area"], a)
    n = len(case["pts"])
    admissible = _robust_order(m, _float_exact(case["pts"])) if n >= 3 else None
    if admissible:
        # no ties, no rounding ambiguity: the sorted order is unique whatever sorting algorithm numpy uses
        ctx.branch("poly/order_compared_exactly" if len(admissible) == 1 else "poly/order_compared_exactly(vertex at +-pi first or last)")
        if out["idx"] not in admissible:
            ctx.corr("order_points/order", case, out["idx"], m["idx"])
    elif n >= 3 and float(core.unrat(m["nn"])) > 0 and a > 1e-9 * d * d:
        if _dihedral_equal(out["idx"], m["idx"]):
            ctx.branch("poly/order_equal_up_to_rotation_reflection(near tie or branch cut)")
        else:
            ctx.branch("poly/order_differs_within_rounding(area compared only)")
    else:
        ctx.branch("poly/order_not_compared(degenerate)")


def _compare_grid(ctx, case, out, ms):
    if case.get("mode") == "flag_off":
        return
    if "err" in out:
        ctx.branch("grid/error:" + out["err"])
        if ms:
            # the model's guards (IndexError / AssertionError of get_increments) against the implementation's exception; where
            # the model builds the extended point set the implementation can only fail inside scipy/qhull (external)
            m = ms[0]
            if "err" in m:
                if m["err"] != out["err"]:
                    ctx.corr("cartesian/outcome of the extended radial grid", case, out["err"], m)
            elif out["err"] != "other:QhullError":
                ctx.corr("cartesian/outcome of the extended radial grid", case, out["err"], "extended point set is built")
            else:
                ctx.branch("grid/qhull_error_on_a_point_set_the_model_builds(external)")
        return
    for m, what in zip(ms, ("extended", "surfaces", "distances", "volumes")):
        if "err" in m:
            ctx.corr(f"cartesian/{what}: model fails with {m['err']}, implementation returns a value", case, "value", m)
            return
    ext, surf, dist, vols = (m["ok"] for m in ms)
    scale = float(np.max(np.abs(out["vor_points"])))
    # (1) the input of scipy's Voronoi = grid + one extra shell
    E = np.array([[float(core.unrat(v)) for v in p] for p in ext])
    if E.shape != out["vor_points"].shape or not np.allclose(E, out["vor_points"], rtol=1e-14, atol=1e-14 * scale):
        ctx.corr("cartesian/extended point set (extra shell)", case, {"shape": list(out["vor_points"].shape), "last": out["vor_points"][-1].tolist()},
                 {"shape": list(E.shape), "last": E[-1].tolist() if len(E) else None})
    # (2) borders: vertex selection and area of every entry
    rows, cols, data = out["S"]
    if len(surf) != len(data):
        ctx.corr("cartesian/surfaces length", case, len(data), len(surf))
        return
    verts = out["vertices"]
    for k, (mk, r, c, v) in enumerate(zip(surf, rows, cols, data)):
        P = out["polys"][k]
        mp = verts[mk["shared"]] if mk["shared"] else np.zeros((0, 3))
        if len(P) != len(mp) or (len(P) and not np.array_equal(np.asarray(P).reshape(-1, 3), mp)):
            ctx.corr("cartesian/border polygon (shared vertices)", case, {"entry": [int(r), int(c)], "n_vertices": int(len(P))},
                     {"entry": [int(r), int(c)], "shared": mk["shared"]})
            return
        a = _area_from_fan2(mk["fan2"])
        d = _diam(mp)
        if out["point_region"][int(r)] == out["point_region"][int(c)]:
            # coincident grid points (zero first radius): the "polygon" is the whole region, not planar, full of exact angle ties
            ctx.branch("grid/entries_of_coincident_points(area not compared)")
            continue
        if abs(a - v) > REL * a + 1e-11 * d * d:
            ctx.corr("cartesian/border area", case, {"entry": [int(r), int(c)], "area": float(v)}, {"area": a, "order": mk["idx"], "shared": mk["shared"]})
            return
    # (3) distances
    rows, cols, data = out["D"]
    if len(dist) != len(data):
        ctx.corr("cartesian/distances length", case, len(data), len(dist))
        return
    md = np.sqrt(np.array([float(core.unrat(t)) for t in dist])) if len(dist) else np.zeros(0)
    bad = np.nonzero(np.abs(md - data) > 1e-12 * np.maximum(md, scale))[0]
    if len(bad):
        k = int(bad[0])
        ctx.corr("cartesian/distance", case, {"entry": [int(rows[k]), int(cols[k])], "d": float(data[k])}, {"d": float(md[k])})
    # (4) volumes: open cells keep 0, closed ones get the hull volume of their region
    from scipy.spatial import ConvexHull
    V = out["V"]
    if len(vols) != len(V):
        ctx.corr("cartesian/volumes length", case, len(V), len(vols))
        return
    for i, (mv, v) in enumerate(zip(vols, V)):
        if mv is None:
            if v != 0:
                ctx.corr("cartesian/volume of an open cell", case, {"cell": i, "volume": float(v)}, {"cell": i, "volume": 0})
                return
        else:
            hv = ConvexHull(verts[mv]).volume
            if abs(hv - v) > 1e-12 * hv:
                ctx.corr("cartesian/volume of a closed cell", case, {"cell": i, "volume": float(v)}, {"cell": i, "hull volume of region": float(hv)})
                return
    # (5) through FullGrid with a single body rotation: the full-grid matrices are the position matrices times factor^2 / factor
    full = out.get("full")
    if full:
        n = len(out["pts"])
        Sd = np.zeros((n, n))
        Sd[out["S"][0], out["S"][1]] = out["S"][2]
        Dd = np.zeros((n, n))
        Dd[out["D"][0], out["D"][1]] = out["D"][2]
        f = full["factor"]
        if full["B"].shape != (n, n) or not np.allclose(full["B"], Sd * f ** 2, rtol=1e-12, atol=0):
            ctx.corr("FullGrid(zero, ...).get_full_borders() = factor^2 * borders of its position grid", case,
                     {"shape": list(full["B"].shape)}, {"factor": f})
        if full["Dist"].shape != (n, n) or not np.allclose(full["Dist"], Dd * f, rtol=1e-12, atol=0):
            ctx.corr("FullGrid(zero, ...).get_full_distances() = factor * distances of its position grid", case,
                     {"shape": list(full["Dist"].shape)}, {"factor": f})
        ctx.branch("grid/full_grid_matrices_compared")
    ctx.branch("grid/compared")


def compare(ctx, case, out, mouts):
    if case["kind"] == "poly":
        _compare_poly(ctx, case, out, mouts[0])
    else:
        _compare_grid(ctx, case, out, mouts)


# =================================================================================================================
# oracle: the statement of C06 on the implementation
# =================================================================================================================
def _hull_area_of_planar_points(P):
    """area of the convex hull of (nearly) coplanar points, independent of order_points/get_polygon_area"""
    from scipy.spatial import ConvexHull
    P = np.asarray(P, dtype=float)
    c = P.mean(axis=0)
    _, s, vt = np.linalg.svd(P - c)
    if len(P) < 3 or s[1] <= 1e-13 * max(s[0], 1e-300):
        return 0.0
    p2 = (P - c) @ vt[:2].T
    try:
        return float(ConvexHull(p2).volume)
    except Exception:
        return 0.0


def _oracle_poly(ctx, case, out):
    n = len(case["pts"])
    sub = case["sub"]
    ctx.branch("poly/" + sub)
    ctx.branch(f"poly/n={n}" if n < 13 else "poly/n>=13")
    if n == 0:
        return
    if "err" in out:
        ctx.fail("C06:polygon_exception", f"order_points/get_polygon_area raised {out['err']}", case)
        return
    d = _diam(case["pts"])
    truth = _hull_area_of_planar_points(case["pts"]) if n >= 3 else 0.0
    if "area" in case and abs(case["area"] - truth) > 1e-7 * truth + 1e-10 * d * d:
        raise core.HarnessError(f"generator area {case['area']} and hull area {truth} disagree for {case}")
    if abs(out["area"] - truth) > 1e-7 * truth + 1e-10 * d * d:
        ctx.fail("C06:polygon_area", "get_polygon_area(order_points(P)) is not the area of the convex polygon with vertices P"
                 if case.get("op") != "fan" else "get_polygon_area(P) is not the area of the cyclically ordered convex polygon P",
                 case, truth, out["area"])
        return
    if n >= 4 and case.get("op") != "fan" and out.get("idx") != list(range(n)):
        ctx.nt(("poly", tuple(map(tuple, case["pts"]))))
        if n in (6, 8) and sub.startswith(("sym", "convex")):
            ctx.sample({k: v for k, v in case.items()}, limit=4)


def _cell(ext, i):
    """vertices and volume of the Voronoi cell of ext[i] among ext: intersection of the bisector half-spaces of all other points"""
    from scipy.spatial import ConvexHull, HalfspaceIntersection
    A = ext - ext[i]
    b = (np.sum(ext ** 2, axis=1) - np.sum(ext[i] ** 2)) / 2
    mask = np.arange(len(ext)) != i
    hs = np.hstack([A[mask], -b[mask][:, None]])
    hi = HalfspaceIntersection(hs, ext[i].copy())
    W = hi.intersections
    return W, float(ConvexHull(W).volume)


def _face_area(W, pi, pj, scale):
    """area of the part of the cell boundary (vertices W) that lies in the bisector plane of pi and pj"""
    nrm = pj - pi
    nrm = nrm / np.linalg.norm(nrm)
    m = (pi + pj) / 2
    on = W[np.abs((W - m) @ nrm) < 1e-9 * scale]
    if len(on) < 3:
        return 0.0, len(on)
    c = on.mean(axis=0)
    a = np.cross(nrm, [1.0, 0, 0])
    if np.linalg.norm(a) < 0.5:
        a = np.cross(nrm, [0, 1.0, 0])
    a /= np.linalg.norm(a)
    b2 = np.cross(nrm, a)
    x = (on - c) @ a
    y = (on - c) @ b2
    o = np.argsort(np.arctan2(y, x))
    x, y = x[o], y[o]
    return 0.5 * abs(float(np.sum(x * np.roll(y, -1) - np.roll(x, -1) * y))), len(on)


def _oracle_grid(ctx, case, out):
    from scipy.spatial import ConvexHull
    o = case["o"]
    rep = case.get("rep") or {}
    ctx.branch("rep/flag=" + rep.get("flag", "True"))
    ctx.branch("rep/names=" + rep.get("o", "str") + "," + rep.get("t", "str"))
    ctx.branch("rep/via=" + rep.get("via", "PositionGrid") + ("" if "factor" not in rep else ",factor=" + rep["factor"]))
    if case.get("mode") == "flag_off":
        if "err" in out:
            ctx.fail("C06:flag_representation", f"position_grid_cartesian={rep.get('flag')} (off) raised {out['err']}: {out.get('msg')}", case)
        elif not out["flag_off_same"] or out["cartesian_diagram_built"]:
            ctx.fail("C06:flag_representation", f"position_grid_cartesian={rep.get('flag')} does not give the results of False "
                     "(the same input in another representation)", case, "identical to position_grid_cartesian=False", "different")
        else:
            ctx.nt(("flag_off", o, case["t"], json.dumps(rep, sort_keys=True)))
        return
    if case.get("corr_only"):
        ctx.branch("grid/zero_first_or_invalid_radial_grid(correspondence only)")
        return
    ctx.branch("grid/alg=" + o.split("_")[0])
    if "err" in out:
        ctx.fail("C06:exception", f"Cartesian position grid raised {out['err']}: {out.get('msg')}", case)
        return
    pts, og, radii, V = out["pts"], out["og"], out["radii"], out["V"]
    n_o, n_t = len(og), len(radii)
    ctx.branch(f"grid/n_t={n_t}")
    if case.get("rot"):
        ctx.branch("grid/rotated_region_lists")
    ctx.branch("grid/N<=12" if n_o <= 12 else "grid/N<=42" if n_o <= 42 else "grid/N>42")
    n = n_o * n_t
    # the grid points and the extended point set, built here from the two sub-grids
    extra = radii[-1] + (radii[-1] - radii[-2] if n_t > 1 else radii[0])
    ext = np.vstack([og * r for r in list(radii) + [extra]])
    scale = float(extra)
    if pts.shape != (n, 3) or not np.allclose(ext[:n], pts, rtol=1e-13, atol=1e-13 * scale):
        ctx.fail("C06:grid_points", "position grid is not radii x directions (shell after shell)", case)
        return
    if V.shape != (n,):
        ctx.fail("C06:volume_shape", f"{V.shape} volumes for {n} cells", case)
        return
    Ar, Ac = out["A"]
    for name, (r, c, _d), shape in (("border", out["S"], out["Sshape"]), ("distance", out["D"], out["Dshape"])):
        if tuple(shape) != (n, n) or sorted(zip(r.tolist(), c.tolist())) != sorted(zip(Ar.tolist(), Ac.tolist())):
            ctx.fail(f"C06:{name}_pattern", f"{name} matrix is not stored on the pattern of the adjacency matrix", case)
            return
    H = ConvexHull(ext)
    on_hull = (ext @ H.equations[:, :3].T + H.equations[:, 3]).max(axis=1) > -1e-9 * scale
    unbounded = set(np.nonzero(on_hull[:n])[0].tolist())
    cells = {}
    n_checked_vol = 0
    zero_unbounded = [i for i in sorted(unbounded) if V[i] == 0]
    if zero_unbounded:
        # the Euclidean cell is unbounded even within the extended point set: the statement has no finite volume for it
        ctx.fail(f"C06:F11:unbounded_cell_volume_zero:{o}", f"{len(zero_unbounded)} of {n} cells are unbounded (their points are on the convex "
                 f"hull of the extended point set), first: cell {zero_unbounded[0]}; the reported volume 0 is not positive", case,
                 "positive volume", 0.0)
    huge = [i for i in sorted(unbounded) if V[i] > 1e6 * scale ** 3]
    if huge:
        # the point lies exactly on the boundary of the convex hull (on a hull edge: middle shell, extreme direction); rounding of
        # r*d lets qhull close the region far away: a "volume" many orders of magnitude above the volume of the whole grid
        ctx.fail(f"C06:F11:unbounded_cell_huge_volume:{o}", f"cell {huge[0]} is unbounded (its point is on the boundary of the convex hull "
                 f"of the extended point set) but qhull closes its region by rounding: reported volume {V[huge[0]]:.3g} for a grid of "
                 f"radius {scale:.3g}", case, "no finite volume", float(V[huge[0]]))
    for i in range(n):
        if i in unbounded:
            if V[i] != 0 and i not in huge:
                ctx.fail("C06:unbounded_cell_volume", f"cell {i} is unbounded but a volume {V[i]} is reported", case, "no finite volume", float(V[i]))
                return
            continue
        W, vol = _cell(ext, i)
        cells[i] = W
        n_checked_vol += 1
        if not (V[i] > 0) or abs(V[i] - vol) > 1e-7 * vol:
            ctx.fail("C06:volume", f"volume of cell {i} is not the volume of its Euclidean Voronoi cell", case, vol, float(V[i]))
            return
    ctx.branch("grid/cells_checked", n_checked_vol)
    ctx.branch("grid/cells_unbounded", len(unbounded))
    # borders
    rows, cols, data = out["S"]
    Sd = {}
    nfaces = 0
    n_zero_ub = 0
    n_ub_faces = 0
    for r, c, v in zip(rows.tolist(), cols.tolist(), data.tolist()):
        Sd[(r, c)] = v
        ub = r in unbounded and c in unbounded
        if not v > 0:
            if (r in unbounded or c in unbounded) and v == 0:
                n_zero_ub += 1
                if n_zero_ub == 1:
                    ctx.fail(f"C06:F11:border_zero_unbounded_cell:{o}", f"border ({r},{c}) of an unbounded cell is reported as 0 (fewer than three "
                             "finite vertices): not strictly positive, and dropped from the pattern by every later truthiness filter", case, "> 0", v)
            else:
                ctx.fail("C06:border_not_positive", f"border ({r},{c}) is {v}", case, "> 0", v)
                return
            continue
        if ub:
            n_ub_faces += 1
            continue
        i, j = (r, c) if r in cells else (c, r)
        ta, k = _face_area(cells[i], ext[i], ext[j], scale)
        nfaces += 1
        if abs(ta - v) > 1e-7 * ta + 1e-10 * scale ** 2:
            ctx.fail("C06:border_area", f"border ({r},{c}) is not the area of the planar face shared by the two Euclidean Voronoi cells "
                     f"(face has {k} vertices)", case, ta, v)
            return
    ctx.branch("grid/faces_checked", nfaces)
    ctx.branch("grid/zero_borders_of_unbounded_cells", n_zero_ub)
    ctx.branch("grid/faces_between_two_unbounded_cells_not_checked", n_ub_faces)
    for (r, c), v in Sd.items():
        w = Sd.get((c, r))
        if w is None or abs(w - v) > 1e-12 * max(abs(v), abs(w)):
            ctx.fail("C06:border_symmetry", f"border ({r},{c}) = {v} but ({c},{r}) = {w}", case)
            return
    # distances
    rows, cols, data = out["D"]
    Dd = {}
    for r, c, v in zip(rows.tolist(), cols.tolist(), data.tolist()):
        Dd[(r, c)] = v
        e = float(np.linalg.norm(ext[r] - ext[c]))
        if not v > 0 or abs(v - e) > 1e-12 * scale:
            ctx.fail("C06:distance", f"distance ({r},{c}) is not the Euclidean distance of the two grid points", case, e, v)
            return
    for (r, c), v in Dd.items():
        if Dd.get((c, r)) is None or abs(Dd[(c, r)] - v) > 1e-13 * scale:
            ctx.fail("C06:distance_symmetry", f"distance ({r},{c}) = {v} but ({c},{r}) = {Dd.get((c, r))}", case)
            return
    if cells and nfaces >= 4:
        ctx.nt(("grid", o, case["t"], json.dumps(rep, sort_keys=True)))
    if n_o in (12, 42):
        ctx.sample(case, limit=6)


def oracle(ctx, case, out):
    if case["kind"] == "poly":
        _oracle_poly(ctx, case, out)
    else:
        _oracle_grid(ctx, case, out)


# =================================================================================================================
# driver of the check: the per-case pipeline (implementation -> model -> compare -> oracle) runs in worker processes
# =================================================================================================================
class _Rec:
    """records the calls a worker would make on the context; replayed on the real context in case order"""

    def __init__(self):
        self.ev = []

    def corr(self, what, case, impl_v, model_v):
        self.ev.append(("corr", what, case, impl_v, model_v))

    def fail(self, key, what, case, expected=None, observed=None):
        self.ev.append(("fail", key, what, case, expected, observed))

    def branch(self, name, n=1):
        self.ev.append(("branch", name, n))

    def nt(self, key):
        self.ev.append(("nt", key))

    def sample(self, case, limit=6):
        self.ev.append(("sample", case, limit))

    def note(self, s):
        self.ev.append(("note", s))


def _work(chunk):
    """one task: a list of cases -> (events, driver lines) or ('harness_error', text)"""
    import resource
    import time
    import traceback
    rec = _Rec()
    t0 = time.process_time()
    c0 = resource.getrusage(resource.RUSAGE_CHILDREN)
    try:
        outs = [impl(c) for c in chunk]
        ops, spans = [], []
        for c, o in zip(chunk, outs):
            m = model_ops(c, o)
            spans.append((len(ops), len(ops) + len(m)))
            ops.extend(m)
        drv = core.LeanDriver("C06")
        mouts = drv.run(ops)
        for c, o, (a, b) in zip(chunk, outs, spans):
            compare(rec, c, o, mouts[a:b])
            oracle(rec, c, o)
        c1 = resource.getrusage(resource.RUSAGE_CHILDREN)
        rec.ev.append(("_cpu", time.process_time() - t0, (c1.ru_utime + c1.ru_stime) - (c0.ru_utime + c0.ru_stime)))
        return rec.ev, drv.calls, drv.lines
    except core.HarnessError as e:
        return ("harness_error", str(e))
    except Exception:
        return ("harness_error", f"worker crashed on chunk starting with {str(chunk[0])[:300]}: {traceback.format_exc()}")


def _weight(case):
    if case["kind"] == "poly":
        return 0.4
    try:
        n = int(case["o"].split("_")[1])
    except Exception:
        n = 20
    return 12 + n * (2 + case["t"].count(","))


def _chunks(case_list, budget):
    out, cur, w = [], [], 0
    for c in case_list:
        cw = _weight(c)
        if cur and w + cw > budget:
            out.append(cur)
            cur, w = [], 0
        cur.append(c)
        w += cw
    if cur:
        out.append(cur)
    return out


def _apply(ctx, res):
    if res and res[0] == "harness_error":
        raise core.HarnessError(res[1])
    ev, calls, lines = res
    ctx.driver.calls += calls
    ctx.driver.lines += lines
    for e in ev:
        if e[0] == "_cpu":
            ctx.extra_cov["cpu_s_python_workers"] = round(ctx.extra_cov.get("cpu_s_python_workers", 0) + e[1], 1)
            ctx.extra_cov["cpu_s_lean_driver"] = round(ctx.extra_cov.get("cpu_s_lean_driver", 0) + e[2], 1)
        else:
            getattr(ctx, e[0])(*e[1:])


def _run_cases(ctx, case_list, parallel=True):
    import multiprocessing as mp
    import os
    import time
    tasks = _chunks(case_list, 150 if ctx.quick else 260)
    nproc = max(1, min(14, (os.cpu_count() or 2) - 1, len(tasks)))
    budget = 100 if ctx.quick else 1080      # seconds since the start of the check (build and audit included)
    if not parallel or nproc == 1:
        for t in tasks:
            ctx.count(len(t))
            _apply(ctx, _work(t))
        return
    import molgri.space.fullgrid  # noqa: F401  (imported before the fork so that the workers share it)
    import scipy.spatial  # noqa: F401
    with mp.get_context("fork").Pool(nproc) as pool:
        for k, res in enumerate(pool.imap(_work, tasks)):
            ctx.count(len(tasks[k]))
            _apply(ctx, res)
            if time.time() - ctx.t0 > budget and k + 1 < len(tasks):
                pool.terminate()
                ctx.note(f"time budget of {budget}s reached (loaded machine): the last {len(tasks) - k - 1} of {len(tasks)} tasks were not run")
                break


def run(ctx):
    corpus = []
    for f in ctx.open_findings + ctx.fixed_findings:
        corpus.extend(f.get("cases", []))
    ctx.note("numpy's argsort is compared element by element only where the model's exact keys show that float rounding cannot "
             "change it (angles separated by > 1e-6 and away from the branch cut, unique largest normal); otherwise only the area is "
             "compared and it is recorded whether the two orders agree up to rotation/reflection of the cycle")
    ctx.extra_cov["argument_representations"] = {
        "position_grid_cartesian (on)": list(FLAG_ON), "position_grid_cartesian (off, against plain False)": list(FLAG_OFF),
        "o-grid name / radial text": list(STR_REPS), "FullGrid factor": list(FACTOR_REPS), "constructed through": list(VIAS),
        "established_on_unchanged_tree": "all listed representations are accepted and give results bitwise identical to the plain-Python "
                                         "reference (True / False, str, factor 2, PositionGrid)",
        "left_out": REPS_LEFT_OUT}
    ctx.note("every grid case draws the representation of each argument it passes to the package from the seed (flag, both names, "
             "PositionGrid directly or FullGrid('zero', ...) with a factor representation); quick and thorough sweep every family over "
             "small fixed grids; the model receives the denoted values")
    ctx.note("faces between two unbounded cells (only in the F11 grids) are not checked by the oracle; counted in the input distribution")
    _run_cases(ctx, corpus + list(cases(ctx)))


def replay(ctx, case_list):
    _run_cases(ctx, case_list, parallel=False)
