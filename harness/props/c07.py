"""C07 - every generated sphere grid is N distinct unit points; rotations are unique.

Implementation under test: molgri.space.rotobj (SphereGridFactory and the grid classes), molgri.space.polytopes
(get_nodes, get_half_of_hypercube), molgri.space.utils (q_in_upper_sphere, hemisphere_quaternion_set, ...).
Lean model: lean/Molgri/Model/Hemisphere.lean (+ Model/IcoExact.lean for the exact icosahedron nodes),
theorems lean/Molgri/Props/C07.lean.

Three groups of cases (all replayable one by one):
  unit  : the anchored functions on adversarial small inputs (tolerance boundary 1e-8, signed zeros, wrong shapes)
  grid  : SphereGridFactory.create(alg, N, dim) for every algorithm / N of the tier
  poly  : one polytope level, every prefix N of its node list (exact lattice tie + exact separation check)
"""
from __future__ import annotations

import itertools
import json
import math
import os
from fractions import Fraction

import numpy as np

import core

RULE = ("unit: q_in_upper_sphere / hemisphere_quaternion_set / SphereGrid4Dim._gen_grid / get_upper_indices / "
        "get_grid_as_array / gen_grid assertions / get_nodes / get_half_of_hypercube / rotation of z / fulldiv table / "
        "factory dispatch on exhaustive small pools {0,+-1e-9,+-0.5,+-2e-8}^d (d<=3; d=4 thorough) and random rows drawn from a "
        "pool containing 0.0,-0.0, +-1e-8 (the np.allclose boundary) and its float neighbours; wrong widths/row counts for the "
        "error branches. grid: SphereGridFactory.create for ico, cube3D, randomS (quick: every N<=60 + level boundaries + random "
        "N<=400; thorough: every N<=400 via the factory and every further N through level 4 with the level's polytope handed to "
        "the grid class), cube4D, randomQ (quick: every N<=41 / 30, 272 and random N<=272; thorough: every N<=272), fulldiv "
        "8,40,272 and inadmissible N, zero3D/zero4D, names with N=1; configurations: all eight algorithms x {SphereGridFactory, "
        "SphereGrid3D/4DFactory, class + gen_grid(), class + gen_and_time()} x time_generation in {False, True} x N at the level "
        "boundaries (fulldiv 8, 40, 272), read through get_grid_as_array(both), .grid, len(), get_N(). poly: ico and cube3D to level 4 (quick 3), "
        "cube4D to level 2: every prefix N of the node list. A case is non-trivial when the grid has >=2 rows (grid), the vector "
        "has a non-zero entry (unit), or the level has >=2 nodes (poly); distinct by (kind, input).")

TOL = 1e-8      # np.allclose atol in q_in_upper_sphere / hemisphere_quaternion_set
ATOL = 1e-8     # np.isclose defaults in which_row_is_k
RTOL = 1e-5
R = core.rat
NORM_EPS = 1e-12
SAFETY = 1e-9   # relative safety margin of the float separation oracle

ICO_COUNTS = [12, 42, 162, 642, 2562]
CUBE3_COUNTS = [8, 26, 98, 386, 1538]
CUBE4_FULL = [16, 80, 544]
CUBE4_HALF = [8, 40, 272]
FULLDIV_TABLE = (8, 40, 272, 2080)
POLY = {"ico": ("IcosahedronPolytope", 3), "cube3D": ("Cube3DPolytope", 3), "cube4D": ("Cube4DPolytope", 4),
        "fulldiv": ("Cube4DPolytope", 4)}


# ------------------------------------------------------------------------------------------------------------
# helpers
# ------------------------------------------------------------------------------------------------------------
def rows_r(a):
    return [[R(float(x)) for x in row] for row in np.asarray(a, dtype=float).reshape(len(a), -1)] if len(a) else []


def rows_f(a):
    return [[float(x) for x in row] for row in np.asarray(a, dtype=float)]


def unrows(m):
    return [[core.unrat(v) for v in row] for row in m]


def same_exact(float_rows, model_rows):
    """float array == list of exact rationals, entry by entry (signed zeros identified)"""
    fr = np.asarray(float_rows, dtype=float)
    if fr.ndim != 2:
        fr = fr.reshape(len(fr), -1) if len(fr) else fr.reshape(0, 0)
    if len(fr) != len(model_rows):
        return False
    for a, b in zip(fr, model_rows):
        if len(a) != len(b):
            return False
        for x, y in zip(a, b):
            if Fraction(float(x)) != core.unrat(y):
                return False
    return True


def first_diff(float_rows, model_rows):
    """(row index, implementation row, model row) of the first row that differs, for messages"""
    fr = np.asarray(float_rows, dtype=float)
    for i in range(max(len(fr), len(model_rows))):
        a = [float(x) for x in fr[i]] if i < len(fr) else None
        b = model_rows[i] if i < len(model_rows) else None
        if a is None or b is None or len(a) != len(b) or any(Fraction(x) != core.unrat(y) for x, y in zip(a, b)):
            return {"row": i, "rows_impl": len(fr), "rows_model": len(model_rows), "impl": a, "model": b}
    return None


def close_rows(float_rows, model_rows, tol=NORM_EPS):
    fr = np.asarray(float_rows, dtype=float)
    if len(fr) != len(model_rows):
        return False
    for a, b in zip(fr, model_rows):
        if len(a) != len(b):
            return False
        for x, y in zip(a, b):
            if abs(float(x) - float(core.unrat(y))) > tol:
                return False
    return True


def exact_upper(q):
    """the statement's own test: first non-zero coordinate positive (exact zero test)"""
    for x in q:
        if x != 0:
            return bool(x > 0)
    return False


def gap_ok(q):
    return all(x == 0 or abs(x) > TOL for x in q)


def min_chord(P):
    """smallest Euclidean distance between two different rows"""
    P = np.asarray(P, dtype=float)
    if len(P) < 2:
        return math.inf
    from scipy.spatial import cKDTree
    d = cKDTree(P).query(P, k=2)[0][:, 1]
    return float(d.min())


def prefix_min_dist(P, antipodes=False):
    """M[N] = min distance among the first N rows (and their negatives if antipodes), N = 0..n; inf for N < 2"""
    P = np.asarray(P, dtype=float)
    n = len(P)
    m = np.full(n, np.inf)
    B = 512
    for a in range(0, n, B):
        blk = P[a:a + B]
        G = blk @ P[:a + len(blk)].T
        sq = (blk ** 2).sum(1)[:, None] + (P[:a + len(blk)] ** 2).sum(1)[None, :]
        d2 = sq - 2 * G
        if antipodes:
            d2 = np.minimum(d2, sq + 2 * G)
        for k in range(len(blk)):
            j = a + k
            if j > 0:
                m[j] = np.sqrt(max(d2[k, :j].min(), 0.0))
    M = np.full(n + 1, np.inf)
    if n:
        M[1:] = np.minimum.accumulate(m)
    return M


def bound_dir(N):
    return 1.0 / math.sqrt(N)


def bound_rot(N):
    return 0.6 / N ** (1.0 / 3.0)


import time as _time
_T0 = _time.time()


def _dbg(msg):
    if os.environ.get("VERIF_DEBUG"):
        import sys
        print(f"[c07 {_time.time() - _T0:7.1f}s] {msg}", file=sys.stderr, flush=True)


_CHEAP = {}


def _cheap_voronoi_classes():
    """Stand-ins for RotobjVoronoi / HalfRotobjVoronoi where the Voronoi diagram (not part of C07) would dominate the cost.
    They are SUBCLASSES of the package's own MikroVoronoi whose real constructor runs (so whatever it sets up exists):
    a really constructed package object, only the expensive diagram is left out.  Everything of the factory, the
    generators, the assertions and the getters still runs."""
    if not _CHEAP:
        from molgri.space.voronoi import MikroVoronoi

        class CheapRotobjVoronoi(MikroVoronoi):
            def __init__(self, my_array, *a, **k):
                super().__init__(dimensions=int(my_array.shape[1]), N_points=int(len(my_array)))

        class CheapHalfRotobjVoronoi(MikroVoronoi):
            def __init__(self, my_array, *a, **k):
                super().__init__(dimensions=int(my_array.shape[1]), N_points=int(len(my_array)) // 2)

        _CHEAP["full"], _CHEAP["half"] = CheapRotobjVoronoi, CheapHalfRotobjVoronoi
    return _CHEAP["full"], _CHEAP["half"]


class _stubbed:
    def __init__(self, on=True):
        self.on = on

    def __enter__(self):
        if self.on:
            import molgri.space.rotobj as ro
            self.saved = (ro.RotobjVoronoi, ro.HalfRotobjVoronoi)
            ro.RotobjVoronoi, ro.HalfRotobjVoronoi = _cheap_voronoi_classes()

    def __exit__(self, *a):
        if self.on:
            import molgri.space.rotobj as ro
            ro.RotobjVoronoi, ro.HalfRotobjVoronoi = self.saved


PLUMBING_ERRORS = ("AttributeError", "TypeError", "NameError")


# ------------------------------------------------------------------------------------------------------------
# reference polytopes (one per algorithm family, built level by level)
# ------------------------------------------------------------------------------------------------------------
_REF = {}


def ref_levels(family, upto):
    """list over levels 0..upto of (points, projections) in central-index order, from a fresh polytope; a pickled copy
    of the polytope object of every level is kept for the grid cases that get a ready-made polytope injected"""
    import pickle
    import molgri.space.polytopes as po
    cls = {"ico": po.IcosahedronPolytope, "cube3D": po.Cube3DPolytope, "cube4D": po.Cube4DPolytope}[family]
    have = _REF.get(family)
    if have is None:
        with core.quiet():
            p = cls()
        have = {"poly": p, "levels": [(np.array(p.get_nodes(projection=False)), np.array(p.get_nodes(projection=True)))],
                "pickles": [pickle.dumps(p)], "live": {}}
        _REF[family] = have
    while len(have["levels"]) <= upto:
        with core.quiet():
            have["poly"].divide_edges()
            p = have["poly"]
            have["levels"].append((np.array(p.get_nodes(projection=False)), np.array(p.get_nodes(projection=True))))
            have["pickles"].append(pickle.dumps(p))
    return have["levels"][:upto + 1]


def injected_polytope(family, level):
    """a private polytope object at `level` (unpickled once per process; replaced if a call changed its level)"""
    import pickle
    have = _REF[family]
    p = have["live"].get(level)
    if p is None or p.current_level != level + 1 or p.G.number_of_nodes() != len(have["levels"][level][0]):
        p = pickle.loads(have["pickles"][level])
        have["live"][level] = p
    return p


def family_of(alg):
    return "cube4D" if alg in ("cube4D", "fulldiv") else alg


def level_for(alg, N):
    counts = {"ico": ICO_COUNTS, "cube3D": CUBE3_COUNTS, "cube4D": CUBE4_HALF}[family_of(alg)]
    if alg == "fulldiv":
        return FULLDIV_TABLE.index(N) if N in FULLDIV_TABLE else 0
    for l, c in enumerate(counts):
        if c >= N:
            return l
    return None


# ------------------------------------------------------------------------------------------------------------
# case generation
# ------------------------------------------------------------------------------------------------------------
def _pool():
    b = float(TOL)
    return [0.0, -0.0, 1e-9, -1e-9, b, -b, float(np.nextafter(b, 1)), -float(np.nextafter(b, 1)), float(np.nextafter(b, 0)),
            5e-9, -5e-9, 2e-8, -2e-8, 0.3, -0.3, 0.5, -0.5, 1.0, -1.0, 2.0 ** -30, -2.0 ** -30, 0.7071067811865476]


def unit_cases(ctx):
    rng = ctx.rng
    pool = _pool()
    small = [0.0, 1e-9, -1e-9, 0.5, -0.5, 2e-8, -2e-8]
    # q_in_upper_sphere, exhaustive on the small pool
    for d in (1, 2, 3) if ctx.quick else (1, 2, 3, 4):
        for q in itertools.product(small, repeat=d):
            yield {"kind": "upper", "q": list(q)}
    for _ in range(300 if ctx.quick else 5000):
        d = rng.choice([1, 2, 3, 4, 4, 4, 5])
        yield {"kind": "upper", "q": [rng.choice(pool) if rng.random() < 0.8 else rng.uniform(-1, 1) for _k in range(d)]}
    # hemisphere_quaternion_set
    for _ in range(150 if ctx.quick else 2500):
        n = rng.randint(1, 6)
        w = 4 if rng.random() < 0.93 else rng.choice([3, 5])
        yield {"kind": "hemiset", "Q": [[rng.choice(pool) if rng.random() < 0.7 else rng.uniform(-1, 1) for _k in range(w)]
                                         for _r in range(n)]}
    # SphereGrid4Dim._gen_grid + get_upper_indices + get_grid_as_array on hand-made half grids
    for _ in range(200 if ctx.quick else 3000):
        m = rng.choice([0, 1, 1, 2, 3, 4, 5])
        N = m if rng.random() < 0.7 else max(1, m + rng.choice([-1, 1, 2]))
        w = 4 if rng.random() < 0.92 else rng.choice([3, 5])
        half = [[rng.choice(pool) if rng.random() < 0.6 else rng.uniform(-1, 1) for _k in range(w)] for _r in range(m)]
        if N >= 1:
            yield {"kind": "cover", "N": N, "half": half}
    # assertions of gen_grid
    deltas = [0.0, 1e-5, -1e-5, 1.9e-5, -1.9e-5, 2.1e-5, -2.1e-5, 3e-5, -3e-5, 1e-3, -1e-3, 1e-13]
    for _ in range(120 if ctx.quick else 2000):
        dims = rng.choice([3, 4])
        N = rng.randint(1, 5)
        rows = (N if dims == 3 else 2 * N) + (0 if rng.random() < 0.8 else rng.choice([-1, 1]))
        w = dims if rng.random() < 0.9 else dims + rng.choice([-1, 1])
        G = []
        nprng = np.random.default_rng(rng.getrandbits(32))
        for _r in range(max(rows, 0)):
            v = nprng.normal(size=w)
            v = v / np.linalg.norm(v) * (1.0 + (rng.choice(deltas) if rng.random() < 0.5 else 0.0))
            G.append([float(x) for x in v])
        yield {"kind": "gencheck", "dims": dims, "N": N, "G": G}
    # get_nodes / get_half_of_hypercube on hand-made polytopes
    lat = [p for p in itertools.product((-1, 0, 1), repeat=4) if any(p)]
    for _ in range(120 if ctx.quick else 2000):
        n = rng.randint(1, 12)
        pts = rng.sample(lat, n)
        if rng.random() < 0.5:      # add antipodes so that both signs are present
            pts = list(dict.fromkeys(pts + [tuple(-x for x in p) for p in pts[: n // 2]]))
        pts = [[0.5 * x for x in p] for p in pts]
        proj = [[float(x) for x in np.array(p) / np.linalg.norm(p)] for p in pts]
        if rng.random() < 0.25 and len(pts) >= 2:   # a node whose projection is np.isclose to an earlier one
            k = rng.randrange(len(pts))
            pts.append([x * (1 + 1e-7) for x in pts[k]])
            proj.append([x * (1 + 2e-7) for x in proj[k]])
        rng_order = list(range(len(pts)))
        rng.shuffle(rng_order)
        avail = len(pts)
        N = None if rng.random() < 0.3 else rng.randint(0, avail + 2)
        yield {"kind": "polyget", "pts": pts, "proj": proj, "order": rng_order, "N": N,
               "which": rng.choice(["half_proj", "half_pts", "nodes_proj", "nodes_pts"])}
    # rotation of z
    for _ in range(100 if ctx.quick else 2000):
        q = [rng.choice([0.0, 1.0, -1.0, 0.5]) if rng.random() < 0.3 else rng.uniform(-2, 2) for _k in range(4)]
        if any(q):
            yield {"kind": "rotz", "q": q}
    # fulldiv table (272 and 2080 build a large polytope in the constructor: 272 is covered by the grid cases)
    for N in list(range(1, 61)) + [100, 270, 271, 273, 274, 544, 2079, 2081]:
        yield {"kind": "fulldiv", "N": N}
    # factory dispatch
    for alg in ("ico", "cube3D", "randomS", "zero3D", "cube4D", "randomQ", "fulldiv", "zero4D", "cube", "", "ICO"):
        for dims in (2, 3, 4, 5):
            yield {"kind": "factory", "alg": alg, "dims": dims}
    # names with N = 1
    for role, algs in (("o", ("ico", "cube3D", "randomS", "zero3D", "zero", "")), ("b", ("cube4D", "randomQ", "fulldiv", "zero4D", "zero", ""))):
        for alg in algs:
            for N in (1, 2):
                if N == 1 or "zero" not in alg:      # 'zero' with another number is rejected by the name parser (C17)
                    yield {"kind": "named", "alg": alg, "N": N, "role": role}


def grid_cases(ctx):
    rng = ctx.rng
    out = []

    def add(alg, N, dim, stub, inject=False, model=True):
        c = {"kind": "grid", "alg": alg, "N": N, "dim": dim, "stub": bool(stub)}
        if inject:
            c["inject"] = True
        if not model:
            c["model"] = False
        out.append(c)

    # configurations: every algorithm x every way of making the grid x time_generation in {False, True} x a few N (level
    # boundaries; all affordable fulldiv sizes: 2080 needs the level-3 hypercube, > 10 min, and is not built in any tier)
    cfgN = {"ico": (1, 12, 13, 42, 43), "cube3D": (1, 8, 9, 26, 27), "randomS": (1, 7, 30), "zero3D": (1,),
            "cube4D": (1, 8, 9, 40), "randomQ": (1, 7, 30), "zero4D": (1,), "fulldiv": (8, 40)}
    for alg, Ns in cfgN.items():
        dim = 3 if alg in ("ico", "cube3D", "randomS", "zero3D") else 4
        for via in GRID_VIAS:
            for tg in (False, True):
                for N in Ns:
                    out.append({"kind": "grid", "alg": alg, "N": N, "dim": dim, "stub": N > 14, "cfg": {"via": via, "tg": tg}})
    heavy = [("factory", True), ("class", True), ("gen_and_time", False)] if ctx.quick else \
            [(v, t) for v in GRID_VIAS for t in (False, True)]
    for via, tg in heavy:            # fulldiv 272: one level-2 hypercube (about 11 s) per case
        out.append({"kind": "grid", "alg": "fulldiv", "N": 272, "dim": 4, "stub": True, "cfg": {"via": via, "tg": tg}})
    add("zero3D", 1, 3, False)
    add("zero4D", 1, 4, False)
    add("zero3D", 5, 3, False)      # N is overwritten by the zero grids
    add("zero4D", 7, 4, False)
    if ctx.quick:
        n3 = sorted(set(range(1, 61)) | {98, 99, 162, 163, 386, 387} | {rng.randint(61, 400) for _ in range(6)})
        for alg in ("ico", "cube3D", "randomS"):
            for N in n3:
                add(alg, N, 3, N > 60)
        for N in range(1, 42):
            add("cube4D", N, 4, N > 14)          # 41 needs the level-2 hypercube: one full run of the division loop
        for N in sorted({272} | {rng.randint(42, 271) for _ in range(3)}):
            add("cube4D", N, 4, True, inject=True)
        for N in sorted(set(range(1, 31)) | {rng.randint(31, 272) for _ in range(4)}):
            add("randomQ", N, 4, N > 14)
        for N in (8, 40, 272):
            add("fulldiv", N, 4, N > 14)
    else:
        for alg in ("ico", "cube3D", "randomS"):
            for N in range(1, 401):
                add(alg, N, 3, N > 150)
        add("ico", 642, 3, True)
        add("ico", 643, 3, True)
        add("cube3D", 1538, 3, True)
        # every remaining N through level 4 with the level's polytope injected; model comparison on a stride
        for alg, counts in (("ico", ICO_COUNTS), ("cube3D", CUBE3_COUNTS)):
            keep = set(counts) | {c + 1 for c in counts}
            for N in range(401, counts[-1] + 1):
                if alg == "ico" and N in (642, 643) or alg == "cube3D" and N == 1538:
                    continue
                add(alg, N, 3, True, inject=True, model=(N in keep or N % 37 == 0))
        via_factory = set(range(1, 41)) | {41, 42, 64, 100, 128, 200, 271, 272}
        for N in range(1, 273):
            add("cube4D", N, 4, N > 40, inject=N not in via_factory, model=(N in via_factory or N % 3 == 0))
            add("randomQ", N, 4, N > 40)
        for N in (8, 40, 272):
            add("fulldiv", N, 4, N > 40)
    return out


def poly_cases(ctx):
    if ctx.quick:
        return [{"kind": "poly", "alg": "ico", "level": l} for l in (0, 1, 2, 3)] + \
               [{"kind": "poly", "alg": "cube3D", "level": l} for l in (0, 1, 2, 3)] + \
               [{"kind": "poly", "alg": "cube4D", "level": l} for l in (0, 1, 2)]
    return [{"kind": "poly", "alg": "ico", "level": l} for l in range(5)] + \
           [{"kind": "poly", "alg": "cube3D", "level": l} for l in range(5)] + \
           [{"kind": "poly", "alg": "cube4D", "level": l} for l in range(3)]


# ------------------------------------------------------------------------------------------------------------
# unit cases: implementation, model ops, comparison, oracle
# ------------------------------------------------------------------------------------------------------------
# Synthetic objects of package classes are always made by the class's REAL constructor (on its smallest valid input) and
# only then are PUBLIC attributes overwritten - so everything `__init__` sets up (including private attributes a
# refactoring may add) exists.  Relied on: public attribute names (G, d, current_level, side_len, current_max_ci,
# current_nodes; node attributes central_index / projection / level / face) and method names of the unchanged tree;
# never private data attributes.
_POLY_TEMPLATE = {}


def _real_hypercube():
    """a really constructed, pristine level-0 Cube4DPolytope (built once, handed out as deep copies)"""
    import copy
    if "p" not in _POLY_TEMPLATE:
        from molgri.space.polytopes import Cube4DPolytope
        with core.quiet():
            _POLY_TEMPLATE["p"] = Cube4DPolytope()
    return copy.deepcopy(_POLY_TEMPLATE["p"])


def _stub_polytope(case):
    p = _real_hypercube()
    p.G.clear()                      # keep the graph object the constructor made, replace its content
    p.current_level = 1
    p.side_len = 1.0
    p.current_max_ci = len(case["pts"])
    p.current_nodes = (None, 0)      # public cache of the sorted nodes: invalidated
    for pt, pr, ci in zip(case["pts"], case["proj"], case["order"]):
        p.G.add_node(tuple(pt), central_index=ci, projection=np.array(pr), level=0, face=set())
    return p


_PRIVATE_NAME = None


def stub_plumbing_error(e, probe):
    """Is this exception a failure of the stub plumbing rather than of the code under test?  Yes iff it is an
    AttributeError / TypeError / NameError that names a private attribute or helper (`_something`) or the harness's own
    stand-in class, AND the same call on a really constructed, unmodified object (`probe()`) works."""
    import re
    if not isinstance(e, (AttributeError, TypeError, NameError)):
        return False
    msg = str(e)
    if not (re.search(r"['\"`]_[A-Za-z]\w*['\"`]", msg) or re.search(r"\b_[A-Za-z]\w*\(\)", msg) or "_StubVoronoi" in msg):
        return False
    try:
        with core.quiet():
            probe()
    except Exception:  # noqa: BLE001  the call fails on a real object too: not the stub's fault
        return False
    return True


def _cheap_then_real(run):
    """run(cheap=True) with the cheap Voronoi stand-ins; if that dies with an error that may be the stand-in's fault, the same
    with the really constructed Voronoi objects decides (its result or its error is what counts)"""
    try:
        return run(True)
    except (AttributeError, TypeError, NameError) as e:
        first = f"{type(e).__name__}: {str(e)[:200]}"
    try:
        out = run(False)
    except (AssertionError, AttributeError, TypeError, NameError):
        raise           # the assertions of gen_grid / errors of the code itself on really constructed objects: real outcomes
    except Exception:  # noqa: BLE001  scipy / qhull cannot build a diagram of a hand-made grid (e.g. rows of norm 1+1e-5 that
        return {"stub_incompatible": first}      # pass the 2e-5 assertion): not C07's subject, the case cannot be decided
    out["stub_note"] = first
    return out


def unit_impl(case):
    k = case["kind"]
    try:
        with core.quiet():
            if k == "upper":
                from molgri.space.utils import q_in_upper_sphere
                return {"upper": bool(q_in_upper_sphere(np.array(case["q"], dtype=float)))}
            if k == "hemiset":
                from molgri.space.utils import hemisphere_quaternion_set
                return {"rows": rows_f(hemisphere_quaternion_set(np.array(case["Q"], dtype=float)))}
            if k == "cover":
                from molgri.space.rotobj import RandomQRotations, SphereGrid4Dim
                g = RandomQRotations(N=case["N"])
                g.grid = np.array(case["half"], dtype=float)
                SphereGrid4Dim._gen_grid(g)
                return {"full": rows_f(g.grid), "idx": [int(i) for i in g.get_upper_indices()],
                        "upper": rows_f(g.get_grid_as_array(only_upper=True)) if len(g.get_upper_indices()) else [],
                        "all": rows_f(g.get_grid_as_array(only_upper=False))}
            if k == "gencheck":
                from molgri.space.rotobj import RandomQRotations, RandomSRotations

                def run(cheap):
                    g = (RandomSRotations if case["dims"] == 3 else RandomQRotations)(N=case["N"])      # real constructor
                    g.grid = np.array(case["G"], dtype=float).reshape(len(case["G"]), -1) if case["G"] else np.zeros((0, case["dims"]))
                    with _stubbed(cheap):
                        res = g.gen_grid()
                    return {"ok": True, "same": bool(res is g.grid)}
                return _cheap_then_real(run)
            if k == "polyget":
                p = _stub_polytope(case)
                w = case["which"]

                def call(q, N):
                    if w.startswith("half"):
                        return q.get_half_of_hypercube(projection=(w == "half_proj"), N=N)
                    return q.get_nodes(N=N, projection=(w == "nodes_proj"))
                try:
                    a = call(p, case["N"])
                except (AttributeError, TypeError, NameError) as e:
                    if stub_plumbing_error(e, lambda: call(_real_hypercube(), 3)):
                        return {"stub_incompatible": f"{type(e).__name__}: {str(e)[:200]}"}
                    raise
                return {"rows": rows_f(a) if len(a) else []}
            if k == "rotz":
                from scipy.spatial.transform import Rotation
                return {"row": [float(x) for x in Rotation.from_quat(np.array(case["q"], dtype=float)).apply(np.array([0, 0, 1]))]}
            if k == "fulldiv":
                from molgri.space.rotobj import FullDivCube4DRotations
                g = FullDivCube4DRotations(N=case["N"])
                return {"level": int(g.polytope.current_level) - 1}
            if k == "factory":
                from molgri.space.rotobj import SphereGridFactory
                def run(cheap):
                    with _stubbed(cheap):
                        g = SphereGridFactory.create(case["alg"], 8 if case["alg"] == "fulldiv" else 2, case["dims"])
                    return {"alg": g.algorithm_name}
                return _cheap_then_real(run)
            if k == "named":
                from molgri.naming import GridNameParser
                from molgri.space.rotobj import SphereGridFactory
                name = f"{case['alg']}_{case['N']}" if case["alg"] else f"{case['N']}"
                gp = GridNameParser(name, case["role"])
                dims = 3 if case["role"] == "o" else 4
                out = {"alg": gp.get_alg(), "N": int(gp.get_N())}
                if gp.get_N() == 1:
                    g = SphereGridFactory.create(gp.get_alg(), gp.get_N(), dims)
                    out["upper"] = rows_f(g.get_grid_as_array(only_upper=True) if dims == 4 else g.get_grid_as_array())
                    out["full"] = rows_f(g.get_grid_as_array(only_upper=False))
                return out
    except Exception as e:  # noqa: BLE001
        return {"err": core.errname(e)}
    raise core.HarnessError(f"unknown unit case {k}")


def _norm_tol():
    t = Fraction(1e-5) + Fraction(1e-5)      # atol + rtol*|1.0| of np.allclose(norms, 1, atol=1e-5)
    return (1 - t) ** 2, (1 + t) ** 2


def unit_ops(case, out):
    k = case["kind"]
    if k == "upper":
        return [{"op": "upper", "tol": R(TOL), "q": [R(x) for x in case["q"]]}]
    if k == "hemiset":
        return [{"op": "hemiset", "tol": R(TOL), "Q": [[R(x) for x in r] for r in case["Q"]]}]
    if k == "cover":
        half = [[R(x) for x in r] for r in case["half"]]
        ops = [{"op": "cover", "N": case["N"], "half": half}]
        if "full" in out:   # the getters are evaluated on the array the implementation produced
            G = [[R(x) for x in r] for r in out["full"]]
            ops += [{"op": "upper_idx", "tol": R(TOL), "G": G}, {"op": "as_array", "tol": R(TOL), "G": G, "only_upper": True},
                    {"op": "as_array", "tol": R(TOL), "G": G, "only_upper": False}]
        return ops
    if k == "gencheck":
        lo, hi = _norm_tol()
        return [{"op": "gencheck", "dims": case["dims"], "N": case["N"], "lo": R(lo), "hi": R(hi),
                 "G": [[R(x) for x in r] for r in case["G"]]}]
    if k == "polyget":
        order = case["order"]
        inv = sorted(range(len(order)), key=lambda i: order[i])
        proj = [[R(x) for x in case["proj"][i]] for i in inv]
        pts = [[R(x) for x in case["pts"][i]] for i in inv]
        w = case["which"]
        if w.startswith("half"):
            return [{"op": "select_half", "tol": R(TOL), "atol": R(ATOL), "rtol": R(RTOL), "proj": proj, "N": case["N"]}]
        return [{"op": "get_nodes", "nodes": proj if w == "nodes_proj" else pts, "N": case["N"]}]
    if k == "rotz":
        return [{"op": "rotz", "q": [R(x) for x in case["q"]]}]
    if k == "fulldiv":
        return [{"op": "fulldiv", "N": case["N"]}]
    if k == "factory":
        return [{"op": "factory", "alg": case["alg"], "dims": case["dims"]}]
    if k == "named":
        dims = 3 if case["role"] == "o" else 4
        return [{"op": "named", "alg": case["alg"], "N": case["N"], "dims": dims}, {"op": "zero", "dims": dims},
                {"op": "as_array", "tol": R(TOL), "G": [["0/1", "0/1", "0/1", "1/1"], ["0/1", "0/1", "0/1", "-1/1"]], "only_upper": True}]
    raise core.HarnessError(k)


def _stub_incompatible(ctx, case, out):
    """a synthetic object could not be driven through the code under test although a really constructed one can: harness
    plumbing, neither a correspondence break nor a failing input (counted, and said aloud)"""
    ctx.branch("stub_incompatible")
    if not getattr(ctx, "_c07_stub_note", False):
        ctx._c07_stub_note = True
        print(f"NOTE: C07 stub_incompatible: a hand-made / stand-in object ({case.get('kind')} case) does not fit the current code "
              f"({out['stub_incompatible']}); such cases are repeated with really constructed objects or skipped; all checks "
              f"on really constructed objects still run")
        ctx.note(f"stub_incompatible: {out['stub_incompatible']}")


def unit_compare(ctx, case, out, m):
    k = case["kind"]
    ctx.branch("unit:" + k)
    if "stub_incompatible" in out:
        _stub_incompatible(ctx, case, out)
        return
    if "stub_note" in out:
        _stub_incompatible(ctx, case, {"stub_incompatible": out["stub_note"]})
    m0 = m[0]
    if "err" in out or "err" in m0:
        ctx.branch(f"unit:{k}:err:{out.get('err', 'none')}")
        if k == "cover" and not cover_well_formed(case) and (("err" in out) != ("err" in m0)):
            # malformed stub half grid (wrong row count / width): numpy may raise or broadcast depending on how the doubling
            # is written; the model is indifferent there (outcomes are compared only when both raise or both return)
            ctx.branch("excluded:cover_malformed_raise_vs_return")
            return
        if out.get("err") != m0.get("err"):
            # gen_grid norm assertion: float sqrt against the exact squared bound may differ only at the boundary
            if k == "gencheck" and _gencheck_boundary(case):
                ctx.branch("excluded:gencheck_boundary")
                return
            ctx.corr(f"{k}/outcome", case, out, m0)
        return
    mv = m0["ok"]
    if k == "upper":
        if mv["upper"] != out["upper"] or mv["rec"] != out["upper"]:
            ctx.corr("q_in_upper_sphere", case, out, mv)
        if any(case["q"]):
            ctx.nt(("upper", tuple(case["q"])))
    elif k == "hemiset":
        if not same_exact(out["rows"], mv):
            ctx.corr("hemisphere_quaternion_set", case, out["rows"], mv)
        ctx.nt(("hemiset", str(case["Q"])))
    elif k == "cover":
        if not same_exact(out["full"], mv):
            ctx.corr("SphereGrid4Dim._gen_grid", case, out["full"], mv)
        if m[1].get("ok") != out["idx"]:
            ctx.corr("get_upper_indices", case, out["idx"], m[1])
        if not same_exact(out["upper"], m[2].get("ok", None) or []):
            ctx.corr("get_grid_as_array(only_upper=True)", case, out["upper"], m[2])
        if not same_exact(out["all"], m[3].get("ok", None) or []):
            ctx.corr("get_grid_as_array(only_upper=False)", case, out["all"], m[3])
        ctx.nt(("cover", case["N"], str(case["half"])))
    elif k == "gencheck":
        if mv is not True or not out.get("same"):
            ctx.corr("gen_grid assertions", case, out, mv)
        ctx.nt(("gencheck", str(case["G"])))
    elif k == "polyget":
        order = case["order"]
        inv = sorted(range(len(order)), key=lambda i: order[i])
        w = case["which"]
        src = case["proj"] if w.endswith("proj") else case["pts"]
        if w.startswith("half"):
            exp = [[float(x) for x in src[inv[i]]] for i in mv]
            if exp != (out["rows"] or []):
                ctx.corr("get_half_of_hypercube", case, out["rows"], {"idx": mv, "rows": exp})
        else:
            if not same_exact(out["rows"], mv):
                ctx.corr("get_nodes", case, out["rows"], mv)
        ctx.nt(("polyget", w, str(case["pts"]), str(case["order"]), case["N"]))
    elif k == "rotz":
        if not close_rows([out["row"]], [mv], 1e-12):
            ctx.corr("random_sphere_points rotation", case, out["row"], mv)
        ctx.nt(("rotz", tuple(case["q"])))
    elif k == "fulldiv":
        if mv != out["level"]:
            ctx.corr("fulldiv table", case, out, mv)
        ctx.nt(("fulldiv", case["N"]))
    elif k == "factory":
        if mv != out["alg"]:
            ctx.corr("factory dispatch", case, out, mv)
    elif k == "named":
        dims = 3 if case["role"] == "o" else 4
        known = case["alg"] in (("ico", "cube3D", "randomS") if dims == 3 else ("cube4D", "randomQ", "fulldiv"))
        if known and mv != out["alg"]:
            ctx.corr("named grid algorithm", case, out, mv)
        if out.get("N") == 1:
            z = m[1]["ok"]
            if not same_exact(out["full"], z):
                ctx.corr("zero grid", case, out["full"], z)
            if dims == 4 and not same_exact(out["upper"], m[2]["ok"]):
                ctx.corr("zero grid only_upper", case, out["upper"], m[2])
        ctx.nt(("named", case["alg"], case["N"], case["role"]))


def _gencheck_boundary(case):
    lo = 1 - 2e-5
    hi = 1 + 2e-5
    for r in case["G"]:
        n = float(np.linalg.norm(r))
        if abs(n - lo) < 1e-11 or abs(n - hi) < 1e-11:
            return True
    return False


def cover_well_formed(case):
    """a half grid as every supported algorithm hands it to SphereGrid4Dim._gen_grid: shape (N, 4), finite entries"""
    half = case["half"]
    return (case["N"] >= 1 and len(half) == case["N"] and all(len(r) == 4 for r in half)
            and all(math.isfinite(float(x)) for r in half for x in r))


def unit_oracle(ctx, case, out):
    """The property's statement on the low-level functions.

    RULE: the oracle (ctx.fail) judges WELL-FORMED inputs only, i.e. inputs inside the property's quantifier:
      * q_in_upper_sphere / hemisphere_quaternion_set: finite vectors (rows of exactly four numbers for the set) that have a
        Gap (every coordinate exactly zero or larger than 1e-8 in size; non-zero where 'one of q, -q' is judged) - inside the
        tolerance the statement 'first non-zero coordinate positive' leaves the answer to the code;
      * SphereGrid4Dim._gen_grid and the getters on top of it: a half grid of shape (N, 4) with finite entries (and canonical
        Gap rows for the only_upper clause); a stub half grid with another row count or width is malformed internal input that
        no supported algorithm produces - whether the code raises or broadcasts there is outside the property;
      * rotation of z: a finite non-zero quaternion;  names: the N = 1 clause only.
    Malformed inputs are still compared with the model (ctx.corr, in unit_compare): a changed behaviour there breaks the tie,
    it is never presented as an input on which the property fails."""
    k = case["kind"]
    if "stub_incompatible" in out:
        return
    if k == "upper":
        if not all(math.isfinite(float(x)) for x in case["q"]):
            ctx.branch("excluded:upper_non_finite")
        elif "err" in out:
            ctx.fail("C07:exception", f"q_in_upper_sphere raised {out['err']}", case)
        elif gap_ok(case["q"]):
            if out["upper"] != exact_upper(case["q"]):
                ctx.fail("C07:hemisphere", "q_in_upper_sphere differs from 'first non-zero coordinate positive'", case,
                         exact_upper(case["q"]), out["upper"])
        else:
            ctx.branch("excluded:upper_inside_tolerance")
    elif k == "hemiset" and "rows" in out:
        if all(len(r) == 4 and all(math.isfinite(float(x)) for x in r) and gap_ok(r) and any(r) for r in case["Q"]):
            for q, c in zip(case["Q"], out["rows"]):
                if not exact_upper(c) or not (list(map(float, c)) == [float(x) for x in q] or [float(x) for x in c] == [-float(x) for x in q]):
                    ctx.fail("C07:hemisphere", "hemisphere_quaternion_set does not return the canonical one of q, -q", case, None, out["rows"])
                    break
        else:
            ctx.branch("excluded:hemiset_inside_tolerance")
    elif k == "cover" and not cover_well_formed(case):
        ctx.branch("excluded:cover_malformed_half_grid")
    elif k == "cover" and "err" in out:
        ctx.fail("C07:exception", f"SphereGrid4Dim._gen_grid raised {out['err']} on a well-formed (N,4) half grid", case)
    elif k == "cover" and "full" in out:
        N = case["N"]
        F = np.array(out["full"])
        H = np.array(case["half"], dtype=float)
        if F.shape != (2 * N, 4) or not np.array_equal(F[:N], H) or not np.array_equal(F[N:], -H):
            ctx.fail("C07:double_cover", "double cover is not [G; -G]", case, None, out["full"])
        elif all(gap_ok(r) and exact_upper(r) for r in case["half"]):
            if out["idx"] != list(range(N)) or not np.array_equal(np.array(out["upper"]).reshape(-1, 4), H):
                ctx.fail("C07:double_cover", "only_upper of the double cover of canonical rows is not the N rows", case, None, out)
    elif k == "named" and "err" not in out:
        dims = 3 if case["role"] == "o" else 4
        if case["N"] == 1 and (case["alg"] in ("ico", "cube3D", "randomS", "cube4D", "randomQ", "fulldiv", "zero3D", "zero4D", "zero", "")):
            exp = [[0.0, 0.0, 1.0]] if dims == 3 else [[0.0, 0.0, 0.0, 1.0]]
            if out.get("N") != 1 or out.get("upper") != exp:
                ctx.fail("C07:named_N1", "a grid requested by name with N=1 is not the z direction / identity rotation", case, exp, out)
            elif dims == 4 and out.get("full") != [[0.0, 0.0, 0.0, 1.0], [-0.0, -0.0, -0.0, -1.0]]:
                ctx.fail("C07:named_N1", "double cover of the identity rotation is not [q; -q]", case, None, out)
    elif k == "rotz" and "row" in out and any(case["q"]) and all(math.isfinite(float(x)) for x in case["q"]):
        if abs(float(np.linalg.norm(out["row"])) - 1) > NORM_EPS:
            ctx.fail("C07:norm", "rotated z vector is not a unit vector", case, 1.0, out["row"])


# ------------------------------------------------------------------------------------------------------------
# grid cases
# ------------------------------------------------------------------------------------------------------------
# Getters of a grid object that return a COPY on the unchanged tree (probed once with np.shares_memory on cube4D, randomQ,
# zero4D, fulldiv, ico, cube3D, randomS, zero3D): the fancy-indexed `grid[upper_indices]`.
#   4-D: get_grid_as_array(only_upper=True) and the default call (only_upper defaults to True)
#   3-D: get_grid_as_array(only_upper=True)
# NOT listed (they return the stored array itself also on the unchanged tree, so writing into them is the caller's problem):
#   get_grid_as_array(only_upper=False) in both dimensions and the 3-D default call.
COPY_GETTERS = {4: (("get_grid_as_array(only_upper=True)", {"only_upper": True}), ("get_grid_as_array()", {})),
                3: (("get_grid_as_array(only_upper=True)", {"only_upper": True}),)}


def _alias_probe(g, dim, full, upper, idx):
    """Overwrite, in place, the array a copy-getter returned and read the grid again: the object's own grid must not
    change (otherwise a caller that reorders / negates / re-normalises the returned upper half silently destroys the
    canonical half and the [G; -G] layout).  Returns None or a description of the first difference."""
    for name, kw in COPY_GETTERS[dim]:
        a = g.get_grid_as_array(**kw)
        if not isinstance(a, np.ndarray) or a.size == 0:
            continue
        try:
            a[...] = 7.5          # no grid row can look like this
        except ValueError:        # read-only array: cannot alias
            continue
        full2 = np.array(g.get_grid_as_array(only_upper=False), dtype=float)
        idx2 = [int(i) for i in g.get_upper_indices()]
        upper2 = np.array(g.get_grid_as_array(only_upper=True), dtype=float) if idx2 else np.zeros((0, dim))
        for what, before, after in (("get_grid_as_array(only_upper=False)", full, full2),
                                    ("get_grid_as_array(only_upper=True)", upper, upper2)):
            if before.shape != after.shape or not np.array_equal(before, after):
                row = 0
                if before.shape == after.shape:
                    row = int(np.nonzero((before != after).any(axis=1))[0][0])
                return {"written_into": name, "changed_read": what, "row": row,
                        "before": before[row].tolist() if row < len(before) else None,
                        "after": after[row].tolist() if row < len(after) else None,
                        "shape_before": list(before.shape), "shape_after": list(after.shape)}
        if idx2 != idx:
            return {"written_into": name, "changed_read": "get_upper_indices()", "before": idx[:10], "after": idx2[:10]}
    return None


# Every public way of producing a grid object and every keyword the factories / classes accept (rotobj.py: the only keyword
# besides N is `time_generation`; the command-line script molgri-grid creates every grid with time_generation=True).
# The expected grid does not depend on the configuration - that is what the cases with a "cfg" check.
GRID_VIAS = ("factory",        # SphereGridFactory.create(alg, N, dimensions, **kw)
             "dimfactory",     # SphereGrid3DFactory / SphereGrid4DFactory.create(alg_name=alg, N=N, **kw)
             "class",          # <GridClass>(N=N, **kw).gen_grid()
             "gen_and_time")   # <GridClass>(N=N, **kw).gen_and_time()  (the public timed generator), then gen_grid()


def _grid_classes(ro):
    return {"ico": ro.IcoRotations, "cube3D": ro.Cube3DRotations, "randomS": ro.RandomSRotations, "zero3D": ro.ZeroRotations3D,
            "cube4D": ro.Cube4DRotations, "randomQ": ro.RandomQRotations, "fulldiv": ro.FullDivCube4DRotations,
            "zero4D": ro.ZeroRotations4D}


def _make_grid(ro, alg, N, dim, cfg):
    """returns (grid object after generation, array returned by the generating call or None)"""
    via = cfg.get("via", "factory")
    kw = {"time_generation": bool(cfg["tg"])} if "tg" in cfg else {}
    if via == "factory":
        return ro.SphereGridFactory.create(alg, N, dim, **kw), None
    if via == "dimfactory":
        fac = ro.SphereGrid3DFactory if dim == 3 else ro.SphereGrid4DFactory
        return fac.create(alg_name=alg, N=N, **kw), None
    g = _grid_classes(ro)[alg](N=N, **kw)
    if via == "class":
        return g, g.gen_grid()
    if via == "gen_and_time":
        arr = g.gen_and_time()
        if g.grid is None:          # the 3-D generators return the array, gen_grid() is what stores it
            g.grid = arr
        g.gen_grid()                # assertions + Voronoi object on the stored array (no second generation)
        return g, arr
    raise core.HarnessError(f"unknown way of making a grid: {via}")


def _cfg_text(case):
    cfg = case.get("cfg") or {}
    alg, N, dim = case["alg"], case["N"], case["dim"]
    kw = f", time_generation={bool(cfg['tg'])}" if "tg" in cfg else ""
    via = cfg.get("via", "factory")
    if via == "factory":
        return f"SphereGridFactory.create({alg!r}, {N}, {dim}{kw})"
    if via == "dimfactory":
        return f"SphereGrid{dim}DFactory.create(alg_name={alg!r}, N={N}{kw})"
    if via == "class":
        return f"{alg} grid class (N={N}{kw}).gen_grid()"
    return f"{alg} grid class (N={N}{kw}).gen_and_time()"


def grid_impl(case):
    """SphereGridFactory.create(alg, N, dim) (or the way of making the grid named by case['cfg']) and its getters.  With case['inject'] the grid object is created by its
    class constructor and handed the reference polytope of the level the loop would stop at (saves rebuilding the
    polytope for every N; the divide-until-enough loop itself is exercised by the factory cases)."""
    alg, N, dim = case["alg"], case["N"], case["dim"]
    try:
        with core.quiet(), _stubbed(case.get("stub", False)):
            import molgri.space.rotobj as ro
            if case.get("inject"):
                g = {"ico": ro.IcoRotations, "cube3D": ro.Cube3DRotations, "cube4D": ro.Cube4DRotations}[alg](N=N)
                g.polytope = injected_polytope(family_of(alg), level_for(alg, N))
                g.gen_grid()
            else:
                g, returned = _make_grid(ro, alg, N, dim, case.get("cfg") or {})
            full = np.array(g.get_grid_as_array(only_upper=False), dtype=float)
            idx = [int(i) for i in g.get_upper_indices()]
            upper = np.array(g.get_grid_as_array(only_upper=True), dtype=float) if idx else np.zeros((0, dim))
            default = np.array(g.get_grid_as_array(), dtype=float)
            out = {"full": full, "upper": upper, "idx": idx, "default_is": "upper" if np.array_equal(default, upper) and dim == 4 else
                   ("full" if np.array_equal(default, full) else "other"), "N_attr": int(g.N), "get_N": int(g.get_N())}
            # every public way of reading the grid must show the same array / the same N
            attr = getattr(g, "grid", None)
            out["attr_same"] = bool(isinstance(attr, np.ndarray) and attr.shape == full.shape and np.array_equal(attr, full))
            out["len"] = int(len(g))
            if not case.get("inject") and returned is not None:
                r = np.asarray(returned, dtype=float)
                out["returned_same"] = bool(r.shape == full.shape and np.array_equal(r, full))
            out["alias"] = _alias_probe(g, dim, full, upper, idx)
            if g.polytope is not None:
                out["level"] = int(g.polytope.current_level) - 1
                fam = family_of(alg)
                lv = _REF.get(fam, {}).get("levels", [])
                proj = np.array(g.polytope.get_nodes(projection=True), dtype=float)
                out["proj_same"] = bool(out["level"] < len(lv) and np.array_equal(proj, lv[out["level"]][1]))
            return out
    except Exception as e:  # noqa: BLE001
        return {"err": core.errname(e), "msg": str(e)[:300]}


CASE_LIMIT_S = 600      # one factory call normally takes < 15 s (cube4D level 2); far beyond that it is reported as not returning


class _CaseTimeout(BaseException):
    pass


def _with_limit(fn, case):
    import signal
    import threading
    if threading.current_thread() is not threading.main_thread():
        return fn(case)

    def on_alarm(*_):
        raise _CaseTimeout()
    old = signal.signal(signal.SIGALRM, on_alarm)
    remaining = signal.alarm(CASE_LIMIT_S)
    try:
        return fn(case)
    except _CaseTimeout:
        return {"err": "other:Timeout", "msg": f"no grid returned within {CASE_LIMIT_S} s"}
    finally:
        signal.alarm(0)
        signal.signal(signal.SIGALRM, old)
        if remaining:
            signal.alarm(max(1, remaining))


def _grid_task(case):
    """worker: implementation + the statement's oracle; big arrays are dropped when the model does not need them"""
    out = _with_limit(grid_impl, case)
    if case.get("stub") and out.get("err") in PLUMBING_ERRORS:
        # possibly the cheap Voronoi stand-in does not fit the current code: repeat with the really constructed Voronoi
        # objects; only if that works is the first failure put down to the stand-in (otherwise the real failure is reported)
        again = _with_limit(grid_impl, {**case, "stub": False})
        if "err" not in again:
            again["stub_incompatible"] = f"{out['err']}: {out.get('msg', '')}"
        out = again
    fails = grid_check(case, out)
    if not case.get("model", True) and "err" not in out:
        out = {k: v for k, v in out.items() if k not in ("full", "upper", "idx")}
        out["dropped"] = True
    return out, fails


def _one_thread(fn):
    """run a worker task with BLAS/OpenMP pools limited to one thread (16 workers x 16 BLAS threads would thrash)"""
    def wrapped(x):
        try:
            from threadpoolctl import threadpool_limits
        except Exception:  # noqa: BLE001
            return fn(x)
        with threadpool_limits(limits=1):
            return fn(x)
    return wrapped


def _grid_impl_worker(case):
    return _one_thread(_grid_task)(case)


def _pool_map(fn, items, ctx):
    items = list(items)
    if len(items) < 4 or os.environ.get("VERIF_SERIAL"):
        return [fn(i) for i in items]
    import multiprocessing as mp
    nproc = min(16, os.cpu_count() or 2, len(items))
    with mp.get_context("fork").Pool(nproc) as pool:
        return pool.map(fn, items, chunksize=1)


def random_quats(N):
    """the numbers RandomQRotations / RandomSRotations draw: np.random.seed(0); random_quaternions(N)"""
    from molgri.space.utils import random_quaternions
    st = np.random.get_state()
    try:
        np.random.seed(0)
        return np.array(random_quaternions(N), dtype=float)
    finally:
        np.random.set_state(st)


def grid_check(case, out):
    """the statement of C07 on one generated grid; independent of the model.  Returns [(key, what, expected, observed)]"""
    fails = []

    class _C:
        @staticmethod
        def fail(key, what, case, expected=None, observed=None):
            fails.append((key, what, expected, observed))

        @staticmethod
        def branch(*a):
            pass
    ctx = _C
    _grid_check_body(ctx, case, out)
    return fails


def _grid_check_body(ctx, case, out):
    alg, N, dim = case["alg"], case["N"], case["dim"]
    if alg in ("zero3D", "zero4D"):
        Nexp = 1
    else:
        Nexp = N
    if "err" in out:
        if alg == "fulldiv" and N not in FULLDIV_TABLE and out["err"] == "ValueError":
            ctx.branch("grid:fulldiv_rejected")
            return
        call = (f"{alg} grid class with N={N} and the level-{level_for(alg, N)} polytope, gen_grid()" if case.get("inject")
                else _cfg_text(case))
        ctx.fail("C07:exception", f"{call} raised {out['err']}: {out.get('msg', '')}", case)
        return
    if out.get("alias"):
        al = out["alias"]
        ctx.fail("C07:aliasing", f"overwriting the array returned by {al['written_into']} changes the grid object itself: a second "
                                 f"{al['changed_read']} differs (the stored rows are no longer unit / canonical / [G; -G])", case,
                 al.get("before"), al)
        return
    full, upper = out["full"], out["upper"]
    rows = upper if dim == 4 else full
    exp_shape = (Nexp, dim)
    if rows.shape != exp_shape or (dim == 4 and full.shape != (2 * Nexp, 4)) or out["get_N"] != Nexp or out.get("len", Nexp) != Nexp:
        ctx.fail("C07:shape", f"grid does not have exactly N={Nexp} rows", case, list(exp_shape),
                 [list(rows.shape), list(full.shape), out["get_N"], out.get("len")])
        return
    if out.get("attr_same") is False or out.get("returned_same") is False:
        which = "the .grid attribute" if out.get("attr_same") is False else "the array returned by the generating call"
        ctx.fail("C07:shape", f"{which} is not the array get_grid_as_array(only_upper=False) shows", case)
        return
    if not np.all(np.isfinite(full)):
        ctx.fail("C07:norm", "non-finite coordinate", case)
        return
    dev = float(np.abs(np.linalg.norm(full, axis=1) - 1).max())
    if dev > NORM_EPS:
        ctx.fail("C07:norm", f"row norm deviates from 1 by {dev:.3e}", case, 1.0, dev)
        return
    if dim == 4:
        if not np.array_equal(full[:Nexp], upper) or not np.array_equal(full[Nexp:], -full[:Nexp]) or out["idx"] != list(range(Nexp)):
            ctx.fail("C07:double_cover", "full array is not the N rows followed by their exact negatives in the same order", case,
                     None, {"idx": out["idx"][:10]})
            return
        bad = [i for i, q in enumerate(upper) if not exact_upper(q)]
        if bad:
            ctx.fail("C07:hemisphere", f"row {bad[0]} is not in the canonical half (first non-zero coordinate positive)", case,
                     None, [float(x) for x in upper[bad[0]]])
            return
        if out["default_is"] != "upper":
            ctx.fail("C07:double_cover", "default get_grid_as_array() of a rotation grid is not the upper half", case)
            return
    if Nexp >= 2:
        d = min_chord(full)
        if d <= 1e-12:
            what = "two rows coincide" if dim == 3 else "two rows coincide or are antipodal (same rotation)"
            ctx.fail("C07:distinct" if dim == 3 else "C07:same_rotation", what, case, "> 0", d)
            return
        if alg in ("ico", "cube3D") and d < bound_dir(Nexp) * (1 - SAFETY):
            ctx.fail("C07:separation", f"minimum chord {d:.6g} < 1/sqrt(N) = {bound_dir(Nexp):.6g}", case, bound_dir(Nexp), d)
            return
        if alg in ("cube4D", "fulldiv") and d < bound_rot(Nexp) * (1 - SAFETY):
            ctx.fail("C07:separation", f"minimum chord of the double cover {d:.6g} < 0.6/cbrt(N) = {bound_rot(Nexp):.6g}", case,
                     bound_rot(Nexp), d)
            return
    if alg == "zero3D" and not np.array_equal(full, np.array([[0.0, 0.0, 1.0]])):
        ctx.fail("C07:named_N1", "zero3D is not the z direction", case, None, full.tolist())
    if alg == "zero4D" and not np.array_equal(upper, np.array([[0.0, 0.0, 0.0, 1.0]])):
        ctx.fail("C07:named_N1", "zero4D is not the identity rotation", case, None, upper.tolist())


def run_grids(ctx, cases):
    if not cases:
        return
    _dbg(f"grids: {len(cases)} factory calls")
    outs = _pool_map(_grid_impl_worker, cases, ctx)
    _dbg("grids: factory calls done")
    by_alg = {}
    for c, (o, fails) in zip(cases, outs):
        ctx.count()
        ctx.branch(f"grid:{c['alg']}")
        ctx.branch("grid:stub_voronoi" if c.get("stub") else "grid:real_voronoi")
        cfg = c.get("cfg") or {}
        ctx.branch("grid:polytope_injected" if c.get("inject") else f"grid:via_{cfg.get('via', 'factory')}")
        if "tg" in cfg:
            ctx.branch(f"grid:time_generation={bool(cfg['tg'])}")
        if "err" in o:
            ctx.branch(f"grid:err:{o['err']}")
        if o.get("stub_incompatible"):
            _stub_incompatible(ctx, c, o)
        for key, what, exp, obs in fails:
            ctx.fail(key, what, c, exp, obs)
        if c.get("model", True) or "err" in o:
            by_alg.setdefault(c["alg"], []).append((c, o))
        else:
            ctx.branch("grid:oracle_only")
        if c["N"] >= 2 and "err" not in o:
            ctx.nt(("grid", c["alg"], c["N"], json.dumps(c.get("cfg"), sort_keys=True)))
        if c["alg"] in ("cube4D", "ico") and c["N"] in (13, 41):
            ctx.sample({"case": c, "first_rows": o.get("upper", o.get("full", np.zeros((0, 0))))[:2].tolist() if "err" not in o else o})
    # ---- correspondence, one sweep op per algorithm -------------------------------------------------------
    for alg, lst in by_alg.items():
        _dbg(f"grids: model sweep {alg}")
        if alg in POLY and family_of(alg) in getattr(ctx, "_c07_broken", {}):
            ctx.corr(f"{alg}: no reference polytope ({ctx._c07_broken[family_of(alg)]}); model sweep not comparable", lst[0][0], None, None)
            continue
        Ns = [c["N"] for c, _ in lst]
        if alg in ("ico", "cube3D"):
            L = max(level_for(alg, n) for n in Ns)
            levels = ref_levels(alg, L)
            ops = [{"op": "sweep3d", "levels": [rows_r(pr) for _, pr in levels], "Ns": Ns}]
            res = ctx.model(ops)[0]
            if "err" in res:
                raise core.HarnessError(f"sweep3d: {res}")
            for (c, o), mo in zip(lst, res["ok"]):
                _cmp_grid3(ctx, c, o, mo, levels)
        elif alg in ("cube4D", "fulldiv"):
            L = max(level_for(alg, n) for n in Ns)
            levels = ref_levels("cube4D", L)
            ops = [{"op": "sweep4d", "mode": alg, "tol": R(TOL), "atol": R(ATOL), "rtol": R(RTOL),
                    "levels": [rows_r(pr) for _, pr in levels], "Ns": Ns}]
            res = ctx.model(ops)[0]
            if "err" in res:
                raise core.HarnessError(f"sweep4d: {res}")
            for (c, o), mo in zip(lst, res["ok"]):
                _cmp_grid4(ctx, c, o, mo, levels)
        elif alg == "randomQ":
            Q = random_quats(max(Ns))
            for n in sorted(set(Ns))[:: max(1, len(set(Ns)) // 8)]:
                if not np.array_equal(random_quats(n), Q[:n]):
                    raise core.HarnessError("random_quaternions(n) is not a prefix of random_quaternions(max)")
            ops = [{"op": "sweep_randomq", "tol": R(TOL), "quats": rows_r(Q), "Ns": Ns}, {"op": "gap", "tol": R(TOL), "G": rows_r(Q)}]
            res = ctx.model(ops)
            if res[1].get("ok") is not True:
                ctx.note("randomQ: a random quaternion has a coordinate inside the 1e-8 tolerance (Gap hypothesis of upper_xor not met)")
                ctx.branch("hypothesis:gap_violated_randomQ")
            else:
                ctx.branch("hypothesis:gap_ok")
            for (c, o), mo in zip(lst, res[0]["ok"]):
                _cmp_grid4(ctx, c, o, mo, None)
        elif alg == "randomS":
            Q = random_quats(max(Ns))
            res = ctx.model([{"op": "sweep_rotz", "quats": rows_r(Q)}])[0]
            rows = res["ok"]
            for c, o in lst:
                if "err" in o:
                    ctx.corr("randomS/outcome", c, o, "ok")
                elif not close_rows(o["full"], rows[:c["N"]], 1e-12):
                    ctx.corr("randomS grid = rotated z vectors of the seeded quaternions", c, o["full"][:3].tolist(), rows[:3])
        elif alg in ("zero3D", "zero4D"):
            dims = 3 if alg == "zero3D" else 4
            z = ctx.model([{"op": "zero", "dims": dims}])[0]["ok"]
            for c, o in lst:
                if "err" in o or not same_exact(o["full"], z):
                    ctx.corr("zero grid", c, o if "err" in o else o["full"].tolist(), z)


def _cmp_grid3(ctx, c, o, mo, levels):
    if "err" in o or "err" in mo:
        if o.get("err") != mo.get("err"):
            ctx.corr("gen3D/outcome", c, {k: v for k, v in o.items() if k in ("err", "msg")} or "ok", mo.get("err", "ok"))
        return
    if o["level"] != mo["level"]:
        ctx.corr("number of divide_edges() calls", c, o["level"], mo["level"])
        return
    if not o["proj_same"]:
        ctx.corr("polytope of the grid object differs from a fresh polytope at the same level", c, None, None)
        return
    if not same_exact(o["full"], mo["rows"]):
        ctx.corr("grid = first N projected nodes", c, first_diff(o["full"], mo["rows"]), "see implementation field")


def _cmp_grid4(ctx, c, o, mo, levels):
    if "err" in o or "err" in mo:
        if o.get("err") != mo.get("err"):
            ctx.corr("gen4D/outcome", c, {k: v for k, v in o.items() if k in ("err", "msg")} or "ok", mo.get("err", "ok"))
        return
    if levels is not None:
        if o["level"] != mo["level"]:
            ctx.corr("number of divide_edges() calls", c, o["level"], mo["level"])
            return
        if not o["proj_same"]:
            ctx.corr("polytope of the grid object differs from a fresh polytope at the same level", c, None, None)
            return
    if not same_exact(o["full"], mo["full"]):
        ctx.corr("double cover array", c, first_diff(o["full"], mo["full"]), "see implementation field")
    elif not same_exact(o["upper"], mo["upper"]):
        ctx.corr("get_grid_as_array(only_upper=True)", c, first_diff(o["upper"], mo["upper"]), "see implementation field")
    elif o["idx"] != mo["upper_idx"]:
        ctx.corr("get_upper_indices", c, o["idx"][:10], mo["upper_idx"][:10])


# ------------------------------------------------------------------------------------------------------------
# poly cases: one level of a polytope, every prefix N
# ------------------------------------------------------------------------------------------------------------
def run_polys(ctx, cases):
    for c in cases:
        ctx.count()
        alg, L = c["alg"], c["level"]
        _dbg(f"poly {alg} {L}")
        ctx.branch(f"poly:{alg}:level{L}")
        levels = ref_levels(alg, L)
        pts, proj = levels[L]
        n = len(pts)
        counts = {"ico": ICO_COUNTS, "cube3D": CUBE3_COUNTS, "cube4D": CUBE4_FULL}[alg]
        p = _REF[alg]["poly"]
        # ---------- oracle on the implementation's floats -------------------------------------------------
        if n != counts[L]:
            ctx.fail("C07:distinct", f"{alg} level {L} has {n} nodes, the solid has {counts[L]} lattice points "
                                     "(a geometric point was split into two float keys or lost)", c, counts[L], n)
        dev = float(np.abs(np.linalg.norm(proj, axis=1) - 1).max())
        if dev > NORM_EPS:
            ctx.fail("C07:norm", f"projection norm deviates from 1 by {dev:.3e}", c)
        if alg == "cube4D":
            try:
                with core.quiet():
                    H = np.array(p.get_half_of_hypercube(projection=True)) if L == len(_REF[alg]["levels"]) - 1 else None
            except Exception as e:  # noqa: BLE001
                ctx.fail("C07:exception", f"get_half_of_hypercube raised {core.errname(e)}: {str(e)[:200]}", c)
                continue
            if H is None:
                from molgri.space.utils import q_in_upper_sphere
                H = np.array([q for q in proj if q_in_upper_sphere(q)])
            rowsN = H
            if len(H) * 2 != n:
                ctx.fail("C07:same_rotation", f"half of the hypercube has {len(H)} rows for {n} nodes", c, n // 2, len(H))
            bad = [i for i, q in enumerate(H) if not exact_upper(q)]
            if bad:
                ctx.fail("C07:hemisphere", f"half-hypercube row {bad[0]} is not canonical", c, None, H[bad[0]].tolist())
            M = prefix_min_dist(H, antipodes=True)
            bnd, kind = bound_rot, "rot"
        else:
            rowsN = proj
            M = prefix_min_dist(proj)
            bnd, kind = bound_dir, "dir"
        viol = [N for N in range(2, len(rowsN) + 1) if M[N] < bnd(N) * (1 - SAFETY)]
        dup = [N for N in range(2, len(rowsN) + 1) if M[N] <= 1e-12]
        if dup:
            ctx.fail("C07:distinct" if kind == "dir" else "C07:same_rotation", f"first {dup[0]} nodes of {alg} level {L} contain a repeated point",
                     {**c, "N": dup[0]}, "> 0", float(M[dup[0]]))
        elif viol:
            N = viol[0]
            ctx.fail("C07:separation", f"{alg} level {L}: first {N} rows have minimum chord {M[N]:.6g} < bound {bnd(N):.6g}",
                     {**c, "N": N}, bnd(N), float(M[N]))
        worst = min(((M[N] / bnd(N), N) for N in range(2, len(rowsN) + 1)), default=(math.inf, 0))
        ctx.extra_cov.setdefault("worst_separation_ratio", {})[f"{alg}:L{L}"] = [round(worst[0], 4), worst[1]]
        # getter at some N really returns the prefix
        for N in sorted({1, 2, len(rowsN) // 2, len(rowsN)} | {ctx.rng.randint(1, len(rowsN)) for _ in range(4)}):
            if L != len(_REF[alg]["levels"]) - 1:
                break
            try:
                with core.quiet():
                    a = p.get_half_of_hypercube(projection=True, N=N) if alg == "cube4D" else p.get_nodes(N=N, projection=True)
            except Exception as e:  # noqa: BLE001
                ctx.fail("C07:exception", f"polytope getter with N={N} raised {core.errname(e)}: {str(e)[:200]}", {**c, "N": N})
                continue
            if not np.array_equal(np.array(a), rowsN[:N]):
                ctx.fail("C07:shape", f"getter with N={N} is not the first N rows of the full getter", {**c, "N": N})
        if n >= 2:
            ctx.nt(("poly", alg, L))
        # ---------- model: exact nodes, tie, exact separation -----------------------------------------------
        if alg in ("cube3D", "cube4D"):
            _poly_cube_model(ctx, c, pts, proj, rowsN, M, kind)
        else:
            _poly_ico_model(ctx, c, pts, proj, M)


def _poly_cube_model(ctx, c, pts, proj, rowsN, M, kind):
    alg, L = c["alg"], c["level"]
    d = 3 if alg == "cube3D" else 4
    s = float(np.sqrt(1 / 3)) if d == 3 else 0.5       # half side of the level-0 cube (hard-wired, validated by `dev`)
    m = 1 if L == 0 else 2 ** (L - 1)
    h = s / m
    res = ctx.model([{"op": "lattice", "d": d, "m": m, "vertices": L == 0, "h": R(h), "eps": R(1e-12), "pts": rows_r(pts),
                      "proj": rows_r(proj)},
                     {"op": "gap", "tol": R(TOL), "G": rows_r(proj)},
                     {"op": "select_half", "tol": R(TOL), "atol": R(ATOL), "rtol": R(RTOL), "proj": rows_r(proj), "N": None}
                     if d == 4 else {"op": "hypercube_count", "L": L}])
    lat = res[0].get("ok")
    if lat is None:
        raise core.HarnessError(f"lattice op: {res[0]}")
    devq = float(core.unrat(lat["dev"]))
    flags = {k: lat[k] for k in ("on_cube", "nodup", "complete", "neg_closed", "unit")}
    if devq > 1e-12 or not all(flags.values()):
        ctx.corr(f"{alg} level {L}: float nodes are the exact boundary lattice (each point once, negation closed, projection = unit vector)",
                 c, {"deviation": devq, "n": len(pts)}, {**flags, "expected_nodes": lat["expected"]})
        return
    ctx.branch("hypothesis:lattice_ok")
    if res[1].get("ok") is not True:
        ctx.corr(f"{alg} level {L}: Gap hypothesis (projected coordinates exactly 0 or > 1e-8)", c, None, res[1])
    if d == 4:
        idx = res[2].get("ok")
        imp_idx = [int(np.nonzero((proj == q).all(axis=1))[0][0]) for q in rowsN]
        if idx != imp_idx:
            ctx.corr(f"get_half_of_hypercube indices at level {L}", c, imp_idx[:12], (idx or res[2])[:12] if idx else res[2])
    elif res[2].get("ok") is None:
        raise core.HarnessError(str(res[2]))
    if d == 4 and res[0]["ok"]["expected"] != ctx.model([{"op": "hypercube_count", "L": L}])[0]["ok"]:
        ctx.corr("hypercubeCount", c, res[0]["ok"]["expected"], None)
    sep = ctx.model([{"op": "sep", "kind": kind, "pts": lat["lat"]}])[0]
    if "ok" not in sep:
        raise core.HarnessError(str(sep))
    sep = sep["ok"]
    if kind == "rot":
        imp_idx = [int(np.nonzero((proj == q).all(axis=1))[0][0]) for q in rowsN]
        if sep["half_idx"] != imp_idx:
            ctx.corr("exact upper half of the lattice nodes vs get_half_of_hypercube", c, imp_idx[:12], sep["half_idx"][:12])
            return
    _cmp_sep(ctx, c, sep, M, kind)


def _cmp_sep(ctx, c, sep, M, kind):
    """exact separation verdicts of the model against the float oracle, and the exact largest cosines against the floats"""
    bnd = bound_dir if kind == "dir" else bound_rot
    n = sep["n"]
    if sep["undecided"]:
        ctx.note(f"{c}: exact separation verdict undecided at N={sep['undecided'][:5]} (within 1e-30 of the bound)")
        ctx.branch("excluded:separation_undecided", len(sep["undecided"]))
    float_fail = [N for N in range(2, n + 1) if M[N] < bnd(N)]
    if sep["fails"] != float_fail:
        # disagreement only matters away from the bound
        diff = set(sep["fails"]) ^ set(float_fail)
        hard = [N for N in diff if abs(M[N] / bnd(N) - 1) > 1e-9]
        if hard:
            ctx.corr("separation verdicts (exact model vs float oracle)", {**c, "N": hard[0]}, float_fail[:10], sep["fails"][:10])
    if sep["fails"]:
        N = sep["fails"][0]
        ctx.fail("C07:separation", f"exact check: first {N} nodes of {c['alg']} level {c['level']} violate the separation bound",
                 {**c, "N": N}, bnd(N), float(M[N]))
    worst = 0.0
    for N in range(2, n + 1):
        num, den = int(sep["maxc2"][N - 1][0]), int(sep["maxc2"][N - 1][1])
        c2 = Fraction(num, den)
        if c2 == 0:
            if M[N] < math.sqrt(2) * (1 - 1e-12):
                ctx.corr("largest cosine", {**c, "N": N}, float(M[N]), ">= sqrt(2)")
                return
            continue
        chord = math.sqrt(max(0.0, 2 - 2 * math.sqrt(float(c2))))
        worst = max(worst, abs(chord - M[N]))
        if abs(chord - M[N]) > 1e-9:
            ctx.corr("minimum chord of the first N rows (exact model vs float)", {**c, "N": N}, float(M[N]), chord)
            return
    ctx.extra_cov.setdefault("max_chord_deviation_model_vs_float", {})[f"{c['alg']}:L{c['level']}"] = worst


def _poly_ico_model(ctx, c, pts, proj, M):
    """exact icosahedron nodes in Z[phi] (lean/Molgri/Model/IcoExact.lean)"""
    L = c["level"]
    maxL = 2 if ctx.quick else 3
    if L > maxL:
        ctx.branch("poly:ico:exact_model_skipped_level")
        return
    res = ctx.model([{"op": "ico_nodes", "L": L}])[0]
    if "ok" not in res:
        raise core.HarnessError(str(res))
    info = res["ok"]
    phi = (1 + math.sqrt(5)) / 2
    s = 1 / math.sin(2 * math.pi / 5) / 2      # side_len/2, scale of the level-0 vertices (hard-wired)
    ex = np.array([[(a + b * phi) * s / 2 ** L for a, b in node] for node in info["nodes"]])
    if len(ex) != len(pts) or not info["on_surface"] or not info["nodup"]:
        ctx.corr(f"ico level {L}: node count / exact nodes on one level set of the face gauge", c, len(pts),
                 {"n": len(ex), "on_surface": info["on_surface"], "nodup": info["nodup"]})
        return
    from scipy.spatial import cKDTree
    dist, where = cKDTree(ex).query(pts, k=1)
    if float(dist.max()) > 1e-12 or len(set(where.tolist())) != len(pts):
        ctx.corr(f"ico level {L}: every float node is one exact Z[phi] node (1e-12), each once", c,
                 {"max_dist": float(dist.max()), "distinct": len(set(where.tolist()))}, len(ex))
        return
    exn = ex / np.linalg.norm(ex, axis=1)[:, None]
    if float(np.abs(exn[where] - proj).max()) > 1e-12:
        ctx.corr(f"ico level {L}: projection = unit vector of the exact node", c, float(np.abs(exn[where] - proj).max()), 1e-12)
        return
    ctx.branch("hypothesis:ico_exact_ok")
    sep = ctx.model([{"op": "sep_ico", "L": L, "order": [int(i) for i in where]}])[0]
    if "ok" not in sep:
        raise core.HarnessError(str(sep))
    _cmp_sep_ico(ctx, c, sep["ok"], M)


def _cmp_sep_ico(ctx, c, sep, M):
    n = sep["n"]
    float_fail = [N for N in range(2, n + 1) if M[N] < bound_dir(N)]
    if sep["fails"] != float_fail:
        diff = set(sep["fails"]) ^ set(float_fail)
        hard = [N for N in diff if abs(M[N] / bound_dir(N) - 1) > 1e-9]
        if hard:
            ctx.corr("ico separation verdicts (exact Z[phi] model vs float oracle)", {**c, "N": hard[0]}, float_fail[:10], sep["fails"][:10])
    if sep["fails"]:
        N = sep["fails"][0]
        ctx.fail("C07:separation", f"exact check: first {N} nodes of ico level {c['level']} violate 1/sqrt(N)", {**c, "N": N},
                 bound_dir(N), float(M[N]))
    phi = (1 + math.sqrt(5)) / 2
    worst = 0.0
    for N in range(2, n + 1):
        (na, nb), (da, db) = sep["maxc2"][N - 1]
        num, den = int(na) + int(nb) * phi, int(da) + int(db) * phi
        if num == 0:
            continue
        chord = math.sqrt(max(0.0, 2 - 2 * math.sqrt(num / den)))
        worst = max(worst, abs(chord - M[N]))
        if abs(chord - M[N]) > 1e-9:
            ctx.corr("ico minimum chord of the first N rows (exact model vs float)", {**c, "N": N}, float(M[N]), chord)
            return
    ctx.extra_cov.setdefault("max_chord_deviation_model_vs_float", {})[f"ico:L{c['level']}"] = worst


# ------------------------------------------------------------------------------------------------------------
# driver of the check
# ------------------------------------------------------------------------------------------------------------
CHUNK = 1500


def run_units(ctx, cases):
    chunk = []

    def flush():
        ops, spans = [], []
        for case, out in chunk:
            o = unit_ops(case, out)
            spans.append((len(ops), len(ops) + len(o)))
            ops.extend(o)
        outs = ctx.model(ops)
        for (case, out), (a, b) in zip(chunk, spans):
            unit_compare(ctx, case, out, outs[a:b])
            unit_oracle(ctx, case, out)
        chunk.clear()

    for case in cases:
        ctx.count()
        chunk.append((case, unit_impl(case)))
        if len(chunk) >= CHUNK:
            flush()
    if chunk:
        flush()


def _execute(ctx, cases):
    units = [c for c in cases if c["kind"] not in ("grid", "poly")]
    grids = [c for c in cases if c["kind"] == "grid"]
    polys = [c for c in cases if c["kind"] == "poly"]
    _dbg("units")
    run_units(ctx, units)
    _dbg("units done")
    # build the reference polytopes before forking, so that the workers do not repeat it
    need = {}
    for c in grids:
        if c["alg"] in POLY:
            l = level_for(c["alg"], c["N"])
            if l is not None:
                need[family_of(c["alg"])] = max(need.get(family_of(c["alg"]), 0), l)
    for c in polys:
        need[c["alg"]] = max(need.get(c["alg"], 0), c["level"])
    broken = {}
    for fam, l in need.items():
        try:
            ref_levels(fam, l)
        except core.HarnessError:
            raise
        except Exception as e:  # noqa: BLE001  the polytope code itself raises: a failing input, not harness trouble
            broken[fam] = f"{core.errname(e)}: {str(e)[:200]}"
            case = {"kind": "poly", "alg": fam, "level": len(_REF.get(fam, {}).get("levels", []))}
            ctx.fail("C07:exception", f"building / reading the {fam} polytope raised {broken[fam]}", case)
    _dbg("reference polytopes built")
    ctx._c07_broken = broken
    # poly cases that carry an N (from a replay) are re-run as whole levels
    run_grids(ctx, grids)
    run_polys(ctx, [{"kind": "poly", "alg": c["alg"], "level": c["level"]} for c in
                    {(c["alg"], c["level"]): c for c in polys}.values() if c["alg"] not in broken])


def run(ctx):
    corpus = []
    for f in ctx.open_findings + ctx.fixed_findings:
        corpus += f.get("cases", [])
    cases = corpus + list(unit_cases(ctx)) + grid_cases(ctx) + poly_cases(ctx)
    ctx.note("Voronoi construction (not part of C07) is replaced by a stub for the grid cases counted under grid:stub_voronoi; "
             "the factory, generators, assertions and getters run unchanged")
    ctx.note("separation bounds are an executable exact check on the exact node lists (driver ops sep / sep_ico) and a float check "
             "on the implementation; they are not theorems")
    ctx.note("fulldiv N=2080 (hypercube level 3) is outside the exploration bound of the property and is not built")
    _execute(ctx, cases)


def replay(ctx, cases):
    _execute(ctx, cases)
