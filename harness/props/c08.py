"""C08 - grids and their geometry are reproducible, prefix-stable and history-independent.

Implementation under test: molgri.space.polytopes (Polytope node order, sorted-node cache), molgri.space.rotobj (the two
factories and every _gen_grid), molgri.space.voronoi (helper points, in-place filter, the geometry getters).

Correspondence (C): random HISTORIES (interleaved reseeding / draws of numpy's global generator, polytope construction,
subdivision, get_nodes / get_half_of_hypercube, grid construction, geometry getters in any order and repetition,
gen_grid() again = rebuilding the Voronoi object in whatever state the generator is) are
executed on the real code and on the Lean state machine `Molgri.History` instantiated symbolically.  The symbolic
output of the model is INTERPRETED with numpy (node `ico.1#7` = 8th node created at level 1 of a reference icosahedron,
`S(s0|36)#3` = row 3 of random_sphere_points after seed(0), generator state `s15;h12` = seed(15) + shuffle of 12 items)
and compared BITWISE with the implementation after every op: returned point arrays, the state of the global generator,
level / max index / node count / cache of every live polytope, helper-point counts of every live Voronoi object, and at
the end the complete node table (level, permanent index), the cache content, every grid array and every helper-point
array.  Getter values are terms of the model; equal terms must have bit-identical implementation values.

Failing-input search (S), independent of the model: every observation of the same (specification, getter) - in any
history of this process, and in fresh subprocesses with other PYTHONHASHSEEDs that run DIFFERENT whole-process histories
(ordinary flow / generator disturbed before every getter / disturbed between construction and the first getter, approximate
getters first / all objects first, getters interleaved) - must be bit-identical; when two fresh processes disagree the replay
is the PAIR of (shrunk) histories, each to be run in its own interpreter; the harness observes object state passively
(vars(), never through properties) so that it cannot fill a lazily computed cache itself;
every polytope grid must be the exact prefix of larger grids of the same algorithm (sweep over all N to the bound
against the next complete levels); exceptions are allowed only where the specification is invalid; a non-terminating
op is a failure.  Failing histories are shrunk (greedy op removal) before they are written as the replay.
"""
from __future__ import annotations

import base64
import contextlib
import hashlib
import json
import os
import signal
import subprocess
import sys
import time
from pathlib import Path

import numpy as np

if __name__ == "__main__":  # reference subprocess: make `core` and the implementation importable
    sys.path.insert(0, str(Path(__file__).resolve().parent.parent))
    if os.environ.get("MOLGRI_REPO"):
        sys.path.insert(0, os.environ["MOLGRI_REPO"])
    import warnings
    warnings.filterwarnings("ignore")

import core

RULE = ("47 (quick) / ~210 (thorough) histories of <= 12 / <= 40 ops over {reseed, draw, newPoly, divide, get_nodes, get_half_of_hypercube, "
        "create grid (8 algorithms), 8 getters, gen_grid() again}; every argument handed to the package is given in a seed-chosen "
        "representation (int / np.int64 / np.int32 / np.uint16 / 0-d array; bool / np.bool_ / 0-1; str / run-time built / np.str_ / str "
        "subclass) plus an exhaustive sweep of all representations over two fixed cases, the expected value never depends on it; grid specifications drawn from a per-run pool concentrated at level boundaries "
        "(12/13, 42/43, 8/9, 26/27, 40/41, 3/4) so that every specification is observed in several histories; a history is "
        "non-trivial when it constructs an object and reads it after the generator state or other objects changed; distinct by "
        "the op list. Prefix sweep: every N up to the bound for ico, cube3D, cube4D against reference polytopes one and two levels up.")

KINDS = ("ico", "cube3D", "cube4D")
ALG3 = ("ico", "cube3D", "randomS", "zero3D")
ALG4 = ("cube4D", "randomQ", "fulldiv", "zero4D")
DIM = {a: 3 for a in ALG3} | {a: 4 for a in ALG4}
GETTERS = ("array", "upper", "volumes", "volumesApprox", "hulls", "adjacency", "borders", "distances")
FULLDIV = (8, 40, 272, 2080)


# ------------------------------------------------------------------------------------------------------------------
# small helpers
# ------------------------------------------------------------------------------------------------------------------
def hb(*parts) -> str:
    h = hashlib.sha256()
    for p in parts:
        if isinstance(p, np.ndarray):
            a = np.ascontiguousarray(p)
            if a.dtype != np.float64 and a.dtype.kind in "iub":
                a = a.astype(np.float64)
            h.update(str(a.shape).encode())
            h.update(a.tobytes())
        else:
            h.update(repr(p).encode())
    return h.hexdigest()[:24]


def same_bits(a, b) -> bool:
    a = np.asarray(a)
    b = np.asarray(b)
    if a.size == 0 and b.size == 0:
        return True
    if a.shape != b.shape:
        return False
    return np.ascontiguousarray(a, dtype=np.float64).tobytes() == np.ascontiguousarray(b, dtype=np.float64).tobytes()


@contextlib.contextmanager
def rng_guard():
    """the harness's own numpy computations must not disturb the global generator"""
    st = np.random.get_state()
    try:
        yield
    finally:
        np.random.set_state(st)


def rng_hash() -> str:
    st = np.random.get_state()
    return hb(st[1], int(st[2]), int(st[3]), float(st[4]))


def set_rng_from_trace(trace: str):
    """'s15;h12;d5' -> seed(15); shuffle(list of 12); random(5)"""
    parts = trace.split(";")
    if not parts[0].startswith("s"):
        raise core.HarnessError(f"generator trace {trace!r} cannot be replayed")
    np.random.seed(int(parts[0][1:]))
    for p in parts[1:]:
        n = int(p[1:])
        if p[0] == "h":
            np.random.shuffle(list(range(n)))
        elif p[0] == "d":
            np.random.random(n)
        else:
            raise core.HarnessError(f"generator trace {trace!r} cannot be replayed")


class OpTimeout(Exception):
    pass


@contextlib.contextmanager
def time_limit(seconds: float):
    """SIGALRM-based limit for one op of the implementation (restores a previously armed alarm)."""
    def handler(signum, frame):
        raise OpTimeout()
    old_handler = signal.signal(signal.SIGALRM, handler)
    old_delay, _ = signal.setitimer(signal.ITIMER_REAL, seconds)
    t0 = time.time()
    try:
        yield
    finally:
        signal.setitimer(signal.ITIMER_REAL, 0)
        signal.signal(signal.SIGALRM, old_handler)
        if old_delay:
            signal.setitimer(signal.ITIMER_REAL, max(0.5, old_delay - (time.time() - t0)))


# ------------------------------------------------------------------------------------------------------------------
# argument representations: the same denoted value handed to the package in another Python / numpy representation.
# Established on the unchanged tree (every public entry point this harness calls, all algorithms, N < 4 and N >= 4,
# N larger than what is available): every representation below is accepted and gives bit-identical results / the
# same exception as the plain Python value.  The model always gets the denoted value.
# ------------------------------------------------------------------------------------------------------------------
class StrSub(str):
    """a str subclass (like a str-mixin Enum member)"""


INT_REPS = ("int", "int64", "int32", "uint16", "arr0")
FLAG_REPS = ("bool", "npbool", "int01")
STR_REPS = ("str", "built", "npstr", "sub")
REPS_LEFT_OUT = {"uint16": "only used for 0 <= N <= 65535 (the value must be representable); larger N keep the Python int",
                 "None": "N=None (all nodes) has no other representation"}


def rep_int(v, rep):
    if v is None or rep in (None, "int"):
        return v
    if rep == "int64":
        return np.int64(v)
    if rep == "int32":
        return np.int32(v)
    if rep == "uint16":
        return np.uint16(v) if 0 <= v <= 65535 else v
    if rep == "arr0":
        return np.array(v)
    raise core.HarnessError(f"unknown integer representation {rep}")


def rep_flag(v, rep):
    if rep in (None, "bool"):
        return bool(v)
    if rep == "npbool":
        return np.bool_(v)
    if rep == "int01":
        return 1 if v else 0
    raise core.HarnessError(f"unknown flag representation {rep}")


def rep_str(v, rep):
    if rep in (None, "str"):
        return v
    if rep == "built":
        return "".join(list(v))          # built at run time: equal, not the interned literal
    if rep == "npstr":
        return np.str_(v)
    if rep == "sub":
        return StrSub(v)
    raise core.HarnessError(f"unknown string representation {rep}")


def op_rep(op, field):
    return (op.get("rep") or {}).get(field)


def assign_reps(rng, ops, plain=0.35):
    """seed-chosen representation of every argument that goes to the package (stored in the op, so replays keep it)"""
    def pick(fam):
        return fam[0] if rng.random() < plain else rng.choice(fam)
    out = []
    for op in ops:
        t = op["t"]
        rep = {}
        if t in ("nodes", "half"):
            rep = {"N": pick(INT_REPS), "proj": pick(FLAG_REPS)}
        elif t in ("grid", "gen"):
            rep = {"N": pick(INT_REPS), "alg": pick(STR_REPS)}
        elif t == "get" and op.get("g") in ("array", "upper", "volumes", "volumesApprox"):
            rep = {"flag": pick(FLAG_REPS)}
        out.append(dict(op, rep=rep) if rep else dict(op))
    return out


def rep_sweep_histories():
    """all representation families over two small fixed cases (quick and thorough)"""
    out = []
    for ri in INT_REPS:                      # 3-D case: the full product
        for rs in STR_REPS:
            for rf in FLAG_REPS:
                out.append({"r0": [2, 0], "ops": [
                    {"t": "grid", "alg": "ico", "N": 13, "rep": {"N": ri, "alg": rs}},
                    {"t": "get", "h": 0, "g": "upper", "rep": {"flag": rf}},
                    {"t": "get", "h": 0, "g": "volumesApprox", "rep": {"flag": rf}},
                    {"t": "get", "h": 0, "g": "volumes", "rep": {"flag": rf}},
                    {"t": "get", "h": 0, "g": "adjacency"},
                    {"t": "newPoly", "kind": "ico"},
                    {"t": "nodes", "h": 0, "N": 9, "proj": True, "rep": {"N": ri, "proj": rf}},
                    {"t": "nodes", "h": 0, "N": 12, "proj": False, "rep": {"N": ri, "proj": rf}}]})
    k = 0
    for ri in INT_REPS:                      # 4-D case: every integer x flag representation, strings cycling
        for rf in FLAG_REPS:
            rs = STR_REPS[k % len(STR_REPS)]
            k += 1
            out.append({"r0": [2, 1], "ops": [
                {"t": "grid", "alg": "cube4D", "N": 5, "rep": {"N": ri, "alg": rs}},
                {"t": "get", "h": 0, "g": "upper", "rep": {"flag": rf}},
                {"t": "get", "h": 0, "g": "array", "rep": {"flag": rf}},
                {"t": "get", "h": 0, "g": "volumes", "rep": {"flag": rf}},
                {"t": "get", "h": 0, "g": "adjacency"},
                {"t": "newPoly", "kind": "cube4D"},
                {"t": "half", "h": 0, "N": 5, "proj": True, "rep": {"N": ri, "proj": rf}},
                {"t": "nodes", "h": 0, "N": 11, "proj": False, "rep": {"N": ri, "proj": rf}}]})
    return out


def poly_class(kind):
    from molgri.space import polytopes as P
    return {"ico": P.IcosahedronPolytope, "cube3D": P.Cube3DPolytope, "cube4D": P.Cube4DPolytope}[kind]


def factory_create(alg, N, dim=None):
    from molgri.space.rotobj import SphereGrid3DFactory, SphereGrid4DFactory
    return (SphereGrid3DFactory if (dim or DIM[alg]) == 3 else SphereGrid4DFactory).create(alg, N)


def coo_hash(m) -> str:
    m = m.tocoo() if hasattr(m, "tocoo") else m
    return hb(tuple(m.shape), np.asarray(m.row, dtype=np.int64), np.asarray(m.col, dtype=np.int64),
              np.asarray(m.data, dtype=np.float64))


def call_getter(g, name, flag_rep=None):
    """one getter of a grid object -> ('arr', ndarray) | ('hash', str); raises what the library raises"""
    sv = g.get_spherical_voronoi()
    if name == "array":
        return "arr", np.array(g.get_grid_as_array(only_upper=rep_flag(False, flag_rep)), dtype=np.float64)
    if name == "upper":
        return "arr", np.array(g.get_grid_as_array(only_upper=rep_flag(True, flag_rep)), dtype=np.float64)
    if name == "volumes":
        if flag_rep is None:
            return "hash", hb(np.asarray(sv.get_voronoi_volumes(), dtype=np.float64))
        return "hash", hb(np.asarray(sv.get_voronoi_volumes(approx=rep_flag(False, flag_rep)), dtype=np.float64))
    if name == "volumesApprox":
        return "hash", hb(np.asarray(sv.get_voronoi_volumes(approx=rep_flag(True, flag_rep)), dtype=np.float64))
    if name == "hulls":
        hulls = sv.get_convex_hulls()
        return "hash", hb(*[x for h in hulls for x in (np.asarray(h.points), float(h.area), float(h.volume),
                                                        np.asarray(h.simplices, dtype=np.int64))])
    if name == "adjacency":
        return "hash", coo_hash(g.get_voronoi_adjacency())
    if name == "borders":
        return "hash", coo_hash(g.get_cell_borders())
    if name == "distances":
        return "hash", coo_hash(g.get_center_distances())
    raise core.HarnessError(f"unknown getter {name}")


# ------------------------------------------------------------------------------------------------------------------
# executing a history on the implementation
# ------------------------------------------------------------------------------------------------------------------
def passive(obj, name):
    """read an instance attribute WITHOUT running any code of the object (no property, no __getattr__): the observation
    must not change what the implementation computes later (lazily filled caches)"""
    try:
        return vars(obj).get(name)
    except TypeError:
        return None


def vor_summary(g):
    sv = passive(g, "spherical_voronoi")
    kind = {"RotobjVoronoi": "rot3", "HalfRotobjVoronoi": "half4", "MikroVoronoi": "mikro"}.get(type(sv).__name__, type(sv).__name__)
    add = passive(sv, "additional_points") if kind != "mikro" else None
    full = passive(sv, "full_voronoi") if kind == "half4" else None
    addf = passive(full, "additional_points") if full is not None else None
    return [g.gen_algorithm, int(g.N), int(g.dimensions), kind, 0 if add is None else len(add), 0 if addf is None else len(addf),
            int(passive(sv, "N_points") or 0) if kind == "mikro" else 0]


def poly_summary(P):
    return [int(P.current_level), int(P.current_max_ci), int(P.G.number_of_nodes()), int(P.current_nodes[1]),
            P.current_nodes[0] is not None]


class Impl:
    def __init__(self, op_limit):
        self.polys = []
        self.grids = []
        self.op_limit = op_limit

    def _do(self, op):
        t = op["t"]
        if t == "reseed":
            np.random.seed(op["s"])
            return {"unit": None}
        if t == "draw":
            np.random.random(op["k"])
            return {"unit": None}
        if t == "newPoly":
            self.polys.append(poly_class(op["kind"])())
            return {"handle": len(self.polys) - 1}
        if t in ("divide", "nodes", "half"):
            if op["h"] >= len(self.polys):
                return {"err": "other:NoObject"}
            P = self.polys[op["h"]]
            if t == "divide":
                P.divide_edges()
                return {"unit": None}
            N = rep_int(op["N"], op_rep(op, "N"))
            proj = rep_flag(op["proj"], op_rep(op, "proj"))
            if t == "nodes":
                return {"pts": np.array(P.get_nodes(N=N, projection=proj), dtype=np.float64)}
            return {"pts": np.array(P.get_half_of_hypercube(projection=proj, N=N), dtype=np.float64)}
        if t == "grid":
            g = factory_create(rep_str(op["alg"], op_rep(op, "alg")), rep_int(op["N"], op_rep(op, "N")), dim=DIM[op["alg"]])
            self.grids.append(g)
            return {"handle": len(self.grids) - 1, "created": np.array(g.grid, dtype=np.float64)}
        if t == "gen":
            # the grid array alone (same _gen_grid code path as the factory, no Voronoi object): for grid sizes whose
            # Voronoi construction would be too slow
            from molgri.space import rotobj
            cls = {"randomS": rotobj.RandomSRotations, "randomQ": rotobj.RandomQRotations}[op["alg"]]
            return {"unit": None, "created": np.array(cls(N=rep_int(op["N"], op_rep(op, "N")))._gen_grid(), dtype=np.float64)}
        if t == "get":
            if op["h"] >= len(self.grids):
                return {"err": "other:NoObject"}
            kind, v = call_getter(self.grids[op["h"]], op["g"], op_rep(op, "flag"))
            return {"out": hb(v), "arr": v} if kind == "arr" else {"out": v}
        if t == "regen":
            if op["h"] >= len(self.grids):
                return {"err": "other:NoObject"}
            v = np.array(self.grids[op["h"]].gen_grid(), dtype=np.float64)
            return {"out": hb(v), "arr": v}
        raise core.HarnessError(f"unknown op {op}")

    def step(self, op, observe=True):
        try:
            with core.quiet(), time_limit(self.op_limit):
                res = self._do(op)
        except OpTimeout:
            res = {"err": "other:Timeout"}
        except core.HarnessError:
            raise
        except Exception as e:
            res = {"err": core.errname(e)}
        if not observe:
            return {"res": res}
        return {"res": res, "rng": rng_hash(), "polys": [poly_summary(P) for P in self.polys],
                "grids": [vor_summary(g) for g in self.grids]}

    def final(self):
        polys = []
        for P in self.polys:
            polys.append(poly_dump(P))
        grids = []
        for g in self.grids:
            sv = passive(g, "spherical_voronoi")
            kind = type(sv).__name__
            add = passive(sv, "additional_points") if kind != "MikroVoronoi" else None
            full = passive(sv, "full_voronoi") if kind == "HalfRotobjVoronoi" else None
            addf = passive(full, "additional_points") if full is not None else None
            grids.append({"grid": np.array(g.grid, dtype=np.float64),
                          "add": None if add is None else np.array(add, dtype=np.float64),
                          "addFull": None if addf is None else np.array(addf, dtype=np.float64),
                          "poly": None if g.polytope is None else poly_dump(g.polytope)})
        return {"polys": polys, "grids": grids}


def poly_dump(P):
    nodes = []
    for n, d in P.G.nodes(data=True):
        nodes.append((np.array(n, dtype=np.float64), int(d["level"]), d.get("central_index"), np.array(d["projection"], dtype=np.float64)))
    c = P.current_nodes[0]
    return {"nodes": nodes, "cache": None if c is None else np.array(c, dtype=np.float64)}


def start_state(h):
    np.random.seed(h["r0"][0])
    np.random.random(h["r0"][1])


def exec_history(h, op_limit):
    """-> {'steps': [...], 'final': ..., 'timeout': bool}"""
    start_state(h)
    im = Impl(op_limit)
    steps = []
    timeout = False
    for op in h["ops"]:
        s = im.step(op)
        steps.append(s)
        if s["res"].get("err") == "other:Timeout":
            timeout = True
            break
    return {"steps": steps, "final": None if timeout else im.final(), "timeout": timeout}


# ------------------------------------------------------------------------------------------------------------------
# reference tables and interpretation of the model's symbolic points
# ------------------------------------------------------------------------------------------------------------------
class RefFailure(Exception):
    """the implementation cannot even produce the reference polytopes (fresh object, construct / divide / read)"""

    def __init__(self, kind, level, err):
        super().__init__(f"{kind} level {level}: {err}")
        self.kind, self.level, self.err = kind, level, err

    def case(self):
        ops = [{"t": "newPoly", "kind": self.kind}] + [{"t": "divide", "h": 0}] * self.level
        ops.append({"t": "half" if self.kind == "cube4D" else "nodes", "h": 0, "N": None, "proj": True})
        return {"kind": "history", "r0": [0, 0], "ops": ops, "focus": len(ops) - 1}


class Tables:
    def __init__(self, lmax, op_limit=240.0):
        """lmax: kind -> highest subdivision level that histories may reach (levels are 0-based: level 0 = the solid)"""
        from molgri.space.utils import q_in_upper_sphere
        self.upper_fn = q_in_upper_sphere
        self.lmax = dict(lmax)
        self.fam = {}
        self.counts = {}
        self.ref_rows = {}   # kind -> list per level of the rows of the complete grid (projected, index order)
        with rng_guard(), core.quiet():
            for kind in KINDS:
                rows = []
                lvl = 0
                try:
                    with time_limit(op_limit):
                        P = poly_class(kind)()
                        for lvl in range(self.lmax[kind] + 1):
                            if lvl:
                                P.divide_edges()
                            rows.append(np.array(P.get_half_of_hypercube(projection=True) if kind == "cube4D"
                                                 else P.get_nodes(projection=True), dtype=np.float64))
                except OpTimeout:
                    raise RefFailure(kind, lvl, "other:Timeout")
                except Exception as e:
                    raise RefFailure(kind, lvl, core.errname(e))
                self.ref_rows[kind] = rows
                per = {}
                for n, d in P.G.nodes(data=True):
                    per.setdefault(int(d["level"]), []).append((np.array(n, dtype=np.float64), np.array(d["projection"], dtype=np.float64)))
                self.counts[kind] = [len(per.get(l, [])) for l in range(self.lmax[kind] + 1)]
                for l, lst in per.items():
                    self.fam[f"{kind}.{l}"] = np.array([k for k, _ in lst])
                    self.fam[f"p:{kind}.{l}"] = np.array([p for _, p in lst])
            self.perms = []
            for n in sorted({c for cs in self.counts.values() for c in cs}):
                np.random.seed(15)
                lst = list(range(n))
                np.random.shuffle(lst)
                self.perms.append(lst)
        self.flags = {}

    # -- interpretation -------------------------------------------------------------------------------------------
    def rows(self, fam):
        if fam in self.fam:
            return self.fam[fam]
        from molgri.space.utils import random_sphere_points, random_quaternions, normalise_vectors
        with rng_guard():
            if fam.startswith("n:"):
                r = -self.rows(fam[2:])
            elif fam == "Z3":
                r = np.array([[0.0, 0.0, 1.0]])
            elif fam == "Z4":
                from scipy.spatial.transform import Rotation
                r = np.array(Rotation.from_matrix(np.eye(3)[np.newaxis, :]).as_quat(), dtype=np.float64)
            elif fam[:2] in ("S(", "Q(") or fam[:3] in ("D3(", "D4("):
                inner = fam[fam.index("(") + 1:-1]
                parts = inner.split("|", 2)
                trace, k = parts[0], int(parts[1])
                set_rng_from_trace(trace)
                if fam[0] == "S":
                    r = random_sphere_points(k // 3)
                elif fam[0] == "Q":
                    r = random_quaternions(k // 3)
                elif fam[:2] == "D4":
                    if k != 15000:
                        raise core.HarnessError(f"unexpected family {fam}")
                    r = random_quaternions(5000)
                else:
                    if k != 9000:
                        raise core.HarnessError(f"unexpected family {fam}")
                    p0 = self.point(parts[2])
                    norm = np.linalg.norm(p0[np.newaxis, :], axis=1)[0]
                    r = normalise_vectors(random_sphere_points(3000), length=norm)
            else:
                raise core.HarnessError(f"cannot interpret point family {fam!r}")
        self.fam[fam] = np.array(r, dtype=np.float64)
        return self.fam[fam]

    def point(self, pid):
        fam, _, i = pid.rpartition("#")
        return self.rows(fam)[int(i)]

    def points(self, ids, dim=None):
        if not ids:
            return np.zeros((0, dim or 0))
        return np.array([self.point(p) for p in ids])

    def groups(self, groups):
        out = [self.rows(f)[np.array(idx, dtype=int)] for f, idx in groups if idx]
        return np.concatenate(out) if out else np.zeros((0, 0))

    def upper_flags(self, fam):
        if fam not in self.flags:
            self.flags[fam] = "".join("1" if self.upper_fn(r) else "0" for r in self.rows(fam))
        return self.flags[fam]

    def cfg(self, h):
        fams = set()
        for kind in KINDS:
            for l in range(self.lmax[kind] + 1):
                fams.add(f"p:{kind}.{l}")
                if kind == "cube4D":
                    fams.add(f"n:p:{kind}.{l}")
        fams |= {"Z3", "Z4", "n:Z4", "D4(s1|15000)"}
        for op in h["ops"]:
            if op["t"] == "grid" and op["alg"] == "randomS":
                fams.add(f"S(s0|{3 * op['N']})")
            if op["t"] == "grid" and op["alg"] == "randomQ":
                q = f"Q(s0|{3 * op['N']})"
                fams |= {q, "n:" + q, "n:n:" + q}
        return {"counts": self.counts, "perms": self.perms, "upper": {f: self.upper_flags(f) for f in sorted(fams)}}


def model_line(tables, h):
    return {"op": "history", "cfg": tables.cfg(h), "r0": f"s{h['r0'][0]};d{h['r0'][1]}", "ops": h["ops"]}


# ------------------------------------------------------------------------------------------------------------------
# correspondence: model (symbolic, interpreted) vs implementation, after every op
# ------------------------------------------------------------------------------------------------------------------
def model_rng_hash(cache, trace):
    if trace not in cache:
        with rng_guard():
            set_rng_from_trace(trace)
            cache[trace] = rng_hash()
    return cache[trace]


def case_of(h, focus=None):
    c = {"kind": "history", "r0": h["r0"], "ops": h["ops"]}
    if focus is not None:
        c["focus"] = focus
    return c


def compare_history(ctx, tables, h, ex, mo, terms, rngcache):
    """ex: exec_history output; mo: driver output {'ok': {...}}"""
    if "err" in mo:
        raise core.HarnessError(f"driver rejected history: {mo['err']}")
    m = mo["ok"]
    nsteps = len(ex["steps"])
    for i in range(nsteps):
        op, si, sm = h["ops"][i], ex["steps"][i], m["steps"][i]
        ri, rm = si["res"], sm["res"]
        case = case_of(h, i)
        if ri.get("err") == "other:Timeout":
            return  # reported by the oracle
        # result
        if "err" in ri or "err" in rm:
            if ri.get("err") != rm.get("err"):
                ctx.corr(f"{op['t']}: outcome", case, {k: (v if isinstance(v, (str, int, type(None))) else "…") for k, v in ri.items()}, rm)
                return
            ctx.branch("err:" + ri["err"])
        elif "pts" in rm:
            want = tables.points(rm["pts"])
            if not same_bits(ri.get("pts"), want):
                ctx.corr(f"{op['t']}: rows returned differ from the model's node order", case,
                         hb(np.asarray(ri.get("pts"))), rm["pts"][:12])
                return
        elif "handle" in rm:
            if ri.get("handle") != rm["handle"]:
                ctx.corr(f"{op['t']}: object numbering", case, ri.get("handle"), rm["handle"])
                return
        elif "out" in rm:
            term = json.dumps(rm["out"], sort_keys=True)
            if rm["out"].get("f") == "arr":
                want = tables.points(rm["out"]["pts"])
                if not same_bits(ri.get("arr"), want):
                    ctx.corr(f"{op['t']} {op.get('g', '')}: array differs from the model's rows", case, ri.get("out"), rm["out"]["pts"][:12])
                    return
            prev = terms.setdefault(term, (ri.get("out"), case))
            if prev[0] != ri.get("out"):
                ctx.corr(f"{op['t']} {op.get('g', '')}: equal model terms, different implementation values", case,
                         {"now": ri.get("out"), "before": prev[0], "before_case": prev[1]}, rm["out"].get("f"))
                return
        elif "unit" in rm:
            if "unit" not in ri:
                ctx.corr(f"{op['t']}: outcome", case, list(ri), rm)
                return
        # generator state
        if sm["rng"].startswith("!"):
            raise core.HarnessError(f"model shuffled in an unforeseen generator state: {sm['rng']}")
        if si["rng"] != model_rng_hash(rngcache, sm["rng"]):
            ctx.corr(f"{op['t']}: state of numpy's global generator after the op (model: {sm['rng']})", case, si["rng"], sm["rng"])
            return
        # object summaries
        if si["polys"] != sm["polys"]:
            ctx.corr(f"{op['t']}: polytope state [level, max index, nodes, cache count, cache set]", case, si["polys"], sm["polys"])
            return
        if si["grids"] != sm["grids"]:
            ctx.corr(f"{op['t']}: grid/Voronoi state [alg, N, dim, kind, helper points, helper points of full object, N_points]",
                     case, si["grids"], sm["grids"])
            return
    if ex["final"] is None:
        return
    case = case_of(h)
    fi, fm = ex["final"], m["final"]

    def cmp_poly(pi, pm, what):
        if pi is None or pm is None:
            if (pi is None) != (pm is None):
                ctx.corr(f"final: {what} present", case, pi is not None, pm is not None)
                return False
            return True
        if len(pi["nodes"]) != len(pm["nodes"]):
            ctx.corr(f"final: {what} node count", case, len(pi["nodes"]), len(pm["nodes"]))
            return False
        for (key, lvl, ci, _proj), (mid, mlvl, mci) in zip(pi["nodes"], pm["nodes"]):
            if not same_bits(key, tables.point(mid)) or lvl != mlvl or ci != mci:
                ctx.corr(f"final: {what} node table (insertion order; key, level, central index)", case,
                         [key.tolist(), lvl, ci], [mid, mlvl, mci])
                return False
        if (pi["cache"] is None) != (pm["cache"] is None) or (pm["cache"] is not None and not same_bits(pi["cache"], tables.points(pm["cache"]))):
            ctx.corr(f"final: {what} cached sorted nodes", case, None if pi["cache"] is None else hb(pi["cache"]), pm["cache"] and pm["cache"][:12])
            return False
        return True

    for k, (pi, pm) in enumerate(zip(fi["polys"], fm["polys"])):
        if not cmp_poly(pi, pm, f"polytope {k}"):
            return
    for k, (gi, gm) in enumerate(zip(fi["grids"], fm["grids"])):
        if not same_bits(gi["grid"], tables.points(gm["grid"])):
            ctx.corr(f"final: array of grid {k}", case, hb(gi["grid"]), gm["grid"][:12])
            return
        for fld in ("add", "addFull"):
            want = tables.groups(gm[fld])
            have = gi[fld] if gi[fld] is not None else np.zeros((0, 0))
            if not same_bits(have, want):
                ctx.corr(f"final: helper points ({fld}) of grid {k}", case, [list(have.shape), hb(have)], [[f, len(i)] for f, i in gm[fld]])
                return
        if not cmp_poly(gi["poly"], gm["poly"], f"polytope of grid {k}"):
            return


# ------------------------------------------------------------------------------------------------------------------
# generation of histories
# ------------------------------------------------------------------------------------------------------------------
def spec_pool(ctx, quick):
    rng = ctx.rng
    n3 = 60 if quick else 300
    n4 = 20 if quick else 80
    pool = []
    def pick(cands, k):
        cands = [c for c in cands]
        rng.shuffle(cands)
        return cands[:k]
    ico_b = [1, 2, 3, 4, 5, 11, 12, 13, 14, 41, 42, 43, 44, 60, 161, 162, 163, 200, 300]
    cub_b = [1, 3, 4, 7, 8, 9, 10, 25, 26, 27, 28, 60, 97, 98, 99, 150, 300]
    pool += [("ico", n) for n in pick([n for n in ico_b if n <= n3], 4)] + [("ico", rng.randint(1, n3))]
    pool += [("cube3D", n) for n in pick([n for n in cub_b if n <= n3], 4)] + [("cube3D", rng.randint(1, n3))]
    pool += [("randomS", n) for n in pick([1, 3, 4, 5, 17, 40, n3], 2)] + [("randomS", rng.randint(1, n3))]
    c4_b = [1, 3, 4, 5, 7, 8, 9, 10, 16, 20, 33, 39, 40, 41, 42, 60, 80]
    pool += [("cube4D", n) for n in pick([n for n in c4_b if n <= n4], 3 if quick else 5)]
    pool += [("randomQ", n) for n in pick([n for n in (1, 3, 4, 5, 6, 9, 13, 20, 31, 50, 80) if n <= n4], 2 if quick else 4)]
    pool += [("fulldiv", 8), ("zero3D", 1), ("zero4D", 1)]
    if not quick:
        pool += [("fulldiv", 40)]
    return pool


def gen_history(ctx, pool, lmax, maxops, idx):
    rng = ctx.rng
    ops = []
    polys = []   # [kind, level]
    grids = []   # (alg, N)
    cost = 0.0
    budget4 = 6.0 if ctx.quick else 20.0
    n = rng.randint(max(3, maxops // 2), maxops)
    theme = rng.choice(["poly", "grid", "grid", "mixed", "mixed"])
    while len(ops) < n:
        w = {"reseed": 2, "draw": 2, "newPoly": 1.5 if theme != "grid" else 0.3, "divide": 2 if polys else 0,
             "nodes": 3 if polys else 0, "half": 2 if polys else 0,
             "grid": (4 if theme != "poly" else 0.7), "get": (7 if grids else 0), "regen": (1.2 if grids else 0), "bad": 0.15}
        t = rng.choices(list(w), weights=list(w.values()))[0]
        if t == "reseed":
            ops.append({"t": "reseed", "s": rng.choice([0, 1, 15, rng.randrange(2 ** 32)])})
        elif t == "draw":
            ops.append({"t": "draw", "k": rng.choice([0, 1, 2, 7, 100, 624, 625, 9000])})
        elif t == "newPoly":
            k = rng.choice(KINDS)
            polys.append([k, 0])
            ops.append({"t": "newPoly", "kind": k})
        elif t == "divide":
            cands = [i for i, (k, l) in enumerate(polys) if l < lmax[k]]
            if not cands:
                continue
            i = rng.choice(cands)
            polys[i][1] += 1
            ops.append({"t": "divide", "h": i})
        elif t in ("nodes", "half"):
            i = rng.randrange(len(polys))
            if t == "half" and polys[i][0] != "cube4D" and rng.random() < 0.8:
                c4 = [j for j, p in enumerate(polys) if p[0] == "cube4D"]
                if not c4:
                    continue
                i = rng.choice(c4)
            N = rng.choice([None, None, 0, 1, rng.randint(1, 50), rng.choice([8, 12, 16, 26, 40, 42, 80, 98, 162]), 100000])
            ops.append({"t": t, "h": i, "N": N, "proj": rng.random() < 0.6})
        elif t == "grid":
            alg, N = rng.choice(pool)
            if rng.random() < 0.04:
                alg, N = "fulldiv", rng.choice([7, 9, 41])   # rejected by the constructor
            c = 0.0 if DIM[alg] == 3 else (1.0 + N / 20)
            if N > 40 and alg in ("cube4D", "fulldiv"):
                c += 14
            if cost + c > budget4:
                continue
            cost += c
            if not (alg == "fulldiv" and N not in FULLDIV):
                grids.append((alg, N))
            ops.append({"t": "grid", "alg": alg, "N": N})
        elif t == "get":
            i = rng.randrange(len(grids))
            alg, N = grids[i]
            g = rng.choice(GETTERS)
            c = 0.0
            if DIM[alg] == 4 and N >= 4:
                c = {"borders": 0.1 + N / 18, "hulls": 0.5, "volumes": 0.1, "volumesApprox": 0.1}.get(g, 0.02)
            if cost + c > budget4:
                continue
            cost += c
            ops.append({"t": "get", "h": i, "g": g})
        elif t == "regen":
            i = rng.randrange(len(grids))
            alg, N = grids[i]
            c = 0.0 if DIM[alg] == 3 or N < 4 else 0.3
            if cost + c > budget4:
                continue
            cost += c
            ops.append({"t": "regen", "h": i})
        else:
            ops.append(rng.choice([{"t": "get", "h": len(grids) + 1, "g": "array"}, {"t": "nodes", "h": len(polys) + 2, "N": None, "proj": False},
                                   {"t": "divide", "h": len(polys)}]))
    return {"r0": [rng.choice([0, 1, 15, rng.randrange(2 ** 32)]), rng.choice([0, 3, 1000])], "ops": ops}


def structured_histories(ctx, pool):
    """hand-shaped histories for the mechanisms named by the property"""
    out = []
    # cache keyed by node count: read, divide, read again; and the same through the half selection
    for kind in KINDS:
        ops = [{"t": "newPoly", "kind": kind}, {"t": "nodes", "h": 0, "N": None, "proj": False}, {"t": "divide", "h": 0},
               {"t": "nodes", "h": 0, "N": None, "proj": False}, {"t": "nodes", "h": 0, "N": 9, "proj": True},
               {"t": "newPoly", "kind": kind}, {"t": "divide", "h": 1}, {"t": "nodes", "h": 1, "N": None, "proj": False}]
        if kind == "cube4D":
            ops += [{"t": "half", "h": 0, "N": None, "proj": True}, {"t": "half", "h": 1, "N": 11, "proj": False}]
        out.append({"r0": [3, 1], "ops": ops})
    # the generator is disturbed between two subdivisions of the same polytope
    for kind in ("ico", "cube3D"):
        out.append({"r0": [15, 1], "ops": [{"t": "newPoly", "kind": kind}, {"t": "divide", "h": 0}, {"t": "reseed", "s": 7}, {"t": "draw", "k": 5},
                                           {"t": "divide", "h": 0}, {"t": "nodes", "h": 0, "N": None, "proj": False},
                                           {"t": "nodes", "h": 0, "N": 50, "proj": True}]})
    out.append({"r0": [15, 0], "ops": [{"t": "newPoly", "kind": "cube4D"}, {"t": "draw", "k": 11}, {"t": "divide", "h": 0},
                                       {"t": "half", "h": 0, "N": None, "proj": True}, {"t": "nodes", "h": 0, "N": 30, "proj": False}]})
    # helper points filtered in place: hulls twice, volumes between, on two objects of the same specification
    four = [s for s in pool if s[0] in ("cube4D", "randomQ") and s[1] >= 4][:2]
    for alg, N in four:
        out.append({"r0": [0, 0], "ops": [{"t": "grid", "alg": alg, "N": N}, {"t": "get", "h": 0, "g": "hulls"}, {"t": "draw", "k": 7},
                                          {"t": "get", "h": 0, "g": "volumes"}, {"t": "get", "h": 0, "g": "hulls"},
                                          {"t": "reseed", "s": 99}, {"t": "grid", "alg": alg, "N": N}, {"t": "get", "h": 1, "g": "volumes"},
                                          {"t": "get", "h": 1, "g": "hulls"}, {"t": "get", "h": 0, "g": "array"},
                                          {"t": "draw", "k": 100}, {"t": "regen", "h": 0}, {"t": "get", "h": 0, "g": "volumes"},
                                          {"t": "get", "h": 0, "g": "hulls"}]})
    # every getter on a 3-D grid in two orders
    three = [s for s in pool if s[0] in ("ico", "cube3D", "randomS") and s[1] >= 4][:2]
    for alg, N in three:
        a = [{"t": "get", "h": 0, "g": g} for g in GETTERS]
        b = [{"t": "get", "h": 1, "g": g} for g in reversed(GETTERS)]
        out.append({"r0": [15, 0], "ops": [{"t": "grid", "alg": alg, "N": N}] + a + [{"t": "reseed", "s": 15}, {"t": "grid", "alg": alg, "N": N}] + b
                    + [{"t": "draw", "k": 3}, {"t": "regen", "h": 1}, {"t": "get", "h": 1, "g": "volumesApprox"}, {"t": "get", "h": 1, "g": "hulls"}]})
    return out


# ------------------------------------------------------------------------------------------------------------------
# fresh-process references
# ------------------------------------------------------------------------------------------------------------------
def queries_of(histories):
    """the distinct (specification, getter) observations of a set of histories, as reference queries"""
    gq, pq = {}, {}
    for h in histories:
        polys, grids = [], []
        for op in h["ops"]:
            t = op["t"]
            if t == "newPoly":
                polys.append([op["kind"], 0])
            elif t == "divide" and op["h"] < len(polys):
                polys[op["h"]][1] += 1
            elif t in ("nodes", "half") and op["h"] < len(polys):
                k, l = polys[op["h"]]
                pq.setdefault((k, l), set()).add((t, op["N"], op["proj"]))
            elif t == "grid":
                gq.setdefault((op["alg"], op["N"]), set())
                if not (op["alg"] == "fulldiv" and op["N"] not in FULLDIV):
                    grids.append((op["alg"], op["N"]))
            elif t == "get" and op["h"] < len(grids):
                gq[grids[op["h"]]].add(op["g"])
    qs = [{"q": "grid", "alg": a, "N": n, "getters": sorted(gs)} for (a, n), gs in sorted(gq.items())]
    qs += [{"q": "poly", "kind": k, "level": l, "queries": sorted(map(list, v), key=repr)} for (k, l), v in sorted(pq.items())]
    return qs


def obs_key(q, sub):
    if q["q"] == "grid":
        return f"{q['alg']}_{q['N']}:{sub}"
    return f"poly:{q['kind']}@{q['level']}:{sub}"


def poly_sub(t, N, proj):
    return f"{t}({N},{'proj' if proj else 'raw'})"


APPROX_FIRST = ("volumesApprox", "hulls", "volumes")


def ref_history(qs, policy, salt):
    """One whole-process history for a fresh interpreter, covering the specifications `qs`.  The policies differ in what
    happens between a construction and the first (approximate) getter of the process - on correct code this is
    irrelevant, every (specification, getter) value must be the same in every process:
      0  ordinary flow: construct, read at once
      1  generator reseeded + advanced before every getter; getters in reverse order
      2  generator disturbed between construction and the first getter only; approximate getters first; 4-D before 3-D
      3  all objects constructed first, then the getters of all objects interleaved in a shuffled order"""
    import random
    rnd = random.Random(f"C08-ref-{salt}-{policy}")
    ops = []
    ng = [0]
    npoly = [0]

    def perturb():
        ops.append({"t": "reseed", "s": rnd.randrange(2 ** 32)})
        ops.append({"t": "draw", "k": rnd.choice([1, 7, 100, 9000])})

    def new_grid(q):
        ops.append({"t": "grid", "alg": q["alg"], "N": q["N"]})
        if q["alg"] == "fulldiv" and q["N"] not in FULLDIV:
            return None
        ng[0] += 1
        return ng[0] - 1

    gq = [q for q in qs if q["q"] == "grid"]
    pq = [q for q in qs if q["q"] == "poly"]
    gq.sort(key=lambda q: (DIM[q["alg"]] == (3 if policy in (2, 3) else 4), q["alg"], q["N"]))
    pending = []
    for q in gq:
        getters = sorted(q["getters"], key=lambda g: (g == "hulls", g))
        if policy == 1:
            getters = getters[::-1]
        if policy == 2:
            getters = sorted(getters, key=lambda g: (g not in APPROX_FIRST, g == "hulls", g))
        if not getters:
            new_grid(q)
            continue
        h = None
        for k, g in enumerate(getters):
            if h is None or (DIM[q["alg"]] == 3 and k):      # 3-D is cheap: a fresh object for every getter
                h = new_grid(q)
                if h is None:
                    break
                first = True
            if policy == 3:
                pending.append({"t": "get", "h": h, "g": g})
                continue
            if policy == 1 or (policy == 2 and first):
                perturb()
            first = False
            ops.append({"t": "get", "h": h, "g": g})
    if policy == 3:
        # hulls filters in place: keep it the last getter of its object, shuffle everything else
        rnd.shuffle(pending)
        pending.sort(key=lambda o: o["g"] == "hulls")
        for o in pending:
            if rnd.random() < 0.3:
                perturb()
            ops.append(o)
    for q in pq:
        for t, N, proj in q["queries"]:
            ops.append({"t": "newPoly", "kind": q["kind"]})
            npoly[0] += 1
            for _ in range(q["level"]):
                if policy in (1, 2, 3):
                    perturb()
                ops.append({"t": "divide", "h": npoly[0] - 1})
            if policy == 1:
                perturb()
            ops.append({"t": t, "h": npoly[0] - 1, "N": N, "proj": proj})
    return {"r0": [salt % 1000, policy], "ops": assign_reps(rnd, ops)}


def internal_point_counts(limit=20000, maxn=6):
    """the literal sizes of the random point sets the package draws internally (dense helper points, defaults): integer
    arguments / integer defaults of random_quaternions and random_sphere_points, read from the package source NOW"""
    import ast
    import molgri
    names = {"random_quaternions", "random_sphere_points"}
    found = set()
    for f in sorted(Path(molgri.__file__).resolve().parent.rglob("*.py")):
        try:
            tree = ast.parse(f.read_text())
        except (SyntaxError, UnicodeDecodeError, OSError):
            continue
        for node in ast.walk(tree):
            if isinstance(node, ast.Call):
                fn = node.func
                nm = fn.id if isinstance(fn, ast.Name) else (fn.attr if isinstance(fn, ast.Attribute) else None)
                if nm in names:
                    for a in list(node.args[:1]) + [k.value for k in node.keywords if k.arg == "n"]:
                        if isinstance(a, ast.Constant) and isinstance(a.value, int) and not isinstance(a.value, bool):
                            found.add(a.value)
            elif isinstance(node, ast.FunctionDef) and node.name in names:
                for d in node.args.defaults:
                    if isinstance(d, ast.Constant) and isinstance(d.value, int) and not isinstance(d.value, bool):
                        found.add(d.value)
    # the sizes that dense helper sets use (largest) first
    return sorted((n for n in found if 4 <= n <= limit), reverse=True)[:maxn]


def collision_histories(sizes):
    """Two whole-process histories for two fresh interpreters: random grids whose N coincides with the size of a point set
    that the package draws internally, in both orders relative to the first approximate getter of each dimension.
    Only the arrays of the large grids are read (`gen`); the approximate getters are read on small grids."""
    small = [{"t": "grid", "alg": "ico", "N": 20}, {"t": "get", "h": 0, "g": "volumesApprox"}, {"t": "get", "h": 0, "g": "hulls"},
             {"t": "grid", "alg": "cube4D", "N": 8}, {"t": "get", "h": 1, "g": "volumes"}, {"t": "get", "h": 1, "g": "hulls"},
             {"t": "grid", "alg": "randomS", "N": 9}, {"t": "get", "h": 2, "g": "volumesApprox"}]
    big = [{"t": "gen", "alg": a, "N": n} for n in sizes for a in ("randomS", "randomQ")]
    after = [{"t": "regen", "h": 0}, {"t": "get", "h": 0, "g": "volumesApprox"}, {"t": "regen", "h": 1}, {"t": "get", "h": 1, "g": "volumes"}]
    import random
    rnd = random.Random("C08-collision")
    return [{"r0": [7, 0], "ops": assign_reps(rnd, big + small + after)}, {"r0": [8, 0], "ops": assign_reps(rnd, small + big + after)}]


def exec_process_history(h, op_limit):
    """in a reference interpreter: run the history without any observation of object state; -> observations"""
    start_state(h)
    im = Impl(op_limit)
    steps = []
    timeout = False
    for op in h["ops"]:
        if __name__ == "__main__" and os.getppid() == 1:   # the check that started this reference process is gone
            sys.exit(3)
        st = im.step(op, observe=False)
        steps.append(st)
        if st["res"].get("err") == "other:Timeout":
            timeout = True
            break
    ex = {"steps": steps, "timeout": timeout}
    return {"obs": observations(h, ex), "timeout": timeout, "nsteps": len(steps)}


def spawn_ref(h, hashseed, op_limit):
    env = dict(os.environ)
    env["PYTHONHASHSEED"] = str(hashseed)
    p = subprocess.Popen([sys.executable, str(Path(__file__).resolve()), "--ref", str(op_limit)], stdin=subprocess.PIPE,
                         stdout=subprocess.PIPE, stderr=subprocess.PIPE, env=env, text=True)
    p.stdin.write(json.dumps(h))
    p.stdin.close()
    return p


def start_refs(qs, nproc, hashseeds, op_limit, copies=2, first_policy=0):
    """every specification goes to `copies` fresh interpreters that follow DIFFERENT policies (and have different
    PYTHONHASHSEEDs); returns [(Popen, hashseed, history)]"""
    procs = []
    order = sorted(range(len(qs)), key=lambda i: -(qs[i].get("N", 0) if qs[i]["q"] == "grid" and DIM[qs[i]["alg"]] == 4 else 0))
    share = [[] for _ in range(nproc)]
    for j, i in enumerate(order):
        for c in range(copies):
            share[(j + c) % nproc].append(qs[i])
    for k in range(nproc):
        if not share[k]:
            continue
        h = ref_history(share[k], (k + first_policy) % 4, 1000 + 17 * k + first_policy)
        hs = str(hashseeds[k % len(hashseeds)])
        procs.append((spawn_ref(h, hs, op_limit), hs, h))
    return procs


def read_ref(p, timeout):
    try:
        out = p.stdout.read()
        p.wait(timeout=max(1, timeout))
    except subprocess.TimeoutExpired:
        p.kill()
        raise core.HarnessError("reference subprocess timed out")
    if p.returncode != 0:
        raise core.HarnessError(f"reference subprocess failed: {p.stderr.read()[-1500:]}")
    line = [l for l in out.split("\n") if l.startswith("REF ")]
    if not line:
        raise core.HarnessError(f"reference subprocess gave no result: {out[-300:]}")
    return json.loads(line[-1][4:])


def join_refs(procs, timeout):
    """-> (key -> [(value, ('ref', process number, op index))], [history of each process], [timeouts])"""
    refs = {}
    t0 = time.time()
    hists, timeouts = [], []
    for n, (p, hs, h) in enumerate(procs):
        r = read_ref(p, timeout - (time.time() - t0))
        hists.append({"r0": h["r0"], "ops": h["ops"], "PYTHONHASHSEED": hs})
        if r["timeout"]:
            timeouts.append((n, r["nsteps"] - 1))
        for key, val, i in r["obs"]:
            if r["timeout"] and i >= r["nsteps"] - 1:
                continue      # the op that hit the time limit has no value to compare (it is repeated alone, see confirmed_timeout)
            refs.setdefault(key, []).append((val, ("ref", n, i)))
    return refs, hists, timeouts


def run_fresh(histories, op_limit, hashseeds=(4242, 77, 5, 6), timeout=3000):
    """each history in its own fresh interpreter (in parallel); -> list of observation lists"""
    ps = [spawn_ref(h, hashseeds[i % len(hashseeds)], op_limit) for i, h in enumerate(histories)]
    try:
        return [read_ref(p, timeout) for p in ps]
    finally:
        for p in ps:
            if p.poll() is None:
                p.kill()


# ------------------------------------------------------------------------------------------------------------------
# oracle: same specification => same bits
# ------------------------------------------------------------------------------------------------------------------
def observations(h, ex):
    """[(key, value-hash, op index)] of one executed history"""
    obs = []
    polys, grids = [], []
    for i, (op, s) in enumerate(zip(h["ops"], ex["steps"])):
        t, r = op["t"], s["res"]
        val = ("err:" + r["err"]) if "err" in r else None
        if t == "newPoly" and "handle" in r:
            polys.append([op["kind"], 0])
        elif t == "divide" and op["h"] < len(polys) and "unit" in r:
            polys[op["h"]][1] += 1
        elif t in ("nodes", "half") and op["h"] < len(polys):
            k, l = polys[op["h"]]
            obs.append((f"poly:{k}@{l}:{poly_sub(t, op['N'], op['proj'])}", val or hb(r["pts"]), i))
        elif t == "gen":
            obs.append((f"{op['alg']}_{op['N']}:create", val or hb(r["created"]), i))
        elif t == "grid":
            obs.append((f"{op['alg']}_{op['N']}:create", val or hb(r["created"]), i))
            if "handle" in r:
                grids.append((op["alg"], op["N"]))
        elif t == "get" and op["h"] < len(grids):
            a, n = grids[op["h"]]
            obs.append((f"{a}_{n}:{op['g']}", val or r["out"], i))
            if op["g"] == "array" and val is None:
                obs.append((f"{a}_{n}:create", r["out"], i))   # the stored array must still be what creation returned
        elif t == "regen" and op["h"] < len(grids):
            a, n = grids[op["h"]]
            obs.append((f"{a}_{n}:create", val or r["out"], i))
    return obs


HALF_CAP = [8, 40, 272, 2080]
NODE_CAP = {"ico": [12, 42, 162, 642, 2562], "cube3D": [8, 26, 98, 386, 1538], "cube4D": [16, 80, 544, 4160]}


def allowed_error(op, polys, grids):
    """the exception this op may raise on correct code (None = must succeed); constants of the geometry only"""
    t = op["t"]
    if t in ("divide", "nodes", "half"):
        if op["h"] >= len(polys):
            return "other:NoObject"
        k, l = polys[op["h"]]
        if t == "divide":
            return None
        if t == "half" and k != "cube4D":
            return "AttributeError"
        avail = (HALF_CAP if t == "half" else NODE_CAP[k])[l]
        return "ValueError" if op["N"] is not None and op["N"] > avail else None
    if t == "grid":
        return "ValueError" if op["alg"] == "fulldiv" and op["N"] not in FULLDIV else None
    if t == "regen":
        return "other:NoObject" if op["h"] >= len(grids) else None
    if t == "get":
        if op["h"] >= len(grids):
            return "other:NoObject"
        a, n = grids[op["h"]]
        mikro = a in ("zero3D", "zero4D") or n < 4
        return "AttributeError" if op["g"] == "hulls" and mikro else None
    return None


def oracle_errors(ctx, h, ex):
    polys, grids = [], []
    for i, (op, s) in enumerate(zip(h["ops"], ex["steps"])):
        r = s["res"]
        want = allowed_error(op, polys, grids)
        got = r.get("err")
        if got == "other:Timeout":
            return
        if got != want:
            ctx.fail("C08:exception", f"op {i} ({op}) " + (f"raised {got}" if got else "did not raise") +
                     (f", expected {want}" if want else " on a valid specification"),
                     case_of({"r0": h["r0"], "ops": h["ops"][:i + 1]}, i), expected=want, observed=got)
            return
        t = op["t"]
        if t == "newPoly" and "handle" in r:
            polys.append([op["kind"], 0])
        elif t == "divide" and got is None:
            polys[op["h"]][1] += 1
        elif t == "grid" and "handle" in r:
            grids.append((op["alg"], op["N"]))


def minimal_candidate(h, focus):
    """the construction of the object that op `focus` reads (with its subdivisions), every reseed / draw before it, and
    op `focus` itself; None when op `focus` reads nothing"""
    ops = h["ops"]
    op = ops[focus]
    if op["t"] in ("get", "regen"):
        made = lambda o: o["t"] == "grid" and not (o["alg"] == "fulldiv" and o["N"] not in FULLDIV)
    elif op["t"] in ("nodes", "half"):
        made = lambda o: o["t"] == "newPoly"
    else:
        return None
    cnt, ci = -1, None
    for i, o in enumerate(ops[:focus]):
        if made(o):
            cnt += 1
            if cnt == op["h"]:
                ci = i
                break
    if ci is None:
        return None
    new = []
    seg = []                      # generator ops since the last kept object op; a reseed makes the earlier ones irrelevant

    def flush():
        last = max([j for j, o in enumerate(seg) if o["t"] == "reseed"], default=0)
        new.extend(seg[last:])
        seg.clear()

    for i, o in enumerate(ops[:focus + 1]):
        if i == ci:
            flush()
            new.append(dict(o))
        elif i == focus or (o["t"] == "divide" and op["t"] in ("nodes", "half") and o["h"] == op["h"] and i > ci):
            flush()
            new.append(dict(o, h=0))
        elif o["t"] in ("reseed", "draw"):
            seg.append(dict(o))
    return {"r0": h["r0"], "ops": new}, len(new) - 1


def value_in(obs, key, focus):
    for k, v, i in obs:
        if i == focus and k == key:
            return v
    return None


def pair_case(key, ha, fa, hb_, fb, where_a="fresh process", where_b="fresh process"):
    return {"kind": "pair", "key": key,
            "a": {"where": where_a, "r0": ha["r0"], "ops": ha["ops"][:fa + 1], "focus": fa},
            "b": {"where": where_b, "r0": hb_["r0"], "ops": hb_["ops"][:fb + 1], "focus": fb}}


def shrink_pair(case, op_limit):
    """try the minimal candidates of both sides in two fresh interpreters; keep them if the values still differ"""
    ca = minimal_candidate(case["a"], case["a"]["focus"])
    cb = minimal_candidate(case["b"], case["b"]["focus"])
    if ca is None or cb is None:
        return case, None, None
    try:
        ra, rb = run_fresh([ca[0], cb[0]], op_limit, timeout=120)
    except core.HarnessError:
        return case, None, None
    va, vb = value_in(ra["obs"], case["key"], ca[1]), value_in(rb["obs"], case["key"], cb[1])
    if va is None or vb is None or va == vb:
        return case, None, None
    return pair_case(case["key"], ca[0], ca[1], cb[0], cb[1]), va, vb


RETRY_OP_LIMIT = 900.0   # seconds per op when an op that hit the ordinary limit is repeated alone


def confirmed_timeout(ctx, h, i):
    """An op that hits the per-op time limit on a loaded machine is not a failure of the property (the limit exists to
    recognise non-termination, e.g. the subdivision loop never reaching N): the history prefix is repeated alone in a
    fresh process with a 900 s limit per op, and only if the op does not return there either is it reported."""
    prefix = {"r0": h["r0"], "ops": h["ops"][:i + 1]}
    r = run_fresh([prefix], RETRY_OP_LIMIT, timeout=RETRY_OP_LIMIT * (i + 1) + 300)[0]
    if r["timeout"]:
        return True
    ctx.branch("slow_op_repeated_with_long_limit")
    ctx.note(f"op {i} ({h['ops'][i]}) exceeded the ordinary per-op time limit (machine load) and returned when repeated alone "
             "with a 900 s limit; its observations are not used in this run")
    return False


def oracle_histories(ctx, hist, execs, refs, ref_hists=(), ref_timeouts=(), minimise=True):
    table = {}
    for h, ex in zip(hist, execs):
        oracle_errors(ctx, h, ex)
    for n, i in ref_timeouts:
        h = ref_hists[n]
        if confirmed_timeout(ctx, h, i):
            ctx.fail("C08:timeout", f"op {i} ({h['ops'][i]}) did not return within {RETRY_OP_LIMIT:.0f} s in a fresh process",
                     case_of({"r0": h["r0"], "ops": h["ops"][:i + 1]}, i))
    for hi, (h, ex) in enumerate(zip(hist, execs)):
        if ex["timeout"]:
            i = len(ex["steps"]) - 1
            if confirmed_timeout(ctx, h, i):
                ctx.fail("C08:timeout", f"op {i} ({h['ops'][i]}) did not return within {RETRY_OP_LIMIT:.0f} s", case_of(h, i))
            continue
        for key, val, i in observations(h, ex):
            table.setdefault(key, []).append((val, ("history", hi, i)))
    for key, lst in refs.items():
        for val, src in lst:
            table.setdefault(key, []).append((val, src))
    reported = 0
    pairs = 0
    found = []          # emitted at the end, shortest replay first

    class _Collect:
        @staticmethod
        def fail(key, what, case, expected=None, observed=None):
            found.append((len(json.dumps(case, default=str)), len(found), key, what, case, expected, observed))
    real_ctx, ctx_f = ctx, _Collect
    for key in sorted(table):
        vals = table[key]
        distinct = sorted({v for v, _ in vals})
        ctx.nt(("spec", key)) if len(vals) > 1 else None
        if len(distinct) <= 1:
            continue
        in_refs = [(v, s) for v, s in vals if s[0] == "ref"]
        in_hist = [(v, s) for v, s in vals if s[0] == "history"]
        if len({v for v, _ in in_refs}) > 1:
            # two fresh processes that ran different histories disagree: the replay is the pair of histories
            # the two disagreeing observations that come earliest in their processes (shortest replay)
            va, sa = min(in_refs, key=lambda x: x[1][2])
            vb, sb = min(((v, s) for v, s in in_refs if v != va), key=lambda x: x[1][2])
            case = pair_case(key, ref_hists[sa[1]], sa[2], ref_hists[sb[1]], sb[2])
            if minimise and pairs < 2:
                case, wa, wb = shrink_pair(case, ctx.op_limit)
                if wa is not None:
                    va, vb = wa, wb
            pairs += 1
            ctx_f.fail(f"C08:{key}", f"{key}: two fresh processes that ran different histories return different bits "
                     f"(op {case['a']['focus']} of history a, op {case['b']['focus']} of history b)", case, expected=va, observed=vb)
            continue
        # every fresh process agrees (or there is none): expected = their value, else the most frequent
        expected = in_refs[0][0] if in_refs else max(distinct, key=lambda d: sum(1 for v, _ in vals if v == d))
        bad = [(v, s) for v, s in in_hist if v != expected]
        v, s = bad[0]
        h = hist[s[1]]
        case = case_of(h, s[2])
        if minimise and reported < 3:
            case = shrink(h, s[2], key, expected, ctx.op_limit)
            if in_refs and value_of_case(case, key, ctx.op_limit) == expected:
                # not reproducible by this history alone (depends on what this process did before): give the pair
                sa = in_refs[0][1]
                case = pair_case(key, ref_hists[sa[1]], sa[2], h, s[2], where_b="this process, after other histories")
        ctx_f.fail(f"C08:{key}", f"{key}: value depends on the history (differs bitwise from "
                 f"{'a fresh process' if in_refs else 'other histories'})", case, expected=expected, observed=v)
        reported += 1
    for _, _, k, what, case, exp, obs_ in sorted(found, key=lambda x: x[:2]):
        real_ctx.fail(k, what, case, expected=exp, observed=obs_)
    return table


def value_of_case(case, key, op_limit):
    """value of the focused op when the (history) case is executed now, in this process"""
    if case.get("kind") != "history" or "focus" not in case:
        return None
    h = {"r0": case["r0"], "ops": case["ops"]}
    with rng_guard():
        ex = exec_history(h, op_limit)
    if ex["timeout"]:
        return None
    return value_in(observations(h, ex), key, case["focus"])


def drop_op(h, focus, j, created):
    """history without op j (and without the ops that use an object it created); None when op j cannot go"""
    ops = h["ops"]
    if j == focus:
        return None
    op = ops[j]
    new = []
    nf = None
    if op["t"] in ("newPoly", "grid") and created[j] is not None:
        cls = "poly" if op["t"] == "newPoly" else "grid"
        hdl = created[j]
        users = ("divide", "nodes", "half") if cls == "poly" else ("get", "regen")
        for i, o in enumerate(ops):
            if i == j:
                continue
            if o["t"] in users and o["h"] == hdl:
                if i == focus:
                    return None
                continue
            o2 = dict(o)
            if o["t"] in users and o["h"] > hdl:
                o2["h"] = o["h"] - 1
            if i == focus:
                nf = len(new)
            new.append(o2)
    else:
        for i, o in enumerate(ops):
            if i == j:
                continue
            if i == focus:
                nf = len(new)
            new.append(o)
    return {"r0": h["r0"], "ops": new}, nf


def shrink(h, focus, key, expected, op_limit, max_runs=30, max_s=25.0):
    """greedy removal of ops while op `focus` stays an observation of `key` and keeps differing from `expected`"""
    t0 = time.time()
    h = {"r0": h["r0"], "ops": h["ops"][:focus + 1]}
    runs = 0

    def value_at(hh, f):
        ex = exec_history(hh, op_limit)
        if ex["timeout"]:
            return None, ex
        for k, val, i in observations(hh, ex):
            if i == f and k == key:
                return val, ex
        return None, ex

    val, ex = value_at(h, focus)
    if val is None or val == expected:
        return case_of(h, focus)   # not reproducible in isolation (depends on earlier histories of this process): keep as is
    j = focus - 1
    while j >= 0 and runs < max_runs and time.time() - t0 < max_s:
        created = [s["res"].get("handle") for s in ex["steps"]]
        d = drop_op(h, focus, j, created)
        if d is not None:
            h2, f2 = d
            runs += 1
            v2, ex2 = value_at(h2, f2)
            if v2 is not None and v2 != expected:
                h, focus, ex = h2, f2, ex2
        j = min(j, focus) - 1
    return case_of(h, focus)


# ------------------------------------------------------------------------------------------------------------------
# oracle: prefix stability
# ------------------------------------------------------------------------------------------------------------------
def gen_only(alg, N):
    """the grid array of the factory object without the Voronoi construction (same _gen_grid code path; the object is
    built by its own constructor)"""
    from molgri.space import rotobj
    cls = {"ico": rotobj.IcoRotations, "cube3D": rotobj.Cube3DRotations, "cube4D": rotobj.Cube4DRotations}[alg]
    o = cls(N=N)
    return np.array(o._gen_grid(), dtype=np.float64)


def prefix_case(ctx, tables, alg, N, full=False, rep=None):
    """N-point grid of a polytope algorithm against the complete reference grids of the levels above"""
    rep = rep or {}
    case = {"kind": "prefix", "alg": alg, "N": N, "full": full, "rep": rep}
    ctx.branch(f"rep:int:{rep.get('N') or 'int'}")
    try:
        with core.quiet(), time_limit(ctx.op_limit):
            Nr = rep_int(N, rep.get("N"))
            a = np.array(factory_create(rep_str(alg, rep.get("alg")), Nr, dim=DIM[alg]).grid, dtype=np.float64) if full else gen_only(alg, Nr)
    except OpTimeout:
        # not a failure by itself on a loaded machine: repeated once with the long limit
        try:
            with core.quiet(), time_limit(RETRY_OP_LIMIT):
                Nr = rep_int(N, rep.get("N"))
                a = np.array(factory_create(rep_str(alg, rep.get("alg")), Nr, dim=DIM[alg]).grid, dtype=np.float64) if full else gen_only(alg, Nr)
            ctx.branch("slow_op_repeated_with_long_limit")
        except OpTimeout:
            ctx.fail("C08:timeout", f"creation of {alg}_{N} did not return within {RETRY_OP_LIMIT:.0f} s", case)
            return
        except Exception as e:
            ctx.fail(f"C08:prefix:{alg}", f"creation of {alg}_{N} (N as {rep.get('N') or 'int'}) raised {core.errname(e)}", case)
            return
    except Exception as e:
        ctx.fail(f"C08:prefix:{alg}", f"creation of {alg}_{N} (N as {rep.get('N') or 'int'}) raised {core.errname(e)}", case)
        return
    mine = a[:N]
    ok_levels = 0
    for lvl, rows in enumerate(tables.ref_rows[alg]):
        if len(rows) < N:
            continue
        ok_levels += 1
        if not same_bits(mine, rows[:N]):
            bad = next(i for i in range(N) if not same_bits(mine[i], rows[i]))
            ctx.fail(f"C08:prefix:{alg}", f"{alg}_{N} is not the first {N} rows of the complete level-{lvl} grid ({len(rows)} points): "
                     f"first differing row {bad}", case,
                     expected=rows[bad].tolist(), observed=mine[bad].tolist())
            return
    if ok_levels:
        ctx.nt(("prefix", alg, N))
        ctx.branch(f"prefix:{alg}:levels_above={ok_levels}")


def prefix_levels(ctx, tables):
    bound = {"ico": 60 if ctx.quick else 300, "cube3D": 60 if ctx.quick else 300, "cube4D": 40 if ctx.quick else 80}
    for alg in KINDS:
        ns = list(range(1, bound[alg] + 1))
        if alg == "cube4D" and not ctx.quick:
            ns = list(range(1, 41)) + sorted(ctx.rng.sample(range(41, 81), 3))   # level 2 costs ~15 s per object
        if alg == "cube4D" and ctx.quick:
            ns = list(range(1, 11)) + sorted(ctx.rng.sample(range(11, 41), 8))    # ~0.6 s per object above 8
        for N in ns:
            ctx.count()
            prefix_case(ctx, tables, alg, N, rep={"N": ctx.rng.choice(INT_REPS)})
            if ctx.time_left() < 0:
                ctx.note("prefix sweep stopped at the time budget")
                return


def prefix_pairs(ctx, created):
    """arrays created through the factory inside the histories: pairwise prefix"""
    by = {}
    for (alg, N), arr in created.items():
        if alg in KINDS or alg == "fulldiv":
            by.setdefault("cube4D" if alg == "fulldiv" else alg, []).append((N, alg, arr))
    for alg, lst in by.items():
        lst.sort(key=lambda x: x[0])
        for i in range(len(lst)):
            for j in range(i + 1, len(lst)):
                (n1, a1, x1), (n2, a2, x2) = lst[i], lst[j]
                ctx.count()
                if not same_bits(x1[:n1], x2[:n1]):
                    ctx.fail(f"C08:prefix:{alg}", f"{a1}_{n1} is not the first {n1} rows of {a2}_{n2}",
                             {"kind": "prefix_pair", "a": [a1, n1], "b": [a2, n2]})
                else:
                    ctx.nt(("prefix_pair", a1, n1, a2, n2))


# ------------------------------------------------------------------------------------------------------------------
# entry points
# ------------------------------------------------------------------------------------------------------------------
def lmax_for(ctx):
    lm = {"ico": 2, "cube3D": 2, "cube4D": 1} if ctx.quick else {"ico": 3, "cube3D": 3, "cube4D": 1}
    return lm


def needed_lmax(lm, histories, tables_cap):
    """raise the table depth so that every N of the histories fits"""
    lm = dict(lm)
    cap = tables_cap
    for h in histories:
        for op in h["ops"]:
            if op["t"] == "grid" and op["alg"] in ("ico", "cube3D", "cube4D", "fulldiv"):
                k = "cube4D" if op["alg"] == "fulldiv" else op["alg"]
                for l, c in enumerate(cap[k]):
                    if c >= op["N"]:
                        lm[k] = max(lm[k], l)
                        break
    return lm


CAP = {"ico": [12, 42, 162, 642, 2562], "cube3D": [8, 26, 98, 386, 1538], "cube4D": [8, 40, 272, 2080]}


def run_model(ctx, tables, hist, chunk=8):
    chunks = [[model_line(tables, h) for h in hist[i:i + chunk]] for i in range(0, len(hist), chunk)]
    if len(chunks) <= 2:
        return [o for c in chunks for o in ctx.model(c)]
    from concurrent.futures import ThreadPoolExecutor
    with ThreadPoolExecutor(4 if ctx.quick else 6) as tp:      # each call is one `lake env lean --run` subprocess
        return [o for res in tp.map(ctx.model, chunks) for o in res]


def _exec_star(args):
    h, lim = args
    return exec_history(h, lim)


def _dbg(ctx, what):
    if os.environ.get("VERIF_DEBUG"):
        print(f"[C08 +{time.time() - ctx.t0:6.1f}s] {what}", file=sys.stderr, flush=True)


def run(ctx):
    t_start = time.time()
    _dbg(ctx, 'run starts')
    ctx.op_limit = 40.0 if ctx.quick else 240.0
    ctx.budget_s = 200 if ctx.quick else 17 * 60
    ctx.hist_budget_s = 140 if ctx.quick else 13 * 60
    pool = spec_pool(ctx, ctx.quick)
    corpus = [c for f in ctx.open_findings + ctx.fixed_findings for c in f.get("cases", [])]
    nh, maxops = (40, 12) if ctx.quick else (200, 40)
    hist = [{"r0": c["r0"], "ops": c["ops"]} for c in corpus if c.get("kind") == "history"]
    lm = lmax_for(ctx)
    gen = structured_histories(ctx, pool) + [gen_history(ctx, pool, lm, maxops, i) for i in range(nh)]
    hist += [{"r0": h["r0"], "ops": assign_reps(ctx.rng, h["ops"])} for h in gen]
    hist += rep_sweep_histories()
    ctx.extra_cov["argument_representations"] = {
        "integers (N of create / get_nodes / get_half_of_hypercube / _gen_grid)": list(INT_REPS),
        "flags (projection, only_upper, approx)": list(FLAG_REPS),
        "algorithm names": list(STR_REPS),
        "accepted_on_unchanged_tree": "all of them, bit-identical to the plain Python value (probed for every entry point the harness calls)",
        "left_out": REPS_LEFT_OUT,
        "sweep": "all families over two fixed cases (ico_13 + icosahedron getters: full product 5x4x3; cube4D_5 + hypercube getters: 5x3)"}
    lm = needed_lmax(lm, hist, CAP)
    for s in hist[:3]:
        ctx.sample(case_of(s))
    # fresh-process references run while this process executes the histories
    qs = queries_of(hist)
    # every specification goes to two (thorough: three) fresh interpreters that run different whole-process histories
    nproc = 4 if ctx.quick else 6
    procs = start_refs(qs, nproc, [1, 2, 3, 4242, 5, 6], ctx.op_limit, copies=2)
    extra = start_refs(qs, 3, [11, 12, 13], ctx.op_limit, copies=1, first_policy=2) if not ctx.quick else []
    sizes = internal_point_counts()
    ctx.extra_cov["internal_point_set_sizes_found_in_source"] = sizes
    for k, h in enumerate(collision_histories(sizes)):
        extra.append((spawn_ref(h, [21, 22][k], ctx.op_limit), str([21, 22][k]), h))
    try:
        try:
            tables = Tables(lm, RETRY_OP_LIMIT)     # reference tables: the long limit (load must not look like non-termination)
        except RefFailure as e:
            ctx.count()
            ctx.fail("C08:exception", f"a fresh polytope cannot be built / subdivided / read: {e}", e.case(), expected=None, observed=e.err)
            return
        _dbg(ctx, 'tables built')
        mp_pool = None
        if not ctx.quick:
            import multiprocessing as mp
            mp_pool = mp.get_context("fork").Pool(8)
        try:
            created = _run_histories_then_refs(ctx, tables, hist, procs + extra, mp_pool)
        finally:
            if mp_pool is not None:
                mp_pool.terminate()
    finally:
        for p, _, _ in procs + extra:
            if p.poll() is None:
                p.kill()
    for c in corpus:
        if c.get("kind") == "prefix":
            prefix_case(ctx, tables, c["alg"], c["N"], c.get("full", False), c.get("rep"))
    _dbg(ctx, 'oracle done')
    if ctx.quick:
        prefix_levels(ctx, tables)
    prefix_pairs(ctx, created)
    _dbg(ctx, 'prefix sweep done')
    ctx.note("numpy's Mersenne Twister, qhull, scipy.spatial and networkx are assumed to be deterministic functions of their inputs "
             "and of the global generator state; np.allclose-style row matching is modelled as equality of points")
    ctx.extra_cov["fresh_process_specs"] = len(qs)
    ctx.extra_cov["wall_histories_s"] = round(time.time() - t_start, 1)


def _run_histories_then_refs(ctx, tables, hist, procs, mp_pool):
    # execute + model first; join references; then oracle (inside process_histories we need refs -> split)
    if mp_pool is not None:
        execs = []
        it = mp_pool.imap(_exec_star, [(h, ctx.op_limit) for h in hist], chunksize=1)
        prefix_levels(ctx, tables)          # this process is idle while the pool works
        _dbg(ctx, 'prefix levels done')
        for _ in hist:
            left = ctx.hist_budget_s - (time.time() - ctx.t0)
            try:
                execs.append(it.next(timeout=max(1.0, left)))
            except Exception as e:
                if type(e).__name__ != "TimeoutError":
                    raise
                ctx.note(f"time budget: {len(execs)} of {len(hist)} histories executed")
                break
        hist = hist[:len(execs)]
    else:
        execs = []
        for h in hist:
            execs.append(exec_history(h, ctx.op_limit))
            if execs[-1]["timeout"]:
                ctx.note("a history hit the per-op time limit; remaining histories skipped")
                break
            if time.time() - ctx.t0 > ctx.hist_budget_s:
                ctx.note(f"time budget: {len(execs)} of {len(hist)} histories executed")
                break
        hist = hist[:len(execs)]
    _dbg(ctx, f'{len(execs)} histories executed')
    mouts = run_model(ctx, tables, hist)
    _dbg(ctx, 'model done')
    terms, rngcache, created = {}, {}, {}
    for h, ex, mo in zip(hist, execs, mouts):
        ctx.count()
        compare_history(ctx, tables, h, ex, mo, terms, rngcache)
        ctx.branch(f"history_len_{len(h['ops']) // 10 * 10}+")
        for op, s in zip(h["ops"], ex["steps"]):
            ctx.branch("op:" + op["t"] + (":" + op["g"] if op["t"] == "get" else "") + (":" + op["alg"] if op["t"] == "grid" else ""))
            for fld, r in (op.get("rep") or {}).items():
                ctx.branch("rep:" + {"N": "int", "alg": "str"}.get(fld, "flag") + ":" + r)
            if op["t"] == "grid" and "created" in s["res"]:
                created.setdefault((op["alg"], op["N"]), s["res"]["created"])
        reads = sum(1 for op in h["ops"] if op["t"] in ("get", "nodes", "half"))
        makes = sum(1 for op in h["ops"] if op["t"] in ("grid", "newPoly"))
        if reads and makes:
            ctx.nt(json.dumps(h["ops"], sort_keys=True))
    _dbg(ctx, 'compared')
    refs, ref_hists, ref_timeouts = join_refs(procs, timeout=1800 if ctx.quick else 3000)
    _dbg(ctx, 'refs joined')
    ctx.branch("fresh_process_observations", sum(len(v) for v in refs.values()))
    ctx.branch("fresh_process_histories", len(ref_hists))
    for h in ref_hists:
        ctx.branch("fresh_process_ops", len(h["ops"]))
    oracle_histories(ctx, hist, execs, refs, ref_hists, ref_timeouts)
    return created


def replay(ctx, cases):
    ctx.op_limit = 240.0
    hist = [{"r0": c["r0"], "ops": c["ops"]} for c in cases if c.get("kind") == "history"]
    lm = needed_lmax(lmax_for(ctx), hist, CAP)
    # polytope levels reached by explicit divides
    for h in hist:
        lv = []
        for op in h["ops"]:
            if op["t"] == "newPoly":
                lv.append([op["kind"], 0])
            elif op["t"] == "divide" and op["h"] < len(lv):
                lv[op["h"]][1] += 1
                lm[lv[op["h"]][0]] = max(lm[lv[op["h"]][0]], lv[op["h"]][1])
    try:
        tables = Tables(lm, ctx.op_limit)
    except RefFailure as e:
        ctx.fail("C08:exception", f"a fresh polytope cannot be built / subdivided / read: {e}", e.case(), expected=None, observed=e.err)
        return
    if hist:
        qs = queries_of(hist)
        procs = start_refs(qs, 2, [4242, 77], ctx.op_limit, copies=2)
        try:
            execs = [exec_history(h, ctx.op_limit) for h in hist]
            mouts = run_model(ctx, tables, hist)
            terms, rngcache = {}, {}
            for h, ex, mo in zip(hist, execs, mouts):
                ctx.count()
                compare_history(ctx, tables, h, ex, mo, terms, rngcache)
            refs, ref_hists, ref_timeouts = join_refs(procs, timeout=3000)
        finally:
            for p, _, _ in procs:
                if p.poll() is None:
                    p.kill()
        oracle_histories(ctx, hist, execs, refs, ref_hists, ref_timeouts, minimise=False)
    for c in cases:
        if c.get("kind") == "pair":
            # the two histories, each in its own fresh interpreter
            ctx.count()
            ha = {"r0": c["a"]["r0"], "ops": c["a"]["ops"]}
            hb2 = {"r0": c["b"]["r0"], "ops": c["b"]["ops"]}
            ra, rb = run_fresh([ha, hb2], ctx.op_limit)
            va, vb = value_in(ra["obs"], c["key"], c["a"]["focus"]), value_in(rb["obs"], c["key"], c["b"]["focus"])
            print(f"pair replay {c['key']}: history a -> {va}, history b -> {vb}")
            if va != vb:
                ctx.fail(f"C08:{c['key']}", f"{c['key']}: two fresh processes that ran different histories return different bits", c,
                         expected=va, observed=vb)
    for c in cases:
        if c.get("kind") == "prefix":
            ctx.count()
            prefix_case(ctx, tables, c["alg"], c["N"], c.get("full", False), c.get("rep"))
        elif c.get("kind") == "prefix_pair":
            ctx.count()
            (a1, n1), (a2, n2) = c["a"], c["b"]
            with core.quiet():
                x1 = np.array(factory_create(a1, n1).grid)
                x2 = np.array(factory_create(a2, n2).grid)
            if not same_bits(x1[:n1], x2[:n1]):
                ctx.fail("C08:prefix:" + ("cube4D" if a1 == "fulldiv" else a1), f"{a1}_{n1} is not the first {n1} rows of {a2}_{n2}", c)


if __name__ == "__main__":
    if len(sys.argv) >= 3 and sys.argv[1] == "--ref":
        with core.quiet():
            import molgri  # noqa: F401
        if os.environ.get("MOLGRI_REPO"):
            assert str(Path(molgri.__file__).resolve()).startswith(str(Path(os.environ["MOLGRI_REPO"]).resolve())), molgri.__file__
        hist_in = json.loads(sys.stdin.read())
        res = exec_process_history({"r0": hist_in["r0"], "ops": hist_in["ops"]}, float(sys.argv[2]))
        print("REF " + json.dumps(res))
