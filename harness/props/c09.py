"""C09 - full-grid row order (molgri.space.fullgrid: _t_and_o_2_positions, FullGrid.get_full_grid_as_array,
get_position_index, get_quaternion_index, from_full_array_to_o_b_t)."""
from __future__ import annotations

import itertools
from fractions import Fraction

import numpy as np

import core

RULE = ("grid cases: every pair of direction algorithm {ico,cube3D,randomS,zero} x rotation algorithm {cube4D,randomQ,fulldiv,zero}, "
        "n_b,n_o in 1..9 (thorough: the whole 9x9 box per pair twice, plus n_o up to 42 / n_b up to 24, fulldiv_40), n_t in 1..4, radial grid as list/tuple "
        "literal (unsorted), linspace(..) or range(..), name spellings 'alg_N' / 'N_alg' / 'N' / 'zero'; per grid the two index "
        "helpers with None and with 3-4 index arrays (sorted subset, repeats in random order, negative indices, empty, "
        "out of range); rare branches: negative radius (AssertionError), zero radius, duplicate / 1e-9-close radii; radial grids clustered "
        "around 0.1 / 1 / 10 Angstrom with offsets log-uniform over 1e-9..1e-2 A (1-4 shells, gaps > 1e-7 A, incl. exactly 1.0 A), "
        "where tolerances of shared helpers can bite; extreme magnitudes (first radius 1e-9..1e-2 A before ordinary shells, "
        "radii of 1e3..1e5 A). "
        "decomp cases: synthetic N x 7 arrays for from_full_array_to_o_b_t with shuffled rows, exact duplicates and copies "
        "perturbed below the 1e-8 rounding (first occurrence must be kept, un-rounded). pos cases: _t_and_o_2_positions on "
        "random arrays, both branches. Argument representations: every case draws (seed-chosen) how each argument is handed "
        "over - names / radial text / algorithm names as str, run-time-built str, np.str_, str subclass; factor as float, int, "
        "np.float64, np.float32, 0-d array; the Cartesian flag as bool, np.bool_, 0/1 (True only for n_o >= 4 and increasing "
        "radii); index subsets as int64/int32/uint16/uint64 arrays, list, list of numpy ints, non-contiguous, read-only, 2-D, "
        "boolean mask (array / list), slice, range, scalar (int, np.int64, np.int32, np.uint16, 0-d); the array given to the "
        "decomposition as returned / Fortran-ordered / strided view / read-only (integer dtypes for an integer-valued array); "
        "radii of the position helper as float64, list, tuple, strided, read-only, float32, integer dtypes; N of the "
        "generating grids as int, np.int64, np.int32, np.uint16, 0-d array - plus a seed-independent sweep of all families, "
        "one argument at a time, over two small fixed grids. Expected values never depend on the representation. "
        "A grid case is non-trivial when n_b*n_o*n_t >= 2; distinct by (names, radii, index arrays)")
CHUNK = 40

ALG3 = ["ico", "cube3D", "randomS"]
ALG4 = ["cube4D", "randomQ"]

_fresh = {}


def fresh_grid(dim, alg, n):
    """the generating grid, built independently of any FullGrid object (cached per (dim, alg, n))"""
    key = (dim, alg, n)
    if key not in _fresh:
        from molgri.space.rotobj import SphereGrid3DFactory, SphereGrid4DFactory
        with core.quiet():
            if dim == 3:
                g = SphereGrid3DFactory.create(alg_name=alg if n > 1 else "zero3D", N=n).get_grid_as_array()
            else:
                g = SphereGrid4DFactory.create(alg_name=alg if n > 1 else "zero4D", N=n).get_grid_as_array()
        _fresh[key] = np.array(g, dtype=float)
    return _fresh[key]


# ----------------------------------------------------------------------------------------------
# argument representations: the same denoted value handed to the package in different Python / numpy representations.
# A case stores only family names (case["rep"]); the model and the oracle always work with the denoted values.
# ----------------------------------------------------------------------------------------------
class StrSub(str):
    """a str subclass instance (like a str-mixin Enum member)"""


STR_FAMS = ["str", "built", "np_str", "subclass"]
REAL_FAMS = ["float", "int", "f64", "f32", "0d"]
FLAG_FAMS = ["bool", "np_bool", "int01"]
INT_FAMS = ["int", "i64", "i32", "u16", "0d"]
ARR_FAMS = ["f64", "fortran", "strided", "readonly"]                 # 2-D float arrays (decomposition input, directions)
INTARR_FAMS = ["i64", "i32", "i16"]                                  # integer-valued 2-D arrays
T_FAMS = ["f64", "list", "tuple", "strided", "readonly", "f32", "i64", "i32", "u16", "intlist"]   # 1-D radii of the position helper
IDX_LIST_FAMS = ["i64", "i32", "u16", "u64", "list", "npint_list", "noncontig", "readonly"]

# established on the unchanged tree (see evidence "representations_left_out"): these raise or genuinely denote something else
LEFT_OUT = {
    "index array as tuple": "numpy reads a tuple as a multi-dimensional index -> IndexError (too many indices); not the same subset",
    "index array of integer-valued floats / float scalar index": "IndexError: arrays used as indices must be of integer (or boolean) type",
    "scalar index True/False / np.bool_": "numpy reads a boolean scalar as a 0-d mask (result of shape (1, N)), not as the integer 1/0",
    "full array as list / tuple of rows (from_full_array_to_o_b_t)": "TypeError: list indices must be integers or slices, not tuple (the function slices columns)",
    "full array as float32 / longdouble": "not the same numbers (float32 is not exact for grid coordinates); accepted, but results differ by construction",
    "o_property of _t_and_o_2_positions as list": "AttributeError: 'list' object has no attribute 'shape'",
    "N as np.uint64 for rotation grids": "TypeError on the unchanged tree (2*N becomes float64)",
    "position_grid_cartesian=True with fewer than 4 directions": "QhullError on the unchanged tree (allowed by C19); True-representations are used for n_o >= 4 only",
}


def rep_str(fam, s):
    if fam == "built":
        return "".join([c for c in s])          # built at run time, not an interned literal
    if fam == "np_str":
        return np.str_(s)
    if fam == "subclass":
        return StrSub(s)
    return str(s)


def rep_real(fam, x):
    x = float(x)
    if fam == "int" and x == int(x):
        return int(x)
    if fam == "f64":
        return np.float64(x)
    if fam == "f32" and float(np.float32(x)) == x:
        return np.float32(x)
    if fam == "0d":
        return np.array(x)
    return x


def rep_flag(fam, v):
    if fam == "np_bool":
        return np.bool_(v)
    if fam == "int01":
        return int(bool(v))
    return bool(v)


def rep_int(fam, n):
    n = int(n)
    if fam == "i64":
        return np.int64(n)
    if fam == "i32":
        return np.int32(n)
    if fam == "u16" and 0 <= n < 65536:
        return np.uint16(n)
    if fam == "0d":
        return np.array(n)
    return n


def rep_arr2(fam, a):
    """2-D array representations; 'f64' hands over the very object"""
    if fam == "fortran":
        return np.asfortranarray(np.array(a, dtype=float))
    if fam == "strided":
        a = np.asarray(a, dtype=float)
        big = np.full((2 * a.shape[0] + 1, 2 * a.shape[1] + 1), 7.25)
        big[1::2, 1::2] = a
        return big[1::2, 1::2]
    if fam == "readonly":
        b = np.array(a, dtype=float)
        b.setflags(write=False)
        return b
    if fam in ("i64", "i32", "i16"):
        return np.array(a).astype({"i64": np.int64, "i32": np.int32, "i16": np.int16}[fam])
    return a if isinstance(a, np.ndarray) else np.array(a, dtype=float)


def rep_t(fam, t):
    t = [float(v) for v in t]
    integer = all(v == int(v) and 0 <= v < 60000 for v in t)
    if fam == "list":
        return list(t)
    if fam == "tuple":
        return tuple(t)
    if fam == "strided":
        return np.array([v for x in t for v in (x, -1.0)])[::2]
    if fam == "readonly":
        b = np.array(t)
        b.setflags(write=False)
        return b
    if fam == "f32" and all(float(np.float32(v)) == v for v in t):
        return np.array(t, dtype=np.float32)
    if fam in ("i64", "i32", "u16") and integer:
        return np.array(t).astype({"i64": np.int64, "i32": np.int32, "u16": np.uint16}[fam])
    if fam == "intlist" and integer:
        return [int(v) for v in t]
    return np.array(t, dtype=float)


def idx_fams_for(ix, N):
    """index families that denote exactly the index list ix (order and repeats included) for an axis of length N"""
    fams = ["i64", "i32", "list", "npint_list", "noncontig", "readonly"]
    if all(i >= 0 for i in ix):
        fams += ["u16", "u64"]
    if len(ix) >= 1 and all(0 <= i < N for i in ix) and all(a < b for a, b in zip(ix, ix[1:])):
        fams += ["mask", "mask_list"]
    if len(ix) == 0 and N > 0:
        fams += ["mask"]
    if len(ix) >= 2 and all(0 <= i < N for i in ix) and len({b - a for a, b in zip(ix, ix[1:])}) == 1 and ix[1] != ix[0]:
        fams += ["slice", "range"]
    if len(ix) == 1 and -N <= ix[0] < N:
        fams += ["s_int", "s_i64", "s_i32", "s_0d"] + (["s_u16"] if ix[0] >= 0 else [])
    if len(ix) >= 2 and len(ix) % 2 == 0:
        fams += ["2d"]
    return fams


def rep_idx(fam, ix, N):
    if fam in ("mask", "mask_list"):
        m = np.zeros(N, dtype=bool)
        m[list(ix)] = True
        return m if fam == "mask" else m.tolist()
    if fam in ("slice", "range"):
        step = ix[1] - ix[0]
        stop = ix[-1] + (1 if step > 0 else -1)
        if fam == "range":
            return range(ix[0], stop, step)
        return slice(ix[0], None if stop < 0 else stop, step)
    if fam.startswith("s_"):
        return rep_int({"s_int": "int", "s_i64": "i64", "s_i32": "i32", "s_u16": "u16", "s_0d": "0d"}[fam], ix[0])
    if fam == "list":
        return list(ix)
    if fam == "npint_list":
        return [np.int64(i) for i in ix]
    if fam == "noncontig":
        return np.array([v for i in ix for v in (i, 0)], dtype=np.int64)[::2]
    if fam == "readonly":
        b = np.array(ix, dtype=np.int64)
        b.setflags(write=False)
        return b
    if fam == "2d":
        return np.array(ix, dtype=np.int64).reshape(2, len(ix) // 2)
    dt = {"i64": np.int64, "i32": np.int32, "u16": np.uint16, "u64": np.uint64}.get(fam, np.int64)
    return np.array(ix, dtype=dt)


def draw_grid_rep(rng, case, plain=False):
    """seed-chosen representation of every argument of a grid case (plain=True: the plain Python reference)"""
    N = case["nb"] * case["no"] * len(case["nm"])
    if plain:
        return {"b": "str", "o": "str", "t": "str", "factor": [2.0, "float"], "cart": [False, "bool"], "arr": "f64",
                "idx": ["i64"] * len(case["idx"]), "gen": ["int", "str", "int", "str"]}
    nm = sorted(case["nm"])
    # the Cartesian option needs at least 4 directions (qhull) and strictly increasing positive radii (its constructor
    # takes the radial increments); elsewhere the unchanged tree raises (C19), so True is not drawn there
    cart = case["no"] >= 4 and nm[0] > 0 and all(b - a > 1e-6 for a, b in zip(nm, nm[1:])) and rng.random() < 0.2
    factor = rng.choice([2.0, 2.0, 1.0, 3.0, 0.5, 2.5])
    return {"b": rng.choice(STR_FAMS), "o": rng.choice(STR_FAMS), "t": rng.choice(STR_FAMS),
            "factor": [factor, rng.choice(REAL_FAMS)], "cart": [cart, rng.choice(FLAG_FAMS)],
            "arr": rng.choice(["f64", "f64", "f64"] + ARR_FAMS),
            "idx": [rng.choice(idx_fams_for(ix, N)) for ix in case["idx"]],
            "gen": [rng.choice(INT_FAMS), rng.choice(STR_FAMS), rng.choice(INT_FAMS), rng.choice(STR_FAMS)]}


# ----------------------------------------------------------------------------------------------
# generators
# ----------------------------------------------------------------------------------------------
def spell(rng, alg, n, default_alg):
    if n == 1:
        return rng.choice(["zero", "1", f"{alg}_1", "zero_1"])
    forms = [f"{alg}_{n}", f"{alg}_{n}", f"{n}_{alg}"]
    if alg == default_alg:
        forms.append(f"{n}")
    return rng.choice(forms)


def radial(rng, nt, special=None):
    """-> (t_grid_name, nm values as the parser will see them (unsorted), kind)"""
    if special == "negative":
        vals = [round(rng.uniform(0.05, 2.0), 3) for _ in range(max(nt, 1))]
        vals[rng.randrange(len(vals))] *= -1
        return repr(vals), vals, "negative"
    if special == "zero":
        vals = [0.0] + [round(rng.uniform(0.05, 2.0), 3) for _ in range(nt - 1)]
        rng.shuffle(vals)
        return repr(vals), vals, "zero_radius"
    if special == "dup":
        base = round(rng.uniform(0.05, 2.0), 3)
        vals = [base, base + rng.choice([0.0, 4e-11, 2e-10, 5e-9, 3e-8, 1e-6])] + [round(rng.uniform(2.1, 3.0), 3) for _ in range(max(nt - 2, 0))]
        rng.shuffle(vals)
        return repr(vals), vals, "close_radii"
    decade = None
    if isinstance(special, tuple) and special[0] == "cluster":
        special, centre_fixed, decade = special
    else:
        centre_fixed = None
    if special == "cluster":
        # radii whose Angstrom values cluster around 0.1 / 1 / 10 A, where tolerances of shared helpers (np.allclose,
        # np.isclose, rounding) can bite: offsets log-uniform over 1e-9 .. 1e-2 A, both signs, mutual gaps > 1e-7 A so that
        # the decomposition stays defined; sometimes the exact centre is one of the shells or the only shell
        import math
        centre = centre_fixed if centre_fixed is not None else rng.choice([1.0, 1.0, 1.0, 0.1, 10.0])
        if decade is None and rng.random() < 0.12:
            ang = [centre]
        else:
            ang = [centre] if rng.random() < 0.35 and nt > 1 else []
            tries = 0
            while len(ang) < max(nt, 1) and tries < 60:      # narrow decades have no room for several shells 1.5e-7 apart
                tries += 1
                # stratified cases keep all shells of one grid in the same decade of distance from the centre
                off = 10 ** (rng.uniform(-9, -2) if decade is None else rng.uniform(decade, decade + 1)) * rng.choice([1, 1, -1])
                v = centre + off
                if all(abs(v - w) > 1.5e-7 for w in ang):
                    ang.append(v)
        vals = [a / 10.0 for a in ang]
        rng.shuffle(vals)
        return repr(vals), vals, "cluster"
    if special == "extreme":
        # extreme but valid magnitudes: a first radius log-uniform over 1e-9 .. 1e-2 A followed by ordinary shells, or very
        # large radii (1e3 .. 1e5 A); mutual gaps far above 1e-7 A
        if rng.random() < 0.65:
            ang = [10 ** rng.uniform(-9, -2)] + sorted(round(rng.uniform(0.5, 30.0), 2) + 0.5 * k for k in range(max(nt - 1, 0)))
        else:
            ang = sorted(10 ** rng.uniform(3, 5) for _ in range(max(nt, 1)))
            ang = [a + 1.0 * k for k, a in enumerate(ang)]
            if rng.random() < 0.4:
                ang[0] = round(rng.uniform(0.5, 30.0), 2)
        vals = [a / 10.0 for a in ang]
        rng.shuffle(vals)
        return repr(vals), vals, "extreme"
    form = rng.choice(["list", "list", "list", "tuple", "linspace", "range", "rawfloat"])
    if form == "linspace" and nt >= 2:
        a = round(rng.uniform(0.05, 1.0), 2)
        b = round(a + rng.uniform(0.1, 2.0), 2)
        if rng.random() < 0.3:
            a, b = b, a      # descending parameters (F9)
        return f"linspace({a}, {b}, {nt})", [float(v) for v in np.linspace(a, b, nt, dtype=float)], "linspace"
    if form == "range" and nt >= 2:
        a = round(rng.uniform(0.05, 1.0), 2)
        step = round(rng.uniform(0.05, 0.6), 2)
        stop = round(a + (nt - 0.5) * step, 4)
        vals = [float(v) for v in np.arange(a, stop, step, dtype=float)]
        if len(vals) == nt:
            return f"range({a}, {stop}, {step})", vals, "range"
    if form == "rawfloat":
        vals = sorted(rng.uniform(0.03, 3.0) for _ in range(nt))
        # keep them apart so that the radial grid is recoverable
        vals = [v + 0.01 * i for i, v in enumerate(vals)]
    else:
        vals = sorted(rng.sample(range(5, 400), nt))
        vals = [v / 100 for v in vals]
    rng.shuffle(vals)
    if nt == 1 and rng.random() < 0.5:
        return rng.choice([f"{vals[0]!r}", f"({vals[0]!r},)", f"linspace({vals[0]!r}, {vals[0] + 1!r}, 1)"]), vals, "single"
    s = repr(vals) if form != "tuple" or nt < 2 else repr(tuple(vals))
    return s, vals, "list" if form != "tuple" else "tuple"


def index_arrays(rng, N):
    out = []
    if N == 0:
        return [[]]
    k = rng.randint(1, min(N, 12))
    out.append(sorted(rng.sample(range(N), k)))
    out.append([rng.randrange(N) for _ in range(rng.randint(1, 15))])
    out.append([rng.randrange(-N, N) for _ in range(rng.randint(1, 10))])
    # a subset that is naturally written as a slice / range / boolean mask, and a single row
    step = rng.choice([1, 1, 2, 3, -1, -2])
    a = rng.randrange(N)
    prog = list(range(a, N if step > 0 else -1, step))[:rng.randint(2, 12)]
    if len(prog) >= 2:
        out.append(prog)
    out.append([rng.randrange(-N, N)])
    r = rng.random()
    if r < 0.15:
        out.append([])
    elif r < 0.3:
        out.append([rng.randrange(N), rng.choice([N, -N - 1, N + 3])])
    elif r < 0.45:
        out.append([N - 1, -N, 0, -1])
    return out


def grid_case(rng, o_alg, no, b_alg, nb, nt, special=None):
    t, nm, tk = radial(rng, nt, special)
    N = nb * no * len(nm)
    case = {"kind": "grid", "o_alg": o_alg, "no": no, "b_alg": b_alg, "nb": nb,
            "o": spell(rng, o_alg, no, "ico"), "b": spell(rng, b_alg, nb, "cube4D"),
            "t": t, "nm": nm, "tkind": tk, "idx": index_arrays(rng, N)}
    case["rep"] = draw_grid_rep(rng, case)
    return case


def unit(v):
    v = np.asarray(v, dtype=float)
    return v / np.linalg.norm(v)


def decomp_case(ctx, rng, i):
    g = ctx.nprng(f"decomp{i}")
    n_o, n_b, n_t = rng.randint(1, 5), rng.randint(1, 5), rng.randint(1, 3)
    dirs = [unit(g.normal(size=3)) for _ in range(n_o)]
    quats = [np.round(unit(g.normal(size=4)), 8) for _ in range(n_b)]   # on the 1e-8 lattice: perturbations stay in the cell
    # close but distinct rows: they differ in the 8th decimal or earlier, so they must NOT be merged
    if rng.random() < 0.5:
        e = np.zeros(3)
        e[rng.randrange(3)] = rng.choice([4e-8, 1e-6, 1e-4, 3e-3])
        dirs.append(unit(dirs[rng.randrange(len(dirs))] + e))
    if rng.random() < 0.5:
        e = np.zeros(4)
        e[rng.randrange(4)] = rng.choice([3e-8, 1e-6, 1e-4, 2e-3])
        quats.append(quats[rng.randrange(len(quats))] + e)
    radii = sorted(round(rng.uniform(0.5, 9.0), 3) for _ in range(n_t))
    radii = [r + 0.25 * k for k, r in enumerate(radii)]
    rows = []
    for r in radii:
        for d in dirs:
            for q in quats:
                if rng.random() < 0.85:
                    qq = np.array(q)
                    if rng.random() < 0.4:
                        qq = qq + g.choice([-2e-9, 1e-9, 2e-9], size=4)   # same key after rounding, different floats
                    rows.append(list(r * d) + list(qq))
    if not rows:
        rows.append(list(radii[0] * dirs[0]) + list(quats[0]))
    mode = rng.choice(["asis", "shuffle", "reverse", "dupes"])
    if mode == "shuffle":
        rng.shuffle(rows)
    elif mode == "reverse":
        rows.reverse()
    elif mode == "dupes":
        rows = rows + [list(r) for r in rng.choices(rows, k=rng.randint(1, 6))]
        rng.shuffle(rows)
    return {"kind": "decomp", "arr": [[float(v) for v in r] for r in rows], "mode": mode, "rep": {"arr": rng.choice(ARR_FAMS)}}


def pos_case(ctx, rng, i):
    g = ctx.nprng(f"pos{i}")
    n_o, n_t = rng.randint(1, 7), rng.randint(1, 5)
    if rng.random() < 0.7:
        o = g.normal(size=(n_o, rng.choice([3, 3, 4, 2]))).tolist()
    else:
        o = g.normal(size=n_o).tolist()
    if rng.random() < 0.35:
        t = [float(v) for v in rng.sample(range(1, 40), n_t)]      # integer-valued radii: may be handed over as ints
    else:
        t = g.uniform(0.1, 30, size=n_t).tolist()
    return {"kind": "pos", "o": o, "t": t, "rep": {"o": rng.choice(ARR_FAMS), "t": rng.choice(T_FAMS)}}


def sweep_cases():
    """exhaustive sweep, independent of the seed: every representation family of every argument, one argument at a time
    (all others plain Python), over two small fixed grids, two fixed arrays for the decomposition and fixed inputs of the
    position helper; every index family in one index-helper call each"""
    lin = [float(v) for v in np.linspace(0.2, 0.6, 3, dtype=float)]
    bases = [dict(kind="grid", o_alg="ico", no=4, b_alg="randomQ", nb=3, o="ico_4", b="randomQ_3", t="[0.3, 0.1]", nm=[0.3, 0.1], tkind="list"),
             dict(kind="grid", o_alg="cube3D", no=5, b_alg="cube4D", nb=2, o="5_cube3D", b="cube4D_2", t="linspace(0.2, 0.6, 3)", nm=lin,
                  tkind="linspace")]
    for base in bases:
        N = base["nb"] * base["no"] * len(base["nm"])
        idx, fams = [], []

        def add(ix, fs):
            for f in fs:
                assert f in idx_fams_for(ix, N), (f, ix)
                idx.append(list(ix))
                fams.append(f)
        add([0, 5, 5, N - 1, 2], ["i64", "i32", "u16", "u64", "list", "npint_list", "noncontig", "readonly"])
        add([-1, 3, -N, 3], ["i64", "i32", "list", "npint_list", "noncontig", "readonly", "2d"])
        add([1, 4, 6, N - 2], ["mask", "mask_list", "i64"])
        add([2, 5, 8, 11], ["slice", "range", "mask"])
        add([10, 8, 6, 4, 2, 0], ["slice", "range", "2d"])
        add([N - 1, N - 2], ["slice", "range"])
        add([7], ["s_int", "s_i64", "s_i32", "s_u16", "s_0d", "mask", "list"])
        add([-3], ["s_int", "s_i64", "s_i32", "s_0d", "i64"])
        add([], ["i64", "list", "mask", "u16"])
        add(list(range(N)), ["mask", "slice", "range", "i32"])
        c = dict(base, idx=idx, sweep="idx")
        c["rep"] = draw_grid_rep(None, c, plain=True)
        c["rep"]["idx"] = fams
        yield c
        short = [[0, N - 1, 3], [-2]]

        def one(**changes):
            c = dict(base, idx=[list(x) for x in short], sweep=",".join(changes))
            c["rep"] = draw_grid_rep(None, c, plain=True)
            c["rep"].update(changes)
            return c
        for a in ("b", "o", "t"):
            for f in STR_FAMS[1:]:
                yield one(**{a: f})
        for val, fs in ((2.0, ["int", "f64", "f32", "0d"]), (0.5, ["f32", "0d"]), (3.0, ["int"])):
            for f in fs:
                yield one(factor=[val, f])
        for val, fs in ((False, ["np_bool", "int01"]), (True, FLAG_FAMS)):
            for f in fs:
                yield one(cart=[val, f])
        for f in ARR_FAMS[1:]:
            yield one(arr=f)
        for f in INT_FAMS[1:]:
            yield one(gen=[f, "str", f, "str"])
        for f in STR_FAMS[1:]:
            yield one(gen=["int", f, "int", f])
    # decomposition: a fixed float array and a fixed integer-valued one
    g = np.random.default_rng(20240909)
    dirs = [unit(g.normal(size=3)) for _ in range(3)]
    quats = [unit(g.normal(size=4)) for _ in range(2)]
    rows = [list(r * d) + list(q) for r in (1.5, 4.0) for d in dirs for q in quats]
    for f in ARR_FAMS:
        yield {"kind": "decomp", "arr": [[float(v) for v in r] for r in rows], "mode": "asis", "rep": {"arr": f}, "sweep": "arr"}
    idirs = [[0, 0, 1], [1, 0, 0], [0, -1, 0], [-1, 0, 0]]
    iquats = [[0, 0, 0, 1], [1, 0, 0, 0], [0, 1, 0, 0]]
    irows = [[r * v for v in d] + q for r in (2, 5, 11) for d in idirs for q in iquats]
    for f in ARR_FAMS + INTARR_FAMS:
        yield {"kind": "decomp", "arr": [[float(v) for v in r] for r in irows], "mode": "asis", "rep": {"arr": f}, "sweep": "intarr"}
    # position helper
    o2 = g.normal(size=(3, 3)).tolist()
    o1 = g.normal(size=4).tolist()
    oi = [[1.0, 0.0, 0.0], [0.0, -2.0, 3.0]]
    t = [1.0, 2.0, 5.0]
    for f in ARR_FAMS:
        yield {"kind": "pos", "o": o2, "t": t, "rep": {"o": f, "t": "f64"}, "sweep": "o"}
    for f in T_FAMS[1:]:
        yield {"kind": "pos", "o": o2, "t": t, "rep": {"o": "f64", "t": f}, "sweep": "t"}
        yield {"kind": "pos", "o": o1, "t": t, "rep": {"o": "f64", "t": f}, "sweep": "t"}
    for f in ("strided", "readonly"):
        yield {"kind": "pos", "o": o1, "t": t, "rep": {"o": f, "t": "f64"}, "sweep": "o"}
    for f in INTARR_FAMS:
        yield {"kind": "pos", "o": oi, "t": t, "rep": {"o": f, "t": "f64"}, "sweep": "o"}


def cases(ctx):
    rng = ctx.rng
    ctx.extra_cov["representations_left_out"] = LEFT_OUT
    ctx.extra_cov["representation_families"] = {
        "names / radial text / algorithm names": STR_FAMS, "factor": REAL_FAMS, "position_grid_cartesian": FLAG_FAMS,
        "N of the generating grids, scalar row index": INT_FAMS,
        "index arrays": IDX_LIST_FAMS + ["mask", "mask_list", "slice", "range", "2d", "scalar (s_*)"],
        "full array / directions (2-D)": ARR_FAMS + INTARR_FAMS, "radii of the position helper (1-D)": T_FAMS}
    ctx.note("argument representations: every case draws a representation family for each argument it hands to the package "
             "(seed-chosen), plus a seed-independent sweep of all families over two small fixed grids; the model and the oracle "
             "use the denoted values only. Representations that raise or denote something else on the unchanged tree are "
             "left out (coverage.representations_left_out)")
    yield from sweep_cases()
    # fixed corpus: one grid of every algorithm pair with three unsorted radii, the n_b,n_o in {1,2,3} corner
    for o_alg, b_alg in itertools.product(ALG3, ALG4):
        yield grid_case(rng, o_alg, 5, b_alg, 4, 3)
    yield grid_case(rng, "ico", 1, "cube4D", 1, 1)
    yield grid_case(rng, "ico", 7, "fulldiv", 8, 2)
    for no, nb in itertools.product((1, 2, 3), (1, 2, 3)):
        yield grid_case(rng, rng.choice(ALG3), no, rng.choice(ALG4), nb, rng.randint(1, 3))
    if ctx.quick:
        for _ in range(170):
            o_alg, b_alg = rng.choice(ALG3), rng.choice(ALG4)
            nb = rng.choice([1, 2, 3, 4, 5, 6, 7, 8, 8, 9]) if b_alg == "randomQ" else rng.choice([1, 2, 3, 4, 5, 6, 7, 8])
            yield grid_case(rng, o_alg, rng.randint(1, 9), b_alg, nb, rng.randint(1, 4))
        for sp in ["negative", "zero", "dup", "dup", "zero", "negative"]:
            yield grid_case(rng, rng.choice(ALG3), rng.randint(2, 6), rng.choice(ALG4), rng.randint(2, 6), rng.randint(2, 3), sp)
        yield grid_case(rng, "ico", 5, "cube4D", 9, 2)
        k = 0
        for decade in range(-9, -1):                       # stratified: every decade of offset at every centre
            for centre in (1.0, 1.0, 0.1, 10.0):
                k += 1
                yield grid_case(rng, rng.choice(ALG3), rng.randint(1, 8), rng.choice(ALG4), rng.randint(1, 4), 1 + k % 4,
                                ("cluster", centre, decade))
        for _ in range(16):
            yield grid_case(rng, rng.choice(ALG3), rng.randint(1, 8), rng.choice(ALG4), rng.randint(1, 4), rng.randint(1, 4), "cluster")
        for _ in range(30):
            yield grid_case(rng, rng.choice(ALG3), rng.randint(1, 8), rng.choice(ALG4), rng.randint(1, 4), rng.randint(1, 4), "extreme")
        nd, npos = 150, 80
    else:
        for rep in range(2):
            for o_alg, b_alg in itertools.product(ALG3, ALG4):
                for no in range(1, 10):
                    for nb in range(1, 10):
                        yield grid_case(rng, o_alg, no, b_alg, nb, 1 + (no + nb + rep + rng.randrange(3)) % 4)
        for o_alg in ALG3:
            for no in (10, 12, 14, 20, 33, 42):
                yield grid_case(rng, o_alg, no, rng.choice(ALG4), rng.randint(2, 9), rng.randint(1, 4))
            for nb in (10, 13, 16, 24):
                yield grid_case(rng, o_alg, rng.randint(2, 9), rng.choice(ALG4), nb, rng.randint(1, 3))
            yield grid_case(rng, o_alg, rng.randint(2, 9), "fulldiv", 8, rng.randint(1, 4))
            yield grid_case(rng, o_alg, rng.randint(2, 5), "fulldiv", 40, rng.randint(1, 2))
        for sp in ["negative", "zero", "dup"] * 20:
            yield grid_case(rng, rng.choice(ALG3), rng.randint(1, 6), rng.choice(ALG4), rng.randint(1, 6), rng.randint(2, 4), sp)
        for rep in range(6):
            for decade in range(-9, -1):
                for centre in (1.0, 1.0, 0.1, 10.0):
                    yield grid_case(rng, rng.choice(ALG3), rng.randint(1, 9), rng.choice(ALG4), rng.randint(1, 6), 1 + (rep + decade) % 4,
                                    ("cluster", centre, decade))
        for _ in range(250):
            yield grid_case(rng, rng.choice(ALG3), rng.randint(1, 9), rng.choice(ALG4), rng.randint(1, 6), rng.randint(1, 4), "cluster")
        for _ in range(300):
            yield grid_case(rng, rng.choice(ALG3), rng.randint(1, 9), rng.choice(ALG4), rng.randint(1, 6), rng.randint(1, 4), "extreme")
        nd, npos = 2000, 800
    for i in range(nd):
        yield decomp_case(ctx, rng, i)
    for i in range(npos):
        yield pos_case(ctx, rng, i)


# ----------------------------------------------------------------------------------------------
# implementation
# ----------------------------------------------------------------------------------------------
def rows_out(a):
    a = np.asarray(a, dtype=float)
    return [None if np.any(np.isnan(r)) else [float(v) for v in r] for r in a]


def helper(fn, idx, fam="i64", N=0):
    try:
        with core.quiet():
            r = fn(None if idx is None else rep_idx(fam, idx, N))
        return [int(v) for v in np.asarray(r).ravel()]
    except Exception as e:
        return {"err": core.errname(e)}


_gen_rep_cache = {}


def gen_rep_agrees(dim, alg, n, nfam, afam):
    """the generating grid built through the factory with N / algorithm name in another representation is the grid built
    with plain Python arguments (None: not checked)"""
    if n == 1 or (alg == "cube4D" and n > 8) or (nfam in ("int",) and afam == "str"):
        return None
    key = (dim, alg, n, nfam, afam)
    if key not in _gen_rep_cache:
        from molgri.space.rotobj import SphereGrid3DFactory, SphereGrid4DFactory
        F = SphereGrid3DFactory if dim == 3 else SphereGrid4DFactory
        try:
            with core.quiet():
                g = np.asarray(F.create(alg_name=rep_str(afam, alg), N=rep_int(nfam, n)).get_grid_as_array(), dtype=float)
            ref = fresh_grid(dim, alg, n)
            _gen_rep_cache[key] = bool(g.shape == ref.shape and np.array_equal(g, ref))
        except Exception as e:
            _gen_rep_cache[key] = core.errname(e)
    return _gen_rep_cache[key]


def rep_o(fam, o):
    if o and isinstance(o[0], list):
        return rep_arr2(fam, np.array(o, dtype=float))
    return rep_t({"fortran": "f64"}.get(fam, fam), o)


def impl(case):
    from molgri.space.fullgrid import FullGrid, from_full_array_to_o_b_t, _t_and_o_2_positions
    try:
        with core.quiet():
            if case["kind"] == "grid":
                rep = case.get("rep") or draw_grid_rep(None, case, plain=True)
                N0 = case["nb"] * case["no"] * len(case["nm"])
                kw = dict(factor=rep_real(rep["factor"][1], rep["factor"][0]),
                          position_grid_cartesian=rep_flag(rep["cart"][1], rep["cart"][0]))
                names = (rep_str(rep["b"], case["b"]), rep_str(rep["o"], case["o"]), rep_str(rep["t"], case["t"]))
                cart_fallback = False
                try:
                    fg = FullGrid(*names, **kw)
                except Exception as e:
                    if rep["cart"][0] and core.errname(e) == "other:QhullError":
                        # Cartesian option on a degenerate direction set: qhull may refuse (allowed, C19) - not C09's business
                        kw["position_grid_cartesian"] = rep_flag(rep["cart"][1], False)
                        fg = FullGrid(*names, **kw)
                        cart_fallback = True
                    else:
                        raise
                A = fg.get_full_grid_as_array()
                out = {"shape": list(A.shape), "A": rows_out(A), "n": [int(fg.get_b_N()), int(fg.get_o_N()), int(fg.get_t_N())],
                       "len": int(len(fg)), "cart_fallback": cart_fallback,
                       "o_grid": np.asarray(fg.get_o_grid().get_grid_as_array(), dtype=float).tolist(),
                       "b_grid": np.asarray(fg.b_rotations.get_grid_as_array(), dtype=float).tolist(),
                       "radii": [float(v) for v in fg.get_radii()],
                       "qi_all": helper(fg.get_quaternion_index, None), "pi_all": helper(fg.get_position_index, None),
                       "qi": [helper(fg.get_quaternion_index, ix, f, N0) for ix, f in zip(case["idx"], rep["idx"])],
                       "pi": [helper(fg.get_position_index, ix, f, N0) for ix, f in zip(case["idx"], rep["idx"])],
                       "gen_rep": [gen_rep_agrees(3, case["o_alg"], case["no"], rep["gen"][0], rep["gen"][1]),
                                   gen_rep_agrees(4, case["b_alg"], case["nb"], rep["gen"][2], rep["gen"][3])]}
                if not np.any(np.isnan(A)):
                    A0 = A.copy()
                    A = rep_arr2(rep["arr"], A)        # 'f64': the very array the grid returned
                    with np.errstate(all="ignore"):
                        o, b, t = from_full_array_to_o_b_t(A)
                    out["dec"] = [rows_out(o), rows_out(b), [float(v) for v in t]]
                    out["norms"] = [float(v) for v in np.linalg.norm(A0[:, :3], axis=1)]
                    # history: the array handed to the decomposition is still the array, and asking again gives it again
                    out["stable"] = bool(np.array_equal(A, A0, equal_nan=True)
                                         and np.array_equal(fg.get_full_grid_as_array(), A0, equal_nan=True)
                                         and helper(fg.get_position_index, None) == out["pi_all"])
                return out
            if case["kind"] == "decomp":
                A = np.array(case["arr"], dtype=float)
                Arep = rep_arr2((case.get("rep") or {}).get("arr", "f64"), A.copy())
                o, b, t = from_full_array_to_o_b_t(Arep)
                return {"dec": [rows_out(o), rows_out(b), [float(v) for v in t]],
                        "norms": [float(v) for v in np.linalg.norm(A[:, :3], axis=1)],
                        "stable": bool(np.array_equal(np.asarray(Arep, dtype=float), A))}
            rep = case.get("rep") or {}
            r = _t_and_o_2_positions(rep_o(rep.get("o", "f64"), case["o"]), rep_t(rep.get("t", "f64"), case["t"]))
            r = np.asarray(r, dtype=float)
            return {"pos": r.tolist(), "shape": list(r.shape)}
    except Exception as e:
        return {"err": core.errname(e)}


# ----------------------------------------------------------------------------------------------
# model
# ----------------------------------------------------------------------------------------------
def R(x):
    return core.rat(x)


def Rrows(a):
    return [[R(v) for v in r] for r in a]


def near_tie(values):
    """np.round(x, 8) is rint(x*1e8)/1e8 in floats, the model rounds the exact rational: exclude inputs where some
    number is within 1e-6 of a rounding boundary (in units of 1e-8)."""
    v = np.abs(np.asarray(values, dtype=float).ravel()) * 1e8
    v = v[np.isfinite(v)]
    if v.size == 0:
        return False
    f = v - np.floor(v)
    # the float product x*1e8 carries a relative error of ~1e-16: widen the margin for large numbers
    return bool(np.any(np.abs(f - 0.5) < 1e-6 + v * 2e-15))


def decomp_ops(arr, norms):
    A = np.array(arr, dtype=float)
    n = np.array(norms, dtype=float)
    if A.size == 0 or np.any(n == 0) or not np.all(np.isfinite(A)):
        return None, "decompose_not_sent_zero_norm"
    ori = A[:, :3] / n[:, None]
    if near_tie(A[:, 3:]) or near_tie(n) or near_tie(ori):
        return None, "excluded_near_rounding_tie"
    return [{"op": "decompose", "arr": Rrows(arr), "norms": [R(v) for v in norms]}], None


def model_ops(case, out):
    k = case["kind"]
    if k == "pos":
        o = case["o"]
        if o and isinstance(o[0], list):
            return [{"op": "positions", "dirs": Rrows(o), "radii": [R(v) for v in case["t"]]}]
        return [{"op": "positions1", "o": [R(v) for v in o], "t": [R(v) for v in case["t"]]}]
    if k == "decomp":
        if "err" in out:
            return []
        ops, _ = decomp_ops(case["arr"], out["norms"])
        return ops or []
    # grid: the model gets the generating grids (fresh objects), the radial input as the parser sees it, the index arrays
    O = fresh_grid(3, case["o_alg"], case["no"])
    B = fresh_grid(4, case["b_alg"], case["nb"])
    nb, no, nt = case["nb"], case["no"], len(case["nm"])
    ops = [{"op": "full", "dirs": Rrows(O), "quats": Rrows(B), "nm": [R(v) for v in case["nm"]]},
           {"op": "qidx", "nb": nb, "no": no, "nt": nt, "idx": None},
           {"op": "pidx", "nb": nb, "no": no, "nt": nt, "idx": None}]
    for ix in case["idx"]:
        ops.append({"op": "qidx", "nb": nb, "no": no, "nt": nt, "idx": ix})
        ops.append({"op": "pidx", "nb": nb, "no": no, "nt": nt, "idx": ix})
    if "err" not in out and "dec" in out and None not in out["A"]:
        d, _ = decomp_ops(out["A"], out["norms"])
        if d:
            ops += d
    return ops


def rows_close(impl_rows, model_rows, rel):
    if len(impl_rows) != len(model_rows):
        return False
    for a, b in zip(impl_rows, model_rows):
        if (a is None) != (b is None):
            return False
        if a is None:
            continue
        if len(a) != len(b):
            return False
        for x, y in zip(a, b):
            if not core.close(x, float(core.unrat(y)), rel=rel, abs_=0.0):
                return False
    return True


def rows_equal_exact(impl_rows, model_rows):
    if len(impl_rows) != len(model_rows):
        return False
    for a, b in zip(impl_rows, model_rows):
        if a is None or len(a) != len(b):
            return False
        for x, y in zip(a, b):
            if Fraction(x) != core.unrat(y):
                return False
    return True


def compare_dec(ctx, case, dec, m):
    if "err" in m:
        ctx.corr("decompose/outcome", case, dec, m)
        return
    mo, mb, mt = m["ok"]
    if not rows_close(dec[0], mo, 1e-14):
        ctx.corr("decompose/orientations", case, dec[0], mo)
    elif not rows_equal_exact(dec[1], mb):
        ctx.corr("decompose/quaternions", case, dec[1], mb)
    elif len(dec[2]) != len(mt) or any(not core.close(x, float(core.unrat(y)), rel=1e-14, abs_=0.0) for x, y in zip(dec[2], mt)):
        ctx.corr("decompose/translations", case, dec[2], mt)


def compare(ctx, case, out, mouts):
    k = case["kind"]
    if k == "pos":
        m = mouts[0]
        if "err" in out or "err" in m:
            ctx.corr("positions/outcome", case, out, m)
            return
        if case["o"] and isinstance(case["o"][0], list):
            ok = out["shape"] == [len(m["ok"]), len(case["o"][0])] and rows_close(out["pos"], m["ok"], 1e-15)
            ctx.branch("pos_2d")
        else:
            ok = out["shape"] == [len(m["ok"])] and rows_close([out["pos"]], [m["ok"]], 1e-15)
            ctx.branch("pos_1d")
        if not ok:
            ctx.corr("positions", case, out["pos"], m["ok"])
        ctx.branch("rep_pos_o_" + (case.get("rep") or {}).get("o", "f64"))
        tf = (case.get("rep") or {}).get("t", "f64")
        tv = rep_t(tf, case["t"])           # the family falls back to float64 when the values are not representable in it
        ctx.branch("rep_pos_t_" + (tf if not (isinstance(tv, np.ndarray) and tv.dtype == np.float64 and tf in ("f32", "i64", "i32", "u16", "intlist")) else "f64"))
        ctx.nt(("pos", tuple(case["t"])))
        return
    if k == "decomp":
        if "err" in out:
            ctx.corr("decompose/raised", case, out, None)
            return
        if not mouts:
            ctx.branch(decomp_ops(case["arr"], out["norms"])[1])
            return
        compare_dec(ctx, case, out["dec"], mouts[0])
        ctx.branch("decomp_" + case["mode"])
        ctx.branch("rep_decomp_array_" + (case.get("rep") or {}).get("arr", "f64"))
        ctx.nt(("decomp", len(case["arr"]), case["arr"][0][0]))
        if len(case["arr"]) <= 6:
            ctx.sample(case, limit=3)
        return
    # grid
    full, qa, pa = mouts[0], mouts[1], mouts[2]
    ctx.branch(f"pair_{case['o_alg'] if case['no'] > 1 else 'zero3D'}_{case['b_alg'] if case['nb'] > 1 else 'zero4D'}")
    ctx.branch(f"radial_{case['tkind']}")
    ctx.branch(f"nt_{len(case['nm'])}")
    if "err" in out or "err" in full:
        if out.get("err") != full.get("err"):
            ctx.corr("full/outcome", case, out.get("err", "ok"), full.get("err", "ok"))
        ctx.branch("error_" + str(out.get("err")))
        return
    nb, no, nt = case["nb"], case["no"], len(case["nm"])
    if out["n"] != [nb, no, nt]:
        ctx.corr("sizes", case, out["n"], [nb, no, nt])
        return
    if not rows_close(out["A"], full["ok"], 1e-14):
        ctx.corr("full_array", case, {"shape": out["shape"], "first_rows": out["A"][:3]}, {"rows": len(full["ok"]), "first_rows": full["ok"][:3]})
        return
    if any(r is not None and len(r) != 7 for r in out["A"]):
        ctx.corr("row_width", case, out["shape"], 7)
    if out["qi_all"] != qa.get("ok", qa):
        ctx.corr("quaternion_index/None", case, out["qi_all"], qa)
    if out["pi_all"] != pa.get("ok", pa):
        ctx.corr("position_index/None", case, out["pi_all"], pa)
    pos = 3
    for j, ix in enumerate(case["idx"]):
        mq, mp = mouts[pos], mouts[pos + 1]
        pos += 2
        for what, iv, mv in (("quaternion_index", out["qi"][j], mq), ("position_index", out["pi"][j], mp)):
            if isinstance(iv, dict) or "err" in mv:
                if not (isinstance(iv, dict) and iv.get("err") == mv.get("err")):
                    ctx.corr(what + "/outcome", case, iv, mv)
                ctx.branch("index_error")
            elif iv != mv["ok"]:
                ctx.corr(what, case, {"idx": ix, "value": iv}, mv["ok"])
        if ix and min(ix) < 0:
            ctx.branch("negative_indices")
        if not ix:
            ctx.branch("empty_index_array")
    if "dec" in out:
        if pos < len(mouts):
            compare_dec(ctx, case, out["dec"], mouts[pos])
            ctx.branch("decompose_compared")
        else:
            ctx.branch(decomp_ops(out["A"], out["norms"])[1] or "decompose_not_sent")
    rep = case.get("rep")
    if rep:
        for a in ("b", "o", "t"):
            ctx.branch(f"rep_name_{a}_{rep[a]}")
        fv = rep_real(rep["factor"][1], rep["factor"][0])
        ctx.branch("rep_factor_" + (rep["factor"][1] if type(fv) is not float else "float"))
        ctx.branch(f"rep_cartesian_{rep['cart'][0]}_{rep['cart'][1]}")
        if out.get("cart_fallback"):
            ctx.branch("cartesian_qhull_refused_retried_spherical")
        ctx.branch(f"rep_array_{rep['arr']}")
        for f in rep["idx"]:
            ctx.branch(f"rep_idx_{f}")
        for k2, g in enumerate(out.get("gen_rep", [])):
            if g is not None:
                ctx.branch(f"rep_gen_{'N' if True else ''}{rep['gen'][2 * k2]}_alg_{rep['gen'][2 * k2 + 1]}")
    if nb * no * nt >= 2:
        ctx.nt(("grid", case["o"], case["b"], case["t"], str(case["idx"]), str(rep)))
    ctx.branch(f"rows_{'1' if nb*no*nt == 1 else '2-20' if nb*no*nt <= 20 else '21-100' if nb*no*nt <= 100 else '>100'}")
    if nb * no * nt <= 8 and nt > 1:
        ctx.sample({k2: case[k2] for k2 in ("b", "o", "t", "idx")}, limit=4)


# ----------------------------------------------------------------------------------------------
# oracle: the statement of C09 evaluated on the implementation, independently of the model
# ----------------------------------------------------------------------------------------------
def first_occurrence(rows):
    """order-preserving de-duplication under rounding to 8 decimals, done with integers"""
    seen, out = set(), []
    for r in rows:
        key = tuple(int(np.floor(abs(v) * 1e8 + 0.5)) * (1 if v >= 0 else -1) for v in r)
        if key not in seen:
            seen.add(key)
            out.append(r)
    return out


def oracle(ctx, case, out):
    k = case["kind"]
    if k == "pos":
        if "err" in out:
            ctx.fail("C09:exception", f"_t_and_o_2_positions raised {out['err']}", case)
            return
        o, t = np.array(case["o"], dtype=float), np.array(case["t"], dtype=float)
        got = np.array(out["pos"], dtype=float)
        n_o = len(o)
        exp = np.array([o[p % n_o] * t[p // n_o] for p in range(n_o * len(t))])
        if got.shape != exp.shape or not np.allclose(got, exp, rtol=1e-13, atol=0):
            ctx.fail("C09:position_order", "position p is not direction p mod n_o scaled by radius p div n_o", case, exp.tolist(), got.tolist())
        return
    if k == "decomp":
        if "err" in out:
            ctx.fail("C09:exception", f"from_full_array_to_o_b_t raised {out['err']}", case)
            return
        A = np.array(case["arr"], dtype=float)
        if not out.get("stable", True):
            ctx.fail("C09:array_not_stable", "from_full_array_to_o_b_t changed the array it was given", case)
            return
        if near_tie(A[:, 3:]):
            ctx.branch("oracle_excluded_near_tie")
            return
        exp_b = first_occurrence(A[:, 3:].tolist())
        got_b = out["dec"][1]
        if len(got_b) != len(exp_b) or any(r is None for r in got_b) or not np.array_equal(np.array(got_b), np.array(exp_b)):
            ctx.fail("C09:dedup_order", "de-duplicated quaternions are not the first occurrences in original order", case, exp_b, got_b)
            return
        nrm = np.linalg.norm(A[:, :3], axis=1)
        ori = A[:, :3] / nrm[:, None]
        if near_tie(ori) or near_tie(nrm):
            ctx.branch("oracle_excluded_near_tie")
            return
        exp_o = first_occurrence(ori.tolist())
        got_o = out["dec"][0]
        if len(got_o) != len(exp_o) or any(r is None for r in got_o) or not np.allclose(np.array(got_o), np.array(exp_o), rtol=0, atol=1e-12):
            ctx.fail("C09:dedup_order", "de-duplicated directions are not the first occurrences in original order", case, exp_o, got_o)
            return
        exp_t = sorted({int(np.floor(v * 1e8 + 0.5)) for v in nrm})
        got_t = out["dec"][2]
        if len(got_t) != len(exp_t) or not np.allclose(np.array(got_t), np.array(exp_t) / 1e8, rtol=0, atol=1e-12):
            ctx.fail("C09:dedup_radii", "radii are not the ascending distinct lengths (rounded to 8 decimals)", case, [v / 1e8 for v in exp_t], got_t)
        return
    # grid ---------------------------------------------------------------------------------------
    nm = case["nm"]
    if any(v < 0 for v in nm):
        if out.get("err") != "AssertionError":
            ctx.fail("C09:negative_radius", "a negative radius was accepted", case, "AssertionError", out.get("err", "ok"))
        return
    if "err" in out:
        ctx.fail("C09:exception", f"building or reading the full grid raised {out['err']}", case)
        return
    nb, no, nt = case["nb"], case["no"], len(nm)
    N = nb * no * nt
    O = fresh_grid(3, case["o_alg"], no)
    B = fresh_grid(4, case["b_alg"], nb)
    radii = 10.0 * np.sort(np.array(nm, dtype=float))
    if out["shape"] != [N, 7] or out["len"] != N or any(r is None for r in out["A"]):
        ctx.fail("C09:shape", f"array is not ({N}, 7) without NaN rows", case, [N, 7], out["shape"])
        return
    A = np.array(out["A"], dtype=float)
    n = np.arange(N)
    p = n // nb
    exp_pos = radii[p // no][:, None] * O[p % no]
    bad = np.where(~np.all(np.isclose(A[:, :3], exp_pos, rtol=1e-12, atol=1e-12), axis=1))[0]
    if len(bad):
        r = int(bad[0])
        ctx.fail("C09:row_position", f"row {r}: position is not direction {(r // nb) % no} at radius index {(r // nb) // no} "
                 f"(10 x nm input, ascending)", case, exp_pos[r].tolist(), A[r, :3].tolist())
        return
    bad = np.where(~np.all(A[:, 3:] == B[n % nb], axis=1))[0]
    if len(bad):
        r = int(bad[0])
        ctx.fail("C09:row_quaternion", f"row {r}: quaternion is not rotation {r % nb}", case, B[r % nb].tolist(), A[r, 3:].tolist())
        return
    if out["pi_all"] != (n // nb).tolist():
        ctx.fail("C09:position_index", "get_position_index() is not n div n_b", case, (n // nb).tolist(), out["pi_all"])
        return
    if out["qi_all"] != (n % nb).tolist():
        ctx.fail("C09:quaternion_index", "get_quaternion_index() is not n mod n_b", case, (n % nb).tolist(), out["qi_all"])
        return
    for j, ix in enumerate(case["idx"]):
        if any(i >= N or i < -N for i in ix):
            continue
        w = [i % N for i in ix]     # negative = counted from the end
        if out["pi"][j] != [i // nb for i in w]:
            ctx.fail("C09:position_index", f"get_position_index({ix}) is not n div n_b", case, [i // nb for i in w], out["pi"][j])
            return
        if out["qi"][j] != [i % nb for i in w]:
            ctx.fail("C09:quaternion_index", f"get_quaternion_index({ix}) is not n mod n_b", case, [i % nb for i in w], out["qi"][j])
            return
    if not out.get("stable", True):
        ctx.fail("C09:array_not_stable", "the array changed after decomposing it / differs when asked for again", case)
        return
    for k2, (g, what) in enumerate(zip(out.get("gen_rep", []), ("direction", "rotation"))):
        if g is not None and g is not True:
            fams = (case.get("rep") or {}).get("gen", ["?"] * 4)
            ctx.fail("C09:generating_grid_representation",
                     f"the generating {what} grid built with N as {fams[2 * k2]} and algorithm name as {fams[2 * k2 + 1]} is not the grid "
                     f"built with a Python int / str ({g})", case)
            return
    # decomposition: needs positive radii that stay distinct after rounding, and distinct directions / rotations
    if radii[0] <= 0 or (nt > 1 and np.min(np.diff(radii)) < 2e-8):
        ctx.branch("oracle_decompose_excluded_radii")
        return
    o, b, t = out["dec"]
    if len(o) != no or any(r is None for r in o) or not np.allclose(np.array(o), O, rtol=0, atol=1e-7):
        ctx.fail("C09:decompose_o", "decomposition does not return the direction grid in its original order", case, O.tolist(), o)
        return
    if len(b) != nb or any(r is None for r in b) or not np.allclose(np.array(b), B, rtol=0, atol=1e-7):
        ctx.fail("C09:decompose_b", "decomposition does not return the rotation grid in its original order", case, B.tolist(), b)
        return
    if len(t) != nt or not np.allclose(np.array(t), radii, rtol=0, atol=1e-7):
        ctx.fail("C09:decompose_t", "decomposition does not return the radii (Angstrom, ascending)", case, radii.tolist(), t)
        return
    ctx.branch("oracle_decompose_checked")
