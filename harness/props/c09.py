"""C09 - full-grid row order (molgri.space.fullgrid: _t_and_o_2_positions, FullGrid.get_full_grid_as_array,
get_position_index, get_quaternion_index, from_full_array_to_o_b_t)."""
from __future__ import annotations

import itertools
from fractions import Fraction

import numpy as np

import core

RULE = ("grid cases: every pair of direction algorithm {ico,cube3D,randomS,zero} x rotation algorithm {cube4D,randomQ,fulldiv,zero}, "
        "n_b,n_o in 1..9 (thorough: the whole 9x9 box per pair twice, plus n_o up to 42 / n_b up to 24, fulldiv_40), n_t in 1..4, radial grid as list/tuple "
        "literal (unsorted), linspace(..) or range(..), name spellings 'alg_N' / 'N_alg' / 'N' / 'zero'; per grid the two index "
        "helpers with None and with 3-4 index arrays (sorted subset, repeats in random order, negative indices, empty, "
        "out of range); rare branches: negative radius (AssertionError), zero radius, duplicate / 1e-9-close radii; radial grids clustered "
        "around 0.1 / 1 / 10 Angstrom with offsets log-uniform over 1e-9..1e-2 A (1-4 shells, gaps > 1e-7 A, incl. exactly 1.0 A), "
        "where tolerances of shared helpers can bite; extreme magnitudes (first radius 1e-9..1e-2 A before ordinary shells, "
        "radii of 1e3..1e5 A). "
        "decomp cases: synthetic N x 7 arrays for from_full_array_to_o_b_t with shuffled rows, exact duplicates and copies "
        "perturbed below the 1e-8 rounding (first occurrence must be kept, un-rounded). pos cases: _t_and_o_2_positions on "
        "random arrays, both branches. A grid case is non-trivial when n_b*n_o*n_t >= 2; distinct by (names, radii, index arrays)")
CHUNK = 40

ALG3 = ["ico", "cube3D", "randomS"]
ALG4 = ["cube4D", "randomQ"]

_fresh = {}


def fresh_grid(dim, alg, n):
    """the generating grid, built independently of any FullGrid object (cached per (dim, alg, n))"""
    key = (dim, alg, n)
    if key not in _fresh:
        from molgri.space.rotobj import SphereGrid3DFactory, SphereGrid4DFactory
        with core.quiet():
            if dim == 3:
                g = SphereGrid3DFactory.create(alg_name=alg if n > 1 else "zero3D", N=n).get_grid_as_array()
            else:
                g = SphereGrid4DFactory.create(alg_name=alg if n > 1 else "zero4D", N=n).get_grid_as_array()
        _fresh[key] = np.array(g, dtype=float)
    return _fresh[key]


# ----------------------------------------------------------------------------------------------
# generators
# ----------------------------------------------------------------------------------------------
def spell(rng, alg, n, default_alg):
    if n == 1:
        return rng.choice(["zero", "1", f"{alg}_1", "zero_1"])
    forms = [f"{alg}_{n}", f"{alg}_{n}", f"{n}_{alg}"]
    if alg == default_alg:
        forms.append(f"{n}")
    return rng.choice(forms)


def radial(rng, nt, special=None):
    """-> (t_grid_name, nm values as the parser will see them (unsorted), kind)"""
    if special == "negative":
        vals = [round(rng.uniform(0.05, 2.0), 3) for _ in range(max(nt, 1))]
        vals[rng.randrange(len(vals))] *= -1
        return repr(vals), vals, "negative"
    if special == "zero":
        vals = [0.0] + [round(rng.uniform(0.05, 2.0), 3) for _ in range(nt - 1)]
        rng.shuffle(vals)
        return repr(vals), vals, "zero_radius"
    if special == "dup":
        base = round(rng.uniform(0.05, 2.0), 3)
        vals = [base, base + rng.choice([0.0, 4e-11, 2e-10, 5e-9, 3e-8, 1e-6])] + [round(rng.uniform(2.1, 3.0), 3) for _ in range(max(nt - 2, 0))]
        rng.shuffle(vals)
        return repr(vals), vals, "close_radii"
    if special == "cluster":
        # radii whose Angstrom values cluster around 0.1 / 1 / 10 A, where tolerances of shared helpers (np.allclose,
        # np.isclose, rounding) can bite: offsets log-uniform over 1e-9 .. 1e-2 A, both signs, mutual gaps > 1e-7 A so that
        # the decomposition stays defined; sometimes the exact centre is one of the shells or the only shell
        import math
        centre = rng.choice([1.0, 1.0, 1.0, 0.1, 10.0])
        if rng.random() < 0.12:
            ang = [centre]
        else:
            ang = [centre] if rng.random() < 0.35 else []
            while len(ang) < max(nt, 1):
                off = 10 ** rng.uniform(-9, -2) * rng.choice([1, 1, -1])
                v = centre + off
                if all(abs(v - w) > 1.5e-7 for w in ang):
                    ang.append(v)
        vals = [a / 10.0 for a in ang]
        rng.shuffle(vals)
        return repr(vals), vals, "cluster"
    if special == "extreme":
        # extreme but valid magnitudes: a first radius log-uniform over 1e-9 .. 1e-2 A followed by ordinary shells, or very
        # large radii (1e3 .. 1e5 A); mutual gaps far above 1e-7 A
        if rng.random() < 0.65:
            ang = [10 ** rng.uniform(-9, -2)] + sorted(round(rng.uniform(0.5, 30.0), 2) + 0.5 * k for k in range(max(nt - 1, 0)))
        else:
            ang = sorted(10 ** rng.uniform(3, 5) for _ in range(max(nt, 1)))
            ang = [a + 1.0 * k for k, a in enumerate(ang)]
            if rng.random() < 0.4:
                ang[0] = round(rng.uniform(0.5, 30.0), 2)
        vals = [a / 10.0 for a in ang]
        rng.shuffle(vals)
        return repr(vals), vals, "extreme"
    form = rng.choice(["list", "list", "list", "tuple", "linspace", "range", "rawfloat"])
    if form == "linspace" and nt >= 2:
        a = round(rng.uniform(0.05, 1.0), 2)
        b = round(a + rng.uniform(0.1, 2.0), 2)
        if rng.random() < 0.3:
            a, b = b, a      # descending parameters (F9)
        return f"linspace({a}, {b}, {nt})", [float(v) for v in np.linspace(a, b, nt, dtype=float)], "linspace"
    if form == "range" and nt >= 2:
        a = round(rng.uniform(0.05, 1.0), 2)
        step = round(rng.uniform(0.05, 0.6), 2)
        stop = round(a + (nt - 0.5) * step, 4)
        vals = [float(v) for v in np.arange(a, stop, step, dtype=float)]
        if len(vals) == nt:
            return f"range({a}, {stop}, {step})", vals, "range"
    if form == "rawfloat":
        vals = sorted(rng.uniform(0.03, 3.0) for _ in range(nt))
        # keep them apart so that the radial grid is recoverable
        vals = [v + 0.01 * i for i, v in enumerate(vals)]
    else:
        vals = sorted(rng.sample(range(5, 400), nt))
        vals = [v / 100 for v in vals]
    rng.shuffle(vals)
    if nt == 1 and rng.random() < 0.5:
        return rng.choice([f"{vals[0]!r}", f"({vals[0]!r},)", f"linspace({vals[0]!r}, {vals[0] + 1!r}, 1)"]), vals, "single"
    s = repr(vals) if form != "tuple" or nt < 2 else repr(tuple(vals))
    return s, vals, "list" if form != "tuple" else "tuple"


def index_arrays(rng, N):
    out = []
    if N == 0:
        return [[]]
    k = rng.randint(1, min(N, 12))
    out.append(sorted(rng.sample(range(N), k)))
    out.append([rng.randrange(N) for _ in range(rng.randint(1, 15))])
    out.append([rng.randrange(-N, N) for _ in range(rng.randint(1, 10))])
    r = rng.random()
    if r < 0.15:
        out.append([])
    elif r < 0.3:
        out.append([rng.randrange(N), rng.choice([N, -N - 1, N + 3])])
    elif r < 0.45:
        out.append([N - 1, -N, 0, -1])
    return out


def grid_case(rng, o_alg, no, b_alg, nb, nt, special=None):
    t, nm, tk = radial(rng, nt, special)
    N = nb * no * len(nm)
    return {"kind": "grid", "o_alg": o_alg, "no": no, "b_alg": b_alg, "nb": nb,
            "o": spell(rng, o_alg, no, "ico"), "b": spell(rng, b_alg, nb, "cube4D"),
            "t": t, "nm": nm, "tkind": tk, "idx": index_arrays(rng, N)}


def unit(v):
    v = np.asarray(v, dtype=float)
    return v / np.linalg.norm(v)


def decomp_case(ctx, rng, i):
    g = ctx.nprng(f"decomp{i}")
    n_o, n_b, n_t = rng.randint(1, 5), rng.randint(1, 5), rng.randint(1, 3)
    dirs = [unit(g.normal(size=3)) for _ in range(n_o)]
    quats = [np.round(unit(g.normal(size=4)), 8) for _ in range(n_b)]   # on the 1e-8 lattice: perturbations stay in the cell
    # close but distinct rows: they differ in the 8th decimal or earlier, so they must NOT be merged
    if rng.random() < 0.5:
        e = np.zeros(3)
        e[rng.randrange(3)] = rng.choice([4e-8, 1e-6, 1e-4, 3e-3])
        dirs.append(unit(dirs[rng.randrange(len(dirs))] + e))
    if rng.random() < 0.5:
        e = np.zeros(4)
        e[rng.randrange(4)] = rng.choice([3e-8, 1e-6, 1e-4, 2e-3])
        quats.append(quats[rng.randrange(len(quats))] + e)
    radii = sorted(round(rng.uniform(0.5, 9.0), 3) for _ in range(n_t))
    radii = [r + 0.25 * k for k, r in enumerate(radii)]
    rows = []
    for r in radii:
        for d in dirs:
            for q in quats:
                if rng.random() < 0.85:
                    qq = np.array(q)
                    if rng.random() < 0.4:
                        qq = qq + g.choice([-2e-9, 1e-9, 2e-9], size=4)   # same key after rounding, different floats
                    rows.append(list(r * d) + list(qq))
    if not rows:
        rows.append(list(radii[0] * dirs[0]) + list(quats[0]))
    mode = rng.choice(["asis", "shuffle", "reverse", "dupes"])
    if mode == "shuffle":
        rng.shuffle(rows)
    elif mode == "reverse":
        rows.reverse()
    elif mode == "dupes":
        rows = rows + [list(r) for r in rng.choices(rows, k=rng.randint(1, 6))]
        rng.shuffle(rows)
    return {"kind": "decomp", "arr": [[float(v) for v in r] for r in rows], "mode": mode}


def pos_case(ctx, rng, i):
    g = ctx.nprng(f"pos{i}")
    n_o, n_t = rng.randint(1, 7), rng.randint(1, 5)
    if rng.random() < 0.7:
        o = g.normal(size=(n_o, rng.choice([3, 3, 4, 2]))).tolist()
    else:
        o = g.normal(size=n_o).tolist()
    t = g.uniform(0.1, 30, size=n_t).tolist()
    return {"kind": "pos", "o": o, "t": t}


def cases(ctx):
    rng = ctx.rng
    # fixed corpus: one grid of every algorithm pair with three unsorted radii, the n_b,n_o in {1,2,3} corner
    for o_alg, b_alg in itertools.product(ALG3, ALG4):
        yield grid_case(rng, o_alg, 5, b_alg, 4, 3)
    yield grid_case(rng, "ico", 1, "cube4D", 1, 1)
    yield grid_case(rng, "ico", 7, "fulldiv", 8, 2)
    for no, nb in itertools.product((1, 2, 3), (1, 2, 3)):
        yield grid_case(rng, rng.choice(ALG3), no, rng.choice(ALG4), nb, rng.randint(1, 3))
    if ctx.quick:
        for _ in range(170):
            o_alg, b_alg = rng.choice(ALG3), rng.choice(ALG4)
            nb = rng.choice([1, 2, 3, 4, 5, 6, 7, 8, 8, 9]) if b_alg == "randomQ" else rng.choice([1, 2, 3, 4, 5, 6, 7, 8])
            yield grid_case(rng, o_alg, rng.randint(1, 9), b_alg, nb, rng.randint(1, 4))
        for sp in ["negative", "zero", "dup", "dup", "zero", "negative"]:
            yield grid_case(rng, rng.choice(ALG3), rng.randint(2, 6), rng.choice(ALG4), rng.randint(2, 6), rng.randint(2, 3), sp)
        yield grid_case(rng, "ico", 5, "cube4D", 9, 2)
        for _ in range(40):
            yield grid_case(rng, rng.choice(ALG3), rng.randint(1, 8), rng.choice(ALG4), rng.randint(1, 4), rng.randint(1, 4), "cluster")
        for _ in range(30):
            yield grid_case(rng, rng.choice(ALG3), rng.randint(1, 8), rng.choice(ALG4), rng.randint(1, 4), rng.randint(1, 4), "extreme")
        nd, npos = 150, 80
    else:
        for rep in range(2):
            for o_alg, b_alg in itertools.product(ALG3, ALG4):
                for no in range(1, 10):
                    for nb in range(1, 10):
                        yield grid_case(rng, o_alg, no, b_alg, nb, 1 + (no + nb + rep + rng.randrange(3)) % 4)
        for o_alg in ALG3:
            for no in (10, 12, 14, 20, 33, 42):
                yield grid_case(rng, o_alg, no, rng.choice(ALG4), rng.randint(2, 9), rng.randint(1, 4))
            for nb in (10, 13, 16, 24):
                yield grid_case(rng, o_alg, rng.randint(2, 9), rng.choice(ALG4), nb, rng.randint(1, 3))
            yield grid_case(rng, o_alg, rng.randint(2, 9), "fulldiv", 8, rng.randint(1, 4))
            yield grid_case(rng, o_alg, rng.randint(2, 5), "fulldiv", 40, rng.randint(1, 2))
        for sp in ["negative", "zero", "dup"] * 20:
            yield grid_case(rng, rng.choice(ALG3), rng.randint(1, 6), rng.choice(ALG4), rng.randint(1, 6), rng.randint(2, 4), sp)
        for _ in range(400):
            yield grid_case(rng, rng.choice(ALG3), rng.randint(1, 9), rng.choice(ALG4), rng.randint(1, 6), rng.randint(1, 4), "cluster")
        for _ in range(300):
            yield grid_case(rng, rng.choice(ALG3), rng.randint(1, 9), rng.choice(ALG4), rng.randint(1, 6), rng.randint(1, 4), "extreme")
        nd, npos = 2000, 800
    for i in range(nd):
        yield decomp_case(ctx, rng, i)
    for i in range(npos):
        yield pos_case(ctx, rng, i)


# ----------------------------------------------------------------------------------------------
# implementation
# ----------------------------------------------------------------------------------------------
def rows_out(a):
    a = np.asarray(a, dtype=float)
    return [None if np.any(np.isnan(r)) else [float(v) for v in r] for r in a]


def helper(fn, idx):
    try:
        with core.quiet():
            r = fn(None if idx is None else np.array(idx, dtype=int))
        return [int(v) for v in np.asarray(r).ravel()]
    except Exception as e:
        return {"err": core.errname(e)}


def impl(case):
    from molgri.space.fullgrid import FullGrid, from_full_array_to_o_b_t, _t_and_o_2_positions
    try:
        with core.quiet():
            if case["kind"] == "grid":
                fg = FullGrid(case["b"], case["o"], case["t"])
                A = fg.get_full_grid_as_array()
                out = {"shape": list(A.shape), "A": rows_out(A), "n": [int(fg.get_b_N()), int(fg.get_o_N()), int(fg.get_t_N())],
                       "len": int(len(fg)),
                       "o_grid": np.asarray(fg.get_o_grid().get_grid_as_array(), dtype=float).tolist(),
                       "b_grid": np.asarray(fg.b_rotations.get_grid_as_array(), dtype=float).tolist(),
                       "radii": [float(v) for v in fg.get_radii()],
                       "qi_all": helper(fg.get_quaternion_index, None), "pi_all": helper(fg.get_position_index, None),
                       "qi": [helper(fg.get_quaternion_index, ix) for ix in case["idx"]],
                       "pi": [helper(fg.get_position_index, ix) for ix in case["idx"]]}
                if not np.any(np.isnan(A)):
                    A0 = A.copy()
                    with np.errstate(all="ignore"):
                        o, b, t = from_full_array_to_o_b_t(A)
                    out["dec"] = [rows_out(o), rows_out(b), [float(v) for v in t]]
                    out["norms"] = [float(v) for v in np.linalg.norm(A0[:, :3], axis=1)]
                    # history: the array handed to the decomposition is still the array, and asking again gives it again
                    out["stable"] = bool(np.array_equal(A, A0, equal_nan=True)
                                         and np.array_equal(fg.get_full_grid_as_array(), A0, equal_nan=True)
                                         and helper(fg.get_position_index, None) == out["pi_all"])
                return out
            if case["kind"] == "decomp":
                A = np.array(case["arr"], dtype=float)
                o, b, t = from_full_array_to_o_b_t(A)
                return {"dec": [rows_out(o), rows_out(b), [float(v) for v in t]],
                        "norms": [float(v) for v in np.linalg.norm(A[:, :3], axis=1)]}
            r = _t_and_o_2_positions(np.array(case["o"], dtype=float), np.array(case["t"], dtype=float))
            r = np.asarray(r, dtype=float)
            return {"pos": r.tolist(), "shape": list(r.shape)}
    except Exception as e:
        return {"err": core.errname(e)}


# ----------------------------------------------------------------------------------------------
# model
# ----------------------------------------------------------------------------------------------
def R(x):
    return core.rat(x)


def Rrows(a):
    return [[R(v) for v in r] for r in a]


def near_tie(values):
    """np.round(x, 8) is rint(x*1e8)/1e8 in floats, the model rounds the exact rational: exclude inputs where some
    number is within 1e-6 of a rounding boundary (in units of 1e-8)."""
    v = np.abs(np.asarray(values, dtype=float).ravel()) * 1e8
    v = v[np.isfinite(v)]
    if v.size == 0:
        return False
    f = v - np.floor(v)
    # the float product x*1e8 carries a relative error of ~1e-16: widen the margin for large numbers
    return bool(np.any(np.abs(f - 0.5) < 1e-6 + v * 2e-15))


def decomp_ops(arr, norms):
    A = np.array(arr, dtype=float)
    n = np.array(norms, dtype=float)
    if A.size == 0 or np.any(n == 0) or not np.all(np.isfinite(A)):
        return None, "decompose_not_sent_zero_norm"
    ori = A[:, :3] / n[:, None]
    if near_tie(A[:, 3:]) or near_tie(n) or near_tie(ori):
        return None, "excluded_near_rounding_tie"
    return [{"op": "decompose", "arr": Rrows(arr), "norms": [R(v) for v in norms]}], None


def model_ops(case, out):
    k = case["kind"]
    if k == "pos":
        o = case["o"]
        if o and isinstance(o[0], list):
            return [{"op": "positions", "dirs": Rrows(o), "radii": [R(v) for v in case["t"]]}]
        return [{"op": "positions1", "o": [R(v) for v in o], "t": [R(v) for v in case["t"]]}]
    if k == "decomp":
        if "err" in out:
            return []
        ops, _ = decomp_ops(case["arr"], out["norms"])
        return ops or []
    # grid: the model gets the generating grids (fresh objects), the radial input as the parser sees it, the index arrays
    O = fresh_grid(3, case["o_alg"], case["no"])
    B = fresh_grid(4, case["b_alg"], case["nb"])
    nb, no, nt = case["nb"], case["no"], len(case["nm"])
    ops = [{"op": "full", "dirs": Rrows(O), "quats": Rrows(B), "nm": [R(v) for v in case["nm"]]},
           {"op": "qidx", "nb": nb, "no": no, "nt": nt, "idx": None},
           {"op": "pidx", "nb": nb, "no": no, "nt": nt, "idx": None}]
    for ix in case["idx"]:
        ops.append({"op": "qidx", "nb": nb, "no": no, "nt": nt, "idx": ix})
        ops.append({"op": "pidx", "nb": nb, "no": no, "nt": nt, "idx": ix})
    if "err" not in out and "dec" in out and None not in out["A"]:
        d, _ = decomp_ops(out["A"], out["norms"])
        if d:
            ops += d
    return ops


def rows_close(impl_rows, model_rows, rel):
    if len(impl_rows) != len(model_rows):
        return False
    for a, b in zip(impl_rows, model_rows):
        if (a is None) != (b is None):
            return False
        if a is None:
            continue
        if len(a) != len(b):
            return False
        for x, y in zip(a, b):
            if not core.close(x, float(core.unrat(y)), rel=rel, abs_=0.0):
                return False
    return True


def rows_equal_exact(impl_rows, model_rows):
    if len(impl_rows) != len(model_rows):
        return False
    for a, b in zip(impl_rows, model_rows):
        if a is None or len(a) != len(b):
            return False
        for x, y in zip(a, b):
            if Fraction(x) != core.unrat(y):
                return False
    return True


def compare_dec(ctx, case, dec, m):
    if "err" in m:
        ctx.corr("decompose/outcome", case, dec, m)
        return
    mo, mb, mt = m["ok"]
    if not rows_close(dec[0], mo, 1e-14):
        ctx.corr("decompose/orientations", case, dec[0], mo)
    elif not rows_equal_exact(dec[1], mb):
        ctx.corr("decompose/quaternions", case, dec[1], mb)
    elif len(dec[2]) != len(mt) or any(not core.close(x, float(core.unrat(y)), rel=1e-14, abs_=0.0) for x, y in zip(dec[2], mt)):
        ctx.corr("decompose/translations", case, dec[2], mt)


def compare(ctx, case, out, mouts):
    k = case["kind"]
    if k == "pos":
        m = mouts[0]
        if "err" in out or "err" in m:
            ctx.corr("positions/outcome", case, out, m)
            return
        if case["o"] and isinstance(case["o"][0], list):
            ok = out["shape"] == [len(m["ok"]), len(case["o"][0])] and rows_close(out["pos"], m["ok"], 1e-15)
            ctx.branch("pos_2d")
        else:
            ok = out["shape"] == [len(m["ok"])] and rows_close([out["pos"]], [m["ok"]], 1e-15)
            ctx.branch("pos_1d")
        if not ok:
            ctx.corr("positions", case, out["pos"], m["ok"])
        ctx.nt(("pos", tuple(case["t"])))
        return
    if k == "decomp":
        if "err" in out:
            ctx.corr("decompose/raised", case, out, None)
            return
        if not mouts:
            ctx.branch(decomp_ops(case["arr"], out["norms"])[1])
            return
        compare_dec(ctx, case, out["dec"], mouts[0])
        ctx.branch("decomp_" + case["mode"])
        ctx.nt(("decomp", len(case["arr"]), case["arr"][0][0]))
        if len(case["arr"]) <= 6:
            ctx.sample(case, limit=3)
        return
    # grid
    full, qa, pa = mouts[0], mouts[1], mouts[2]
    ctx.branch(f"pair_{case['o_alg'] if case['no'] > 1 else 'zero3D'}_{case['b_alg'] if case['nb'] > 1 else 'zero4D'}")
    ctx.branch(f"radial_{case['tkind']}")
    ctx.branch(f"nt_{len(case['nm'])}")
    if "err" in out or "err" in full:
        if out.get("err") != full.get("err"):
            ctx.corr("full/outcome", case, out.get("err", "ok"), full.get("err", "ok"))
        ctx.branch("error_" + str(out.get("err")))
        return
    nb, no, nt = case["nb"], case["no"], len(case["nm"])
    if out["n"] != [nb, no, nt]:
        ctx.corr("sizes", case, out["n"], [nb, no, nt])
        return
    if not rows_close(out["A"], full["ok"], 1e-14):
        ctx.corr("full_array", case, {"shape": out["shape"], "first_rows": out["A"][:3]}, {"rows": len(full["ok"]), "first_rows": full["ok"][:3]})
        return
    if any(r is not None and len(r) != 7 for r in out["A"]):
        ctx.corr("row_width", case, out["shape"], 7)
    if out["qi_all"] != qa.get("ok", qa):
        ctx.corr("quaternion_index/None", case, out["qi_all"], qa)
    if out["pi_all"] != pa.get("ok", pa):
        ctx.corr("position_index/None", case, out["pi_all"], pa)
    pos = 3
    for j, ix in enumerate(case["idx"]):
        mq, mp = mouts[pos], mouts[pos + 1]
        pos += 2
        for what, iv, mv in (("quaternion_index", out["qi"][j], mq), ("position_index", out["pi"][j], mp)):
            if isinstance(iv, dict) or "err" in mv:
                if not (isinstance(iv, dict) and iv.get("err") == mv.get("err")):
                    ctx.corr(what + "/outcome", case, iv, mv)
                ctx.branch("index_error")
            elif iv != mv["ok"]:
                ctx.corr(what, case, {"idx": ix, "value": iv}, mv["ok"])
        if ix and min(ix) < 0:
            ctx.branch("negative_indices")
        if not ix:
            ctx.branch("empty_index_array")
    if "dec" in out:
        if pos < len(mouts):
            compare_dec(ctx, case, out["dec"], mouts[pos])
            ctx.branch("decompose_compared")
        else:
            ctx.branch(decomp_ops(out["A"], out["norms"])[1] or "decompose_not_sent")
    if nb * no * nt >= 2:
        ctx.nt(("grid", case["o"], case["b"], case["t"], str(case["idx"])))
    ctx.branch(f"rows_{'1' if nb*no*nt == 1 else '2-20' if nb*no*nt <= 20 else '21-100' if nb*no*nt <= 100 else '>100'}")
    if nb * no * nt <= 8 and nt > 1:
        ctx.sample({k2: case[k2] for k2 in ("b", "o", "t", "idx")}, limit=4)


# ----------------------------------------------------------------------------------------------
# oracle: the statement of C09 evaluated on the implementation, independently of the model
# ----------------------------------------------------------------------------------------------
def first_occurrence(rows):
    """order-preserving de-duplication under rounding to 8 decimals, done with integers"""
    seen, out = set(), []
    for r in rows:
        key = tuple(int(np.floor(abs(v) * 1e8 + 0.5)) * (1 if v >= 0 else -1) for v in r)
        if key not in seen:
            seen.add(key)
            out.append(r)
    return out


def oracle(ctx, case, out):
    k = case["kind"]
    if k == "pos":
        if "err" in out:
            ctx.fail("C09:exception", f"_t_and_o_2_positions raised {out['err']}", case)
            return
        o, t = np.array(case["o"], dtype=float), np.array(case["t"], dtype=float)
        got = np.array(out["pos"], dtype=float)
        n_o = len(o)
        exp = np.array([o[p % n_o] * t[p // n_o] for p in range(n_o * len(t))])
        if got.shape != exp.shape or not np.allclose(got, exp, rtol=1e-13, atol=0):
            ctx.fail("C09:position_order", "position p is not direction p mod n_o scaled by radius p div n_o", case, exp.tolist(), got.tolist())
        return
    if k == "decomp":
        if "err" in out:
            ctx.fail("C09:exception", f"from_full_array_to_o_b_t raised {out['err']}", case)
            return
        A = np.array(case["arr"], dtype=float)
        if near_tie(A[:, 3:]):
            ctx.branch("oracle_excluded_near_tie")
            return
        exp_b = first_occurrence(A[:, 3:].tolist())
        got_b = out["dec"][1]
        if len(got_b) != len(exp_b) or any(r is None for r in got_b) or not np.array_equal(np.array(got_b), np.array(exp_b)):
            ctx.fail("C09:dedup_order", "de-duplicated quaternions are not the first occurrences in original order", case, exp_b, got_b)
            return
        nrm = np.linalg.norm(A[:, :3], axis=1)
        ori = A[:, :3] / nrm[:, None]
        if near_tie(ori) or near_tie(nrm):
            ctx.branch("oracle_excluded_near_tie")
            return
        exp_o = first_occurrence(ori.tolist())
        got_o = out["dec"][0]
        if len(got_o) != len(exp_o) or any(r is None for r in got_o) or not np.allclose(np.array(got_o), np.array(exp_o), rtol=0, atol=1e-12):
            ctx.fail("C09:dedup_order", "de-duplicated directions are not the first occurrences in original order", case, exp_o, got_o)
            return
        exp_t = sorted({int(np.floor(v * 1e8 + 0.5)) for v in nrm})
        got_t = out["dec"][2]
        if len(got_t) != len(exp_t) or not np.allclose(np.array(got_t), np.array(exp_t) / 1e8, rtol=0, atol=1e-12):
            ctx.fail("C09:dedup_radii", "radii are not the ascending distinct lengths (rounded to 8 decimals)", case, [v / 1e8 for v in exp_t], got_t)
        return
    # grid ---------------------------------------------------------------------------------------
    nm = case["nm"]
    if any(v < 0 for v in nm):
        if out.get("err") != "AssertionError":
            ctx.fail("C09:negative_radius", "a negative radius was accepted", case, "AssertionError", out.get("err", "ok"))
        return
    if "err" in out:
        ctx.fail("C09:exception", f"building or reading the full grid raised {out['err']}", case)
        return
    nb, no, nt = case["nb"], case["no"], len(nm)
    N = nb * no * nt
    O = fresh_grid(3, case["o_alg"], no)
    B = fresh_grid(4, case["b_alg"], nb)
    radii = 10.0 * np.sort(np.array(nm, dtype=float))
    if out["shape"] != [N, 7] or out["len"] != N or any(r is None for r in out["A"]):
        ctx.fail("C09:shape", f"array is not ({N}, 7) without NaN rows", case, [N, 7], out["shape"])
        return
    A = np.array(out["A"], dtype=float)
    n = np.arange(N)
    p = n // nb
    exp_pos = radii[p // no][:, None] * O[p % no]
    bad = np.where(~np.all(np.isclose(A[:, :3], exp_pos, rtol=1e-12, atol=1e-12), axis=1))[0]
    if len(bad):
        r = int(bad[0])
        ctx.fail("C09:row_position", f"row {r}: position is not direction {(r // nb) % no} at radius index {(r // nb) // no} "
                 f"(10 x nm input, ascending)", case, exp_pos[r].tolist(), A[r, :3].tolist())
        return
    bad = np.where(~np.all(A[:, 3:] == B[n % nb], axis=1))[0]
    if len(bad):
        r = int(bad[0])
        ctx.fail("C09:row_quaternion", f"row {r}: quaternion is not rotation {r % nb}", case, B[r % nb].tolist(), A[r, 3:].tolist())
        return
    if out["pi_all"] != (n // nb).tolist():
        ctx.fail("C09:position_index", "get_position_index() is not n div n_b", case, (n // nb).tolist(), out["pi_all"])
        return
    if out["qi_all"] != (n % nb).tolist():
        ctx.fail("C09:quaternion_index", "get_quaternion_index() is not n mod n_b", case, (n % nb).tolist(), out["qi_all"])
        return
    for j, ix in enumerate(case["idx"]):
        if any(i >= N or i < -N for i in ix):
            continue
        w = [i % N for i in ix]     # negative = counted from the end
        if out["pi"][j] != [i // nb for i in w]:
            ctx.fail("C09:position_index", f"get_position_index({ix}) is not n div n_b", case, [i // nb for i in w], out["pi"][j])
            return
        if out["qi"][j] != [i % nb for i in w]:
            ctx.fail("C09:quaternion_index", f"get_quaternion_index({ix}) is not n mod n_b", case, [i % nb for i in w], out["qi"][j])
            return
    if not out.get("stable", True):
        ctx.fail("C09:array_not_stable", "the array changed after decomposing it / differs when asked for again", case)
        return
    # decomposition: needs positive radii that stay distinct after rounding, and distinct directions / rotations
    if radii[0] <= 0 or (nt > 1 and np.min(np.diff(radii)) < 2e-8):
        ctx.branch("oracle_decompose_excluded_radii")
        return
    o, b, t = out["dec"]
    if len(o) != no or any(r is None for r in o) or not np.allclose(np.array(o), O, rtol=0, atol=1e-7):
        ctx.fail("C09:decompose_o", "decomposition does not return the direction grid in its original order", case, O.tolist(), o)
        return
    if len(b) != nb or any(r is None for r in b) or not np.allclose(np.array(b), B, rtol=0, atol=1e-7):
        ctx.fail("C09:decompose_b", "decomposition does not return the rotation grid in its original order", case, B.tolist(), b)
        return
    if len(t) != nt or not np.allclose(np.array(t), radii, rtol=0, atol=1e-7):
        ctx.fail("C09:decompose_t", "decomposition does not return the radii (Angstrom, ascending)", case, radii.tolist(), t)
        return
    ctx.branch("oracle_decompose_checked")
