"""C10 - pseudotrajectory frame k is the rigid placement prescribed by grid row k
(molgri.molecules.pts.Pseudotrajectory, molgri.io.OneMoleculeReader / TwoMoleculeWriter / PtWriter)."""
from __future__ import annotations

import hashlib
import json
import math
import os
import shutil
import tempfile

import numpy as np

import core

RULE = ("molecules (1-12 atoms: single atom, diatomic, linear, planar, regular, random 3-D, coincident atoms, massless "
        "dummy atoms; elements of different mass; written as .xyz or .gro at a random offset and read back through "
        "OneMoleculeReader) x grid arrays (1-40 rows; unit, non-unit, negative-scalar, 180-degree, near-identity and "
        "identity quaternions; arbitrary positions; real FullGrid arrays; zero-quaternion / wrong-width / empty arrays "
        "for the error clauses) x call pattern (get_pt_as_universe, twice; generator run twice on one object; two "
        "pseudotrajectories from the same reader objects; PtWriter through a saved grid file; reader with and without "
        "centring). A case is non-trivial when some row has a non-identity rotation and molecule 2 has an atom away from "
        "its centre of mass; distinct by the full case content")
CHUNK = 40

TOL = 2e-4          # MDAnalysis keeps float32 coordinates
TOL_STATIC = 2e-5   # molecule 1 is never moved (PtWriter re-centres it: |shift| ~ 1e-7)
FIX = float(2 ** 40)

ELEMENTS = ["H", "C", "N", "O", "S", "P", "F", "Cl", "Na", "Br", "Fe"]
GRO_NAMES = ["OW", "HW1", "HW2", "CA", "CB", "N", "H1", "O1", "SG", "P", "CL", "NA"]
DUMMY = {"xyz": "Xx", "gro": "MW"}


# ----------------------------------------------------------------------------------------------
# molecule files
# ----------------------------------------------------------------------------------------------
def write_mol(path_noext, mol):
    """mol = {"fmt": "xyz"|"gro", "atoms": [[label, x, y, z], ...]} (coordinates in Angstrom, already rounded to what the
    format keeps: 5 decimals for xyz, 0.01 A for gro)"""
    if mol["fmt"] == "xyz":
        p = path_noext + ".xyz"
        with open(p, "w") as f:
            f.write(f"{len(mol['atoms'])}\ncomment\n")
            for nm, x, y, z in mol["atoms"]:
                f.write(f"{nm} {x:.5f} {y:.5f} {z:.5f}\n")
    else:
        p = path_noext + ".gro"
        with open(p, "w") as f:
            f.write("molecule\n%5d\n" % len(mol["atoms"]))
            for i, (nm, x, y, z) in enumerate(mol["atoms"]):
                f.write("%5d%-5s%5s%5d%8.3f%8.3f%8.3f\n" % (1, "MOL", nm, i + 1, x / 10, y / 10, z / 10))
            f.write("%10.5f%10.5f%10.5f\n" % (30.0, 30.0, 30.0))
    return p


def raw_atoms(path):
    """what MDAnalysis parsed from the file, before the reader's centring: the model's input"""
    import MDAnalysis as mda
    u = mda.Universe(path)
    pos = u.atoms.positions
    return [[str(n), str(t), float(m), float(p[0]), float(p[1]), float(p[2])]
            for n, t, m, p in zip(u.atoms.names, u.atoms.types, u.atoms.masses, pos)]


def _frames(u):
    return [u.atoms.positions.astype(float).tolist() for _ts in u.trajectory]


def _topo(u):
    return {"names": [str(x) for x in u.atoms.names], "types": [str(x) for x in u.atoms.types],
            "masses": [float(x) for x in u.atoms.masses]}


# ----------------------------------------------------------------------------------------------
# generators
# ----------------------------------------------------------------------------------------------
def _round_for(fmt, v):
    return round(float(v), 5) if fmt == "xyz" else round(float(v), 2)


def gen_molecule(rng, shape=None, fmt=None, n=None):
    fmt = fmt or rng.choice(["xyz", "xyz", "gro"])
    shape = shape or rng.choice(["single", "diatomic", "linear", "planar", "random", "random", "random", "tetra", "ring",
                                 "coincident", "dummy", "homonuclear"])
    labels = ELEMENTS if fmt == "xyz" else GRO_NAMES
    if shape == "single":
        X = [[0.0, 0.0, 0.0]]
    elif shape == "diatomic":
        X = [[0, 0, 0], [rng.uniform(0.7, 2.5), 0, 0]]
    elif shape == "linear":
        n = n or rng.randint(3, 6)
        d = np.array([rng.gauss(0, 1) for _ in range(3)])
        d /= np.linalg.norm(d)
        X = [list(d * s) for s in sorted(rng.uniform(-4, 4) for _ in range(n))]
    elif shape == "planar":
        n = n or rng.randint(3, 10)
        a, b = np.linalg.qr(np.array([[rng.gauss(0, 1) for _ in range(3)] for _ in range(3)]))[0][:2]
        X = [list(rng.gauss(0, 1.5) * a + rng.gauss(0, 1.5) * b) for _ in range(n)]
    elif shape == "tetra":
        X = [[0, 0, 0], [0.63, 0.63, 0.63], [-0.63, -0.63, 0.63], [-0.63, 0.63, -0.63], [0.63, -0.63, -0.63]]
    elif shape == "ring":
        X = [[1.39 * math.cos(k * math.pi / 3), 1.39 * math.sin(k * math.pi / 3), 0.0] for k in range(6)]
        X += [[2.48 * math.cos(k * math.pi / 3), 2.48 * math.sin(k * math.pi / 3), 0.0] for k in range(6)]
    else:
        n = n or rng.randint(2, 12)
        X = [[rng.gauss(0, 1.6) for _ in range(3)] for _ in range(n)]
    n = len(X)
    if shape == "tetra":
        names = [labels[1]] + [labels[0]] * 4 if fmt == "xyz" else ["CA", "H1", "H1", "H1", "H1"]
    elif shape == "ring":
        names = ["C"] * 6 + ["H"] * 6 if fmt == "xyz" else ["CA"] * 6 + ["H1"] * 6
    elif shape == "homonuclear":
        names = [rng.choice(labels)] * n
    else:
        names = [rng.choice(labels) for _ in range(n)]
    if shape == "coincident" and n >= 2:
        X[-1] = list(X[0])
    if shape == "dummy" and n >= 2:
        names[rng.randrange(1, n)] = DUMMY[fmt]      # mass 0: placed like any atom, ignored by the centre of mass
    # a rotation of the whole thing and an offset: the files are not centred
    A = np.linalg.qr(np.array([[rng.gauss(0, 1) for _ in range(3)] for _ in range(3)]))[0]
    off = np.array([rng.uniform(-25, 25) for _ in range(3)]) if rng.random() < 0.8 else np.zeros(3)
    if fmt == "gro":
        off = np.clip(off, -25, 25)
    Y = (np.array(X, dtype=float) @ A.T) + off
    atoms = [[nm] + [_round_for(fmt, v) for v in y] for nm, y in zip(names, Y)]
    return {"fmt": fmt, "shape": shape, "atoms": atoms}


def _unit(rng):
    q = np.array([rng.gauss(0, 1) for _ in range(4)])
    return q / np.linalg.norm(q)


def gen_quat(rng, kind=None):
    kind = kind or rng.choice(["unit", "unit", "unit", "nonunit", "negw", "pi", "axis90", "small", "identity", "negidentity"])
    if kind == "unit":
        q = _unit(rng)
    elif kind == "nonunit":
        q = _unit(rng) * rng.choice([0.05, 0.3, 2.0, 7.5, 20.0, rng.uniform(0.1, 10)])
    elif kind == "negw":
        q = _unit(rng)
        q[3] = -abs(q[3])
    elif kind == "pi":          # scalar part 0: a half turn; R = R^T here
        q = _unit(rng)
        q[3] = 0.0
        q /= np.linalg.norm(q)
    elif kind == "axis90":
        ax = rng.randrange(3)
        q = np.zeros(4)
        q[ax] = rng.choice([-1, 1]) * math.sqrt(0.5)
        q[3] = math.sqrt(0.5)
    elif kind == "small":
        q = np.array([rng.gauss(0, 1e-3) for _ in range(3)] + [1.0])
    elif kind == "identity":
        q = np.array([0.0, 0.0, 0.0, 1.0])
    else:
        q = np.array([0.0, 0.0, 0.0, -1.0])
    return [float(v) for v in q]


def gen_rows(rng, k=None):
    k = k or rng.choice([1, 1, 2, 3, 5, 8, 13, 25, 40])
    style = rng.choice(["mixed", "mixed", "unit", "zero_t", "same_t"])
    t0 = [rng.uniform(-40, 40) for _ in range(3)]
    rows = []
    for _ in range(k):
        if style == "zero_t":
            t = [0.0, 0.0, 0.0]
        elif style == "same_t":
            t = list(t0)
        else:
            t = [rng.uniform(-40, 40) if rng.random() < 0.9 else 0.0 for _ in range(3)]
        q = gen_quat(rng, "unit" if style == "unit" else None)
        rows.append([float(v) for v in t] + q)
    return rows


_GRIDS = {}


def real_grid(spec):
    """rows of an actual FullGrid (positions in Angstrom, quaternions scalar-last)"""
    if spec not in _GRIDS:
        from molgri.space.fullgrid import FullGrid
        with core.quiet():
            arr = FullGrid(*spec).get_full_grid_as_array()
        _GRIDS[spec] = [[float(v) for v in r] for r in arr]
    return _GRIDS[spec]


CORPUS = [
    # water + ammonia-like, three hand-made rows: identity, a 120-degree turn about (1,1,1), a generic non-unit quaternion
    {"kind": "pt", "mode": "direct", "center": True,
     "mol1": {"fmt": "xyz", "atoms": [["O", 5.0, 5.0, 5.0], ["H", 5.96, 5.0, 5.0], ["H", 4.76, 5.93, 5.0]]},
     "mol2": {"fmt": "xyz", "atoms": [["N", 10.0, 0.0, 0.0], ["H", 10.9, 0.3, 0.1], ["H", 9.8, 0.95, -0.3], ["H", 10.5, -0.7, 1.1]]},
     "rows": [[1.0, 2.0, 3.0, 0.0, 0.0, 0.0, 1.0], [0.0, 0.0, 0.0, 0.5, 0.5, 0.5, 0.5], [-4.0, 2.5, 7.0, 1.0, 2.0, 3.0, 4.0]]},
    # a quarter turn about z of an off-centre diatomic: transposition, scalar-first reading and rotation about the origin all differ
    {"kind": "pt", "mode": "direct", "center": False,
     "mol1": {"fmt": "xyz", "atoms": [["C", 0.0, 0.0, 0.0]]},
     "mol2": {"fmt": "xyz", "atoms": [["O", 3.0, 0.0, 0.0], ["H", 4.0, 0.0, 0.0]]},
     "rows": [[0.0, 0.0, 0.0, 0.0, 0.0, math.sqrt(0.5), math.sqrt(0.5)], [0.0, 0.0, 0.0, 0.0, 0.0, math.sqrt(0.5), math.sqrt(0.5)]]},
]


def cases(ctx):
    rng = ctx.rng
    for c in CORPUS:
        yield c
    # rotation matrix alone (scipy's convention against the model's R(q))
    for _ in range(40 if ctx.quick else 600):
        yield {"kind": "rotmat", "q": gen_quat(rng)}
    yield {"kind": "rotmat", "q": [0.0, 0.0, 0.0, 0.0]}
    # structured sweep: every molecule shape x both formats as the moving molecule, every quaternion kind present
    shapes = ["single", "diatomic", "linear", "planar", "random", "tetra", "ring", "coincident", "dummy", "homonuclear"]
    for i, sh in enumerate(shapes):
        for fmt in (["xyz"] if ctx.quick and i % 2 else ["xyz", "gro"]):
            rows = [[rng.uniform(-30, 30) for _ in range(3)] + gen_quat(rng, kd)
                    for kd in ["unit", "nonunit", "negw", "pi", "axis90", "small", "identity", "negidentity", "unit"]]
            yield {"kind": "pt", "mode": "direct", "center": True, "mol1": gen_molecule(rng), "mol2": gen_molecule(rng, sh, fmt),
                   "rows": rows}
    # error clauses
    m1, m2 = gen_molecule(rng, "random", "xyz"), gen_molecule(rng, "random", "xyz")
    good = gen_rows(rng, 4)
    yield {"kind": "pt", "mode": "direct", "center": True, "mol1": m1, "mol2": m2, "rows": []}
    yield {"kind": "pt", "mode": "direct", "center": True, "mol1": m1, "mol2": m2, "rows": good[:2] + [good[2][:3] + [0.0] * 4] + good[3:]}
    yield {"kind": "pt", "mode": "direct", "center": True, "mol1": m1, "mol2": m2, "rows": [r[:6] for r in good]}
    yield {"kind": "pt", "mode": "direct", "center": True, "mol1": m1, "mol2": m2, "rows": [r + [1.0] for r in good]}
    yield {"kind": "pt", "mode": "gen", "runs": 1, "center": True, "mol1": m1, "mol2": m2, "rows": []}
    # real grids
    specs = [("cube4D_8", "ico_5", "[0.3, 0.5]"), ("randomQ_3", "cube3D_4", "linspace(0.2, 1, 3)")]
    if not ctx.quick:
        specs += [("ico_10", "ico_7", "[0.25]"), ("cube4D_12", "cube3D_6", "[0.2, 0.4, 0.6]"), ("randomQ_7", "randomS_5", "[1, 2]"),
                  ("zero", "ico_12", "[0.5]"), ("cube4D_16", "zero", "[0.3]"), ("fulldiv_9", "fulldiv_6", "[0.4, 0.8]")]
    for sp in specs:
        try:
            rows = real_grid(sp)
        except Exception as e:  # grid construction is not this property's business
            ctx.branch("grid_unavailable:" + core.errname(e))
            continue
        yield {"kind": "pt", "mode": rng.choice(["direct", "writer"]), "center": True, "mol1": gen_molecule(rng),
               "mol2": gen_molecule(rng, "random"), "rows": rows, "grid": list(sp)}
    # random
    nrand = 140 if ctx.quick else 3000
    for _ in range(nrand):
        mode = rng.choice(["direct", "direct", "direct", "gen", "reuse", "writer"])
        c = {"kind": "pt", "mode": mode, "center": True if mode == "writer" else rng.random() < 0.7,
             "mol1": gen_molecule(rng), "mol2": gen_molecule(rng), "rows": gen_rows(rng)}
        if mode == "gen":
            c["runs"] = rng.choice([1, 2, 2, 3])
            c["rows"] = c["rows"][:8]
        if mode == "reuse":
            c["rows2"] = gen_rows(rng, rng.choice([1, 2, 5]))
        yield c


# ----------------------------------------------------------------------------------------------
# implementation
# ----------------------------------------------------------------------------------------------
def _impl_pt(case, d):
    from molgri.io import OneMoleculeReader, PtWriter
    from molgri.molecules.pts import Pseudotrajectory
    p1 = write_mol(os.path.join(d, "m1"), case["mol1"])
    p2 = write_mol(os.path.join(d, "m2"), case["mol2"])
    out = {"raw1": raw_atoms(p1), "raw2": raw_atoms(p2)}
    rows = case["rows"]
    arr = np.array(rows, dtype=float) if rows else np.zeros((0, 7))
    centre = case["center"]
    m1 = OneMoleculeReader(p1, center_com=centre).get_molecule()
    m2 = OneMoleculeReader(p2, center_com=centre).get_molecule()
    # the reference geometry: what the package's reader hands over
    out["ref1"] = m1.atoms.positions.astype(float).tolist()
    out["ref2"] = m2.atoms.positions.astype(float).tolist()
    out["topo1"], out["topo2"] = _topo(m1), _topo(m2)
    mode = case["mode"]
    try:
        if mode == "direct":
            pt = Pseudotrajectory(m1, m2, arr)
            u = pt.get_pt_as_universe()
            out["frames"] = _frames(u)
            out["topo"] = _topo(u)
            u2 = pt.get_pt_as_universe()
            out["second_call_same"] = bool(u2 is u) or _frames(u2) == out["frames"]
            out["frames_again"] = _frames(u2)
        elif mode == "gen":
            pt = Pseudotrajectory(m1, m2, arr)
            runs = []
            for _ in range(case["runs"]):
                fr = []
                for idx, mu in pt.generate_pseudotrajectory():
                    fr.append({"idx": int(idx), "pos": mu.atoms.positions.astype(float).tolist(), **_topo(mu)})
                runs.append(fr)
            out["runs"] = runs
        elif mode == "reuse":
            u = Pseudotrajectory(m1, m2, arr).get_pt_as_universe()
            out["frames"] = _frames(u)
            out["topo"] = _topo(u)
            arr2 = np.array(case["rows2"], dtype=float)
            ub = Pseudotrajectory(m1, m2, arr2).get_pt_as_universe()
            out["frames2"] = _frames(ub)
        elif mode == "writer":
            pg = os.path.join(d, "grid.npy")
            np.save(pg, arr)
            w = PtWriter(p1, p2, 30, pg)
            out["frames"] = _frames(w.pt_universe)
            out["topo"] = _topo(w.pt_universe)
        else:
            raise core.HarnessError(f"unknown mode {mode}")
    except core.HarnessError:
        raise
    except Exception as e:
        out["err"] = core.errname(e)
    # the reader objects handed in must not have been moved (Pseudotrajectory works on copies)
    out["ref1_after"] = m1.atoms.positions.astype(float).tolist()
    out["ref2_after"] = m2.atoms.positions.astype(float).tolist()
    return out


def impl(case):
    if case["kind"] == "rotmat":
        from scipy.spatial.transform import Rotation
        try:
            return {"R": Rotation.from_quat(case["q"]).as_matrix().tolist()}
        except Exception as e:
            return {"err": core.errname(e)}
    d = tempfile.mkdtemp(prefix="c10_")
    try:
        with core.quiet():
            return _impl_pt(case, d)
    finally:
        shutil.rmtree(d, ignore_errors=True)


# ----------------------------------------------------------------------------------------------
# model
# ----------------------------------------------------------------------------------------------
def _atoms_op(raw):
    return [[a[0], a[1], core.rat(a[2]), core.rat(a[3]), core.rat(a[4]), core.rat(a[5])] for a in raw]


def _rows_op(rows):
    return [[core.rat(v) for v in r] for r in rows]


def model_ops(case, out):
    if case["kind"] == "rotmat":
        return [{"op": "rotmat", "q": [core.rat(v) for v in case["q"]]}]
    base = {"mol1": _atoms_op(out["raw1"]), "mol2": _atoms_op(out["raw2"]), "rows": _rows_op(case["rows"]), "center": case["center"]}
    mode = case["mode"]
    if mode == "direct":
        return [dict(base, op="getpt", calls=2)]
    if mode == "gen":
        return [dict(base, op="generate", runs=case["runs"])]
    if mode == "reuse":
        return [dict(base, op="getpt", calls=1), dict(base, op="getpt", calls=1, rows=_rows_op(case["rows2"]))]
    return [dict(base, op="writer")]


def _unfix(p):
    return [[v / FIX for v in a] for a in p]


def _maxdev(A, B):
    A, B = np.asarray(A, dtype=float), np.asarray(B, dtype=float)
    if A.shape != B.shape:
        return math.inf
    return float(np.max(np.abs(A - B))) if A.size else 0.0


def _cmp_frames(ctx, what, case, impl_frames, model_frames, n1):
    """every atom of every frame against the exact model; molecule 1 to the tighter bound"""
    if len(impl_frames) != len(model_frames):
        ctx.corr(what + "/frame_count", case, len(impl_frames), len(model_frames))
        return False
    for k, (fi, fm) in enumerate(zip(impl_frames, model_frames)):
        fm = _unfix(fm)
        d1 = _maxdev(fi[:n1], fm[:n1])
        d2 = _maxdev(fi[n1:], fm[n1:])
        if not (d1 <= TOL_STATIC and d2 <= TOL):
            ctx.corr(what + "/positions", case, {"frame": k, "positions": fi, "dev_mol1": d1, "dev_mol2": d2}, {"positions": fm})
            return False
    return True


def compare(ctx, case, out, mouts):
    m = mouts[0]
    if case["kind"] == "rotmat":
        if "err" in out or "err" in m:
            if out.get("err") != m.get("err"):
                ctx.corr("rotmat/outcome", case, out, m)
            ctx.branch("rotmat_error")
            return
        M = [float(core.unrat(v)) for v in m["ok"]]
        if _maxdev(np.array(out["R"]).reshape(-1), M) > 1e-12:
            ctx.corr("rotmat/entries", case, out["R"], M)
        ctx.branch("rotmat")
        ctx.nt(("rotmat",) + tuple(case["q"]))
        return
    mode = case["mode"]
    ctx.branch("mode:" + mode)
    ctx.branch("fmt2:" + case["mol2"]["fmt"])
    ctx.branch("shape2:" + case["mol2"].get("shape", "corpus"))
    ctx.branch("atoms2:%d" % len(case["mol2"]["atoms"]))
    ctx.branch("rows:" + ("0" if not case["rows"] else "1" if len(case["rows"]) == 1 else "2-9" if len(case["rows"]) < 10 else "10+"))
    ctx.branch("centred" if case["center"] else "not_centred")
    errs = [x.get("err") for x in mouts]
    if "err" in out or any(errs):
        first = next((e for e in errs if e), None)
        if out.get("err") != first:
            ctx.corr("pt/outcome", case, {"err": out.get("err")}, {"err": first})
        ctx.branch("error:" + str(out.get("err")))
        return
    n1 = len(out["raw1"])
    ok = True
    if mode in ("direct", "reuse", "writer"):
        mf = m["ok"][0] if mode != "writer" else m["ok"]
        ok = _cmp_frames(ctx, "pt", case, out["frames"], mf, n1)
        if ok and mode == "direct":
            ok = _cmp_frames(ctx, "pt/second_call", case, out["frames_again"], m["ok"][1], n1)
        if ok and mode == "reuse":
            ok = _cmp_frames(ctx, "pt/second_object", case, out["frames2"], mouts[1]["ok"][0], n1)
        names = [a[0] for a in out["raw1"]] + [a[0] for a in out["raw2"]]
        types = [a[1] for a in out["raw1"]] + [a[1] for a in out["raw2"]]
        if out["topo"]["names"] != names or out["topo"]["types"] != types:
            ctx.corr("pt/topology", case, out["topo"], {"names": names, "types": types})
            ok = False
    else:
        runs_m = m["ok"]
        if len(runs_m) != len(out["runs"]):
            ctx.corr("gen/runs", case, len(out["runs"]), len(runs_m))
            return
        for r, (ri, rm) in enumerate(zip(out["runs"], runs_m)):
            if [f["idx"] for f in ri] != [f["idx"] for f in rm]:
                ctx.corr("gen/frame_index", case, {"run": r, "idx": [f["idx"] for f in ri]}, {"idx": [f["idx"] for f in rm]})
                return
            for fi, fm in zip(ri, rm):
                a = fm["atoms"]
                if fi["names"] != a["names"] or fi["types"] != a["types"] or \
                        any(not core.close(x, float(core.unrat(y)), rel=1e-12, abs_=0) for x, y in zip(fi["masses"], a["masses"])):
                    ctx.corr("gen/topology", case, {"run": r, "frame": fi["idx"], "names": fi["names"], "types": fi["types"]},
                             {"names": a["names"], "types": a["types"]})
                    return
            if not _cmp_frames(ctx, f"gen/run{r}", case, [f["pos"] for f in ri], [f["atoms"]["pos"] for f in rm], n1):
                return
        if len(out["runs"]) > 1:
            ctx.branch("generator_run_again_on_same_object")
    if ok and _nontrivial(case, out):
        ctx.nt(hashlib.sha256(json.dumps(case, sort_keys=True).encode()).hexdigest()[:20])
        ctx.branch("nontrivial")
        if len(case["rows"]) <= 3 and len(case["mol2"]["atoms"]) <= 4:
            ctx.sample(case)


def _nontrivial(case, out):
    rot = any(abs(r[3]) + abs(r[4]) + abs(r[5]) > 1e-6 * abs(r[6]) for r in case["rows"] if len(r) == 7)
    X = np.array(out["ref2"], dtype=float)
    m = np.array(out["topo2"]["masses"])
    if m.sum() <= 0:
        return False
    c = (m[:, None] * X).sum(0) / m.sum()
    return bool(rot and np.max(np.abs(X - c)) > 0.1)


# ----------------------------------------------------------------------------------------------
# oracle: the statement of C10, evaluated on the implementation in float64, independent of the model
# ----------------------------------------------------------------------------------------------
def _hamilton(a, b):
    """product of two quaternions, components (x, y, z, w) with the scalar LAST"""
    ax, ay, az, aw = a
    bx, by, bz, bw = b
    return np.array([aw * bx + ax * bw + ay * bz - az * by,
                     aw * by - ax * bz + ay * bw + az * bx,
                     aw * bz + ax * by - ay * bx + az * bw,
                     aw * bw - ax * bx - ay * by - az * bz])


def _rotate_by_quat(q, V):
    """v -> vector part of q (v,0) q* / |q|^2 : the rotation a quaternion stands for"""
    q = np.asarray(q, dtype=float)
    qc = np.array([-q[0], -q[1], -q[2], q[3]])
    n2 = float(q @ q)
    return np.array([_hamilton(_hamilton(q, np.array([v[0], v[1], v[2], 0.0])), qc)[:3] / n2 for v in V]).reshape(-1, 3)


def _check_frames(ctx, case, tag, frames, rows, ref1, ref2, masses2):
    n1 = len(ref1)
    ref1, ref2, masses2 = np.array(ref1).reshape(-1, 3), np.array(ref2).reshape(-1, 3), np.array(masses2)
    if len(frames) != len(rows):
        ctx.fail("C10:frame_count", f"{tag}: {len(frames)} frames for {len(rows)} grid rows", case, len(rows), len(frames))
        return False
    c2 = (masses2[:, None] * ref2).sum(0) / masses2.sum()
    D0 = np.linalg.norm(ref2[:, None, :] - ref2[None, :, :], axis=2)
    for k, (F, row) in enumerate(zip(frames, rows)):
        F = np.array(F, dtype=float).reshape(-1, 3)
        if F.shape[0] != n1 + len(ref2):
            ctx.fail("C10:atom_count", f"{tag}: frame {k} has {F.shape[0]} atoms", case, n1 + len(ref2), F.shape[0])
            return False
        t, q = np.array(row[:3]), np.array(row[3:])
        d1 = _maxdev(F[:n1], ref1)
        if d1 > TOL_STATIC:
            ctx.fail("C10:mol1_moved", f"{tag}: frame {k}: molecule 1 deviates {d1:.2e} A from its geometry", case,
                     ref1.tolist(), F[:n1].tolist())
            return False
        P = F[n1:]
        D = np.linalg.norm(P[:, None, :] - P[None, :, :], axis=2)
        if _maxdev(D, D0) > 2 * TOL:
            ctx.fail("C10:not_rigid", f"{tag}: frame {k}: an intramolecular distance of molecule 2 changed by {_maxdev(D, D0):.2e} A",
                     case, D0.tolist(), D.tolist())
            return False
        cP = (masses2[:, None] * P).sum(0) / masses2.sum()
        if _maxdev(cP, c2 + t) > TOL:
            ctx.fail("C10:com_position", f"{tag}: frame {k}: centre of mass of molecule 2 is at {cP.tolist()}, row position "
                     f"(+ reference centre) is {(c2 + t).tolist()}", case, (c2 + t).tolist(), cP.tolist())
            return False
        E = _rotate_by_quat(q, ref2 - c2) + c2 + t
        dev = _maxdev(P, E)
        if dev > TOL:
            ctx.fail("C10:placement", f"{tag}: frame {k}: molecule 2 deviates {dev:.2e} A from R(q_k)(x - c) + c + t_k",
                     case, E.tolist(), P.tolist())
            return False
    return True


def oracle(ctx, case, out):
    if case["kind"] == "rotmat":
        if "err" in out:
            return
        R = np.array(out["R"])
        q = np.array(case["q"])
        I = np.eye(3)
        if _maxdev(R @ R.T, I) > 1e-12 or abs(np.linalg.det(R) - 1) > 1e-12:
            ctx.fail("C10:rotmat_not_rotation", "matrix of a quaternion is not a proper rotation", case, None, R.tolist())
        elif _maxdev(_rotate_by_quat(q, I).T, R) > 1e-12:
            ctx.fail("C10:rotmat_convention", "matrix differs from conjugation by the scalar-last quaternion", case,
                     _rotate_by_quat(q, I).T.tolist(), R.tolist())
        return
    rows = case["rows"]
    bad_width = any(len(r) != 7 for r in rows)
    zero_q = any(len(r) == 7 and all(v == 0 for v in r[3:]) for r in rows)
    if "err" in out:
        # the statement promises frames for every array of rows with non-zero quaternions
        if rows and not bad_width and not zero_q:
            ctx.fail("C10:exception", f"pseudotrajectory raised {out['err']} for a valid array", case)
        return
    if case["mode"] != "gen" and (not rows or bad_width or zero_q):
        ctx.fail("C10:no_exception", "an empty / malformed array or a zero quaternion produced a pseudotrajectory", case)
        return
    masses2 = out["topo2"]["masses"]
    if sum(masses2) <= 0:
        return
    if case["center"]:
        X = np.array(out["ref2"]).reshape(-1, 3)
        c = (np.array(masses2)[:, None] * X).sum(0) / sum(masses2)
        if np.max(np.abs(c)) > 1e-5:
            ctx.fail("C10:reader_not_centred", f"OneMoleculeReader: centre of mass of molecule 2 at {c.tolist()}", case)
            return
        raw = np.array([a[3:] for a in out["raw2"]]).reshape(-1, 3)
        if _maxdev(raw - raw[0], X - X[0]) > 1e-5:
            ctx.fail("C10:reader_deformed", "OneMoleculeReader changed the geometry of molecule 2", case)
            return
    if out["ref1_after"] != out["ref1"] or out["ref2_after"] != out["ref2"]:
        ctx.fail("C10:input_molecule_moved", "the molecules handed to Pseudotrajectory were moved by it", case,
                 {"ref2": out["ref2"]}, {"ref2_after": out["ref2_after"]})
        return
    topo_expect = {k: out["topo1"][k] + out["topo2"][k] for k in ("names", "types", "masses")}
    if case["mode"] == "gen":
        fr = out["runs"][0] if out["runs"] else []
        # only the first run of the generator on a fresh object is what the property speaks about
        if [f["idx"] for f in fr] != list(range(len(rows))):
            ctx.fail("C10:frame_index", "generator does not number the frames 0..n-1 in row order", case,
                     list(range(len(rows))), [f["idx"] for f in fr])
            return
        for f in fr:
            if {k: f[k] for k in ("names", "types", "masses")} != topo_expect:
                ctx.fail("C10:atom_order", f"frame {f['idx']}: atoms are not molecule 1 followed by molecule 2", case,
                         topo_expect, {k: f[k] for k in ("names", "types", "masses")})
                return
        _check_frames(ctx, case, "generator", [f["pos"] for f in fr], rows, out["ref1"], out["ref2"], masses2)
        return
    if out["topo"] != topo_expect:
        ctx.fail("C10:atom_order", "atom names/types/masses are not those of molecule 1 followed by molecule 2", case,
                 topo_expect, out["topo"])
        return
    if not _check_frames(ctx, case, "get_pt_as_universe", out["frames"], rows, out["ref1"], out["ref2"], masses2):
        return
    if case["mode"] == "direct" and (not out["second_call_same"]):
        ctx.fail("C10:second_call", "get_pt_as_universe returns different frames when called again", case)
        return
    if case["mode"] == "reuse":
        _check_frames(ctx, case, "second pseudotrajectory from the same molecules", out["frames2"], case["rows2"],
                      out["ref1"], out["ref2"], masses2)
