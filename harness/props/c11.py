"""C11 - frame assignment equals geometric membership in the grid cell
(molgri.molecules.transitions.AssignmentTool, molgri.space.translations.get_between_radii).

Layers
  unit level (exact, fast; the real functions are called with duck-typed stand-ins for the MDAnalysis objects):
     dirs     _determine_positive_directions   exhaustive over sign patterns of <= 3 atoms (+ random longer ones)
     tassign  _t_assignment_function           radii / distances incl. exact ties and exact boundaries
     oassign  _o_assignment_function           both metrics
     between  get_between_radii
     compose  _get_position_assignments + get_full_assignments on supplied component assignments (NaN included)
  trajectory level (end to end through AssignmentTool.get_full_assignments on MDAnalysis universes):
     traj     placements drawn continuously (plus structured ones close to - but outside the margin of - cell
              boundaries), several molecule classes, molgri grids and synthetic grids, outliers on/off, both metrics;
              pseudotrajectories of the grid itself through the package's own Pseudotrajectory.
     input representation: every trajectory case is also run in another representation the public API accepts
              (trajectory backed by a DCD / LAMMPS-DCD / TRR / XTC / XYZ / multi-frame PDB / NCDF file or a chain of two
              files instead of memory, the whole system rigidly displaced so that the first molecule is off the origin,
              full_array Fortran-ordered / read-only / strided, second molecule as AtomGroup, numpy scalars for
              stop / include_outliers), judged by the same placements with margins widened by the format's precision.

The model (Lean, exact rationals) gets the same numbers the implementation saw; MDAnalysis principal_axes, the
square root in np.linalg.norm and the grid arrays parsed by from_full_array_to_o_b_t are inputs of the model
(external parameters) and are validated here on every run.
The oracle is independent of the model: expected cell = (shell containing |COM|, direction with largest dot product,
grid quaternion with largest |q.p| to the rotation that was applied), from the case's own placement data.
"""
from __future__ import annotations

import itertools
import os
import math
import types
from fractions import Fraction

import numpy as np

import core

RULE = ("unit level: all sign patterns of 1..3 atoms over {-1,0,1}^3 (exhaustive) + random longer atom lists; radial rule on "
        "random strictly increasing radii with distances at random points, exact midpoints, exact radii, exact outer bound "
        "+-1ulp; direction rule with random unit grids and both metrics. trajectory level: second molecules of classes "
        "{generic non-planar, planar, mirror-plane (first atoms in a principal plane), C2v planar water-like, C2v non-planar, "
        "generic + a last atom on a principal axis} "
        "with principal moments separated by >= 8 %, grids from molgri names and synthetic grids (n_b 1..12, n_o 1..14, "
        "n_t 2..4), placements = uniform random rotation x uniform direction x radius from inside the first shell to beyond "
        "the outer bound, plus structured placements 3 margins away from a radial / direction / rotation cell boundary and "
        "antipodal quaternion representatives, COM distances up to 30 A for every class, plus grids with a tiny innermost "
        "shell (first radius log-uniform 1e-9..1e-2 A) and with huge radii (1e3..1e5 A); a frame is non-trivial and distinct by (case, frame) when it is not excluded "
        "by the margin rule (radial 1e-4 A, direction 1e-4 in dot product, rotation 1e-3 in |q.p|, each widened by the float32 "
        "resolution of the coordinates at tiny / huge distances); the o/b/t arrays the tool derives from the full grid must equal "
        "the generating grids")

DECIMALS = 3                        # np.round(projection, DECIMALS) in _determine_positive_directions (fix c9b2235)
THR = Fraction(1, 2 * 10 ** DECIMALS)   # the rounded projection is zero iff |x| <= THR (5e-4 A)
MARGIN_T = 1e-4                     # Angstrom
MARGIN_O = 1e-4                     # difference of dot products
MARGIN_B = 1e-3                     # difference of |q.p|
F32 = 6e-8                          # relative resolution of the float32 coordinates MDAnalysis stores


def margins(d, p=0.0):
    """margins at centre-of-mass distance d (A): the base margins, widened where the float32 coordinates of the
    trajectory cannot resolve the placement any better (tiny distances: direction; huge distances: radius, rotation).
    Returns (radial A, direction as difference of dot products, rotation as difference of |q.p|)."""
    d = max(float(d), 1e-300)
    # p = coordinate quantum (A) of the file format backing the trajectory (0 for float32 formats): centre of mass off by
    # <= p/2, principal axes of a ~1 A molecule with >= 8 % moment gaps off by <= ~6 p rad (|q.p| by half of that)
    return (max(MARGIN_T, 8 * F32 * d, 4 * p), max(MARGIN_O, 1e-6 / d, 4 * p / d), max(MARGIN_B, 16 * F32 * d, 10 * p))


O_UNRESOLVABLE = 0.25               # direction margin beyond which the direction of a placement is not in the float32 data
MASS = {"H": 1.008, "C": 12.011, "N": 14.007, "O": 15.999, "S": 32.06, "F": 18.998, "P": 30.974}


# ------------------------------------------------------------------------------------------------------------------
# small helpers
# ------------------------------------------------------------------------------------------------------------------
def R(x):
    return core.rat(float(x))


def rv(v):
    return [R(x) for x in v]


def rm(m):
    return [rv(r) for r in m]


def quat_to_matrix(q):
    """own formula (scalar last), independent of scipy"""
    x, y, z, w = np.asarray(q, dtype=float) / np.linalg.norm(q)
    return np.array([[1 - 2 * (y * y + z * z), 2 * (x * y - w * z), 2 * (x * z + w * y)],
                     [2 * (x * y + w * z), 1 - 2 * (x * x + z * z), 2 * (y * z - w * x)],
                     [2 * (x * z - w * y), 2 * (y * z + w * x), 1 - 2 * (x * x + y * y)]])


def masses_of(els):
    return np.array([MASS[e] for e in els], dtype=float)


def com_of(els, X):
    m = masses_of(els)
    return (m[:, None] * np.asarray(X, dtype=float)).sum(0) / m.sum()


def inertia(els, X):
    m = masses_of(els)
    Y = np.asarray(X, dtype=float) - com_of(els, X)
    T = np.zeros((3, 3))
    for mi, y in zip(m, Y):
        T += mi * (np.dot(y, y) * np.eye(3) - np.outer(y, y))
    return T


def universe(els, frames):
    import MDAnalysis as mda
    from MDAnalysis.coordinates.memory import MemoryReader
    n = len(els)
    u = mda.Universe.empty(n, trajectory=True)
    u.add_TopologyAttr("names", list(els))
    u.add_TopologyAttr("masses", [MASS[e] for e in els])
    u.add_TopologyAttr("resnames", ["MOL"])
    u.load_new(np.asarray(frames, dtype=np.float32).reshape(-1, n, 3), format=MemoryReader)
    return u


class FakeGroup:
    """stand-in for an MDAnalysis AtomGroup / Universe for the unit-level calls"""

    def __init__(self, pas=None, com=None, positions=None):
        self._pas, self._com = pas, com
        self.positions = positions
        self.atoms = self

    def principal_axes(self):
        return self._pas

    def center_of_mass(self):
        return self._com


# ------------------------------------------------------------------------------------------------------------------
# generators: molecules
# ------------------------------------------------------------------------------------------------------------------
def _moments_ok(els, X, gap=0.08):
    w = np.sort(np.linalg.eigvalsh(inertia(els, X)))
    if w[0] <= 1e-3:
        return False
    return (w[1] - w[0]) / w[1] > gap and (w[2] - w[1]) / w[2] > gap


def _ideal_signs(els, X, tol=0.02):
    """sign pattern of the exact geometry in its own principal frame: entries are 0 where the projection vanishes
    structurally (<1e-9), None when it is neither clearly zero nor clearly non-zero (molecule rejected)."""
    w, v = np.linalg.eigh(inertia(els, X))
    axes = v[:, ::-1].T
    Y = (np.asarray(X, dtype=float) - com_of(els, X)) @ axes.T
    out = []
    for y in Y:
        row = []
        for c in y:
            if abs(c) < 1e-9:
                row.append(0)
            elif abs(c) < tol:
                return None
            else:
                row.append(1 if c > 0 else -1)
        out.append(row)
    return out


def gen_molecule(rng, cls):
    """returns {"els":[..], "X":[[..]], "cls":cls}; three distinct principal moments, every projection on a principal axis
    either structurally zero or >= 0.02 A"""
    heavy = ["C", "N", "O", "S", "F", "P"]
    for _ in range(2000):
        if cls == "generic":
            n = rng.randint(4, 8)
            els = [rng.choice(heavy + ["H"]) for _ in range(n)]
            X = [[rng.uniform(-1.8, 1.8) for _ in range(3)] for _ in range(n)]
        elif cls == "generic_axis_last":
            # generic molecule + one more atom, LAST in the file, on a principal axis through the centre of mass (or at the
            # centre of mass itself): the principal axes keep their directions; the atom loop must stop before reaching it
            n = rng.randint(4, 6)
            els = [rng.choice(heavy + ["H"]) for _ in range(n)]
            X = [[rng.uniform(-1.8, 1.8) for _ in range(3)] for _ in range(n)]
            w, v = np.linalg.eigh(inertia(els, X))
            c0 = com_of(els, X)
            extra = c0 + (0.0 if rng.random() < 0.3 else rng.choice([-1, 1]) * rng.uniform(0.8, 1.6)) * v[:, rng.randrange(3)]
            els.append(rng.choice(["H", "C", "O"]))
            X.append(extra.tolist())
        elif cls == "planar":
            n = rng.randint(3, 6)
            els = [rng.choice(heavy + ["H"]) for _ in range(n)]
            X = [[rng.uniform(-1.8, 1.8), rng.uniform(-1.8, 1.8), 0.0] for _ in range(n)]
        elif cls == "mirror":
            # k atoms in the plane z = 0 first, then mirrored pairs: the atom loop has to walk past the first k atoms
            k = rng.randint(1, 3)
            p = rng.randint(1, 2)
            els, X = [], []
            for _i in range(k):
                els.append(rng.choice(heavy))
                X.append([rng.uniform(-1.5, 1.5), rng.uniform(-1.5, 1.5), 0.0])
            for _i in range(p):
                e = rng.choice(["H", "F", "C"])
                x, y, z = rng.uniform(-1.5, 1.5), rng.uniform(-1.5, 1.5), rng.uniform(0.4, 1.4)
                els += [e, e]
                X += [[x, y, z], [x, y, -z]]
        elif cls == "c2v_planar":
            # water-like: apex atom on the axis FIRST, two equal atoms after it
            a, b = rng.uniform(0.5, 1.2), rng.uniform(0.3, 0.9)
            els = [rng.choice(["O", "S", "C"]), "H", "H"] if rng.random() < 0.7 else [rng.choice(heavy), "F", "F"]
            X = [[0.0, 0.0, 0.0], [a, b, 0.0], [-a, b, 0.0]]
        elif cls == "c2v_nonplanar":
            # CH2F2-like: centre on the axis first, then a pair in the xz plane and a pair in the yz plane
            a, b, c, d = rng.uniform(0.6, 1.2), rng.uniform(0.3, 0.8), rng.uniform(0.7, 1.3), rng.uniform(0.3, 0.9)
            els = ["C", "H", "H", "F", "F"]
            X = [[0.0, 0.0, 0.0], [a, 0.0, b], [-a, 0.0, b], [0.0, c, -d], [0.0, -c, -d]]
        else:
            raise ValueError(cls)
        if cls not in ("generic",):
            # rigidly rotate the reference so that the principal axes are not the coordinate axes (for half of them)
            if rng.random() < 0.5:
                q = [rng.gauss(0, 1) for _ in range(4)]
                Rm = quat_to_matrix(q)
                X = (np.asarray(X) @ Rm.T).tolist()
        X = (np.asarray(X, dtype=float) - com_of(els, X)).tolist()
        if not _moments_ok(els, X):
            continue
        if _ideal_signs(els, X) is None:
            continue
        d = np.linalg.norm(np.asarray(X)[:, None, :] - np.asarray(X)[None, :, :], axis=2)
        if np.any(d[np.triu_indices(len(els), 1)] < 0.5):
            continue
        return {"els": els, "X": X, "cls": cls}
    raise core.HarnessError("molecule generator failed")


FIRST_MOL = {"els": ["O", "H", "H"], "X": [[0.0, 0.0, 0.0], [0.96, 0.0, 0.0], [-0.24, 0.93, 0.0]]}


# ------------------------------------------------------------------------------------------------------------------
# generators: grids
# ------------------------------------------------------------------------------------------------------------------
_GRID_CACHE = {}


def named_grid(b, o, t):
    key = (b, o, t)
    if key not in _GRID_CACHE:
        from molgri.space.fullgrid import FullGrid
        with core.quiet():
            fg = FullGrid(b, o, t)
            _GRID_CACHE[key] = {"full": fg.get_full_grid_as_array(),
                                "o": np.array(fg.get_o_grid().get_grid_as_array()),
                                "b": np.array(fg.b_rotations.get_grid_as_array(only_upper=True)),
                                "t": np.array(fg.get_radii(), dtype=float)}
    return _GRID_CACHE[key]


def _sep_unit(rng, n, dim, minsep):
    pts = []
    tries = 0
    while len(pts) < n:
        tries += 1
        if tries > 20000:
            raise core.HarnessError("separated points generator failed")
        v = np.array([rng.gauss(0, 1) for _ in range(dim)])
        v /= np.linalg.norm(v)
        if all(abs(np.dot(v, p)) < math.cos(minsep) if dim == 4 else np.dot(v, p) < math.cos(minsep) for p in pts):
            pts.append(v)
    return np.array(pts)


def raw_grid(rng, nb, no, nt, rmax):
    """synthetic grid in the package's row order: for t: for o: for b"""
    b = _sep_unit(rng, nb, 4, 0.25 if nb <= 8 else 0.15)
    o = _sep_unit(rng, no, 3, 0.35 if no <= 8 else 0.2)
    r0 = rng.uniform(1.0, 2.5)
    t = [r0]
    for _ in range(nt - 1):
        t.append(t[-1] + rng.uniform(0.4, (rmax - r0) / max(1, nt - 1)))
    t = [round(x, 4) for x in t]
    return {"t": t, "o": o.tolist(), "b": b.tolist()}


def grid_arrays(g):
    """-> full array handed to AssignmentTool and the grid's own (o, b, t) used by the oracle"""
    if g["type"] == "name":
        G = named_grid(g["b"], g["o"], g["t"])
        return G["full"], G["o"], G["b"], G["t"]
    o, b, t = np.array(g["o"], dtype=float), np.array(g["b"], dtype=float), np.array(g["t"], dtype=float)
    rows = []
    for r in t:
        for ov in o:
            for bq in b:
                rows.append(list(r * ov) + list(bq))
    return np.array(rows), o, b, t


# ------------------------------------------------------------------------------------------------------------------
# generators: placements
# ------------------------------------------------------------------------------------------------------------------
def own_between(t):
    """the property's shell boundaries, written independently: midpoints, last one mirrored"""
    t = [float(x) for x in t]
    B = [(t[k] + t[k + 1]) / 2 for k in range(len(t) - 1)]
    B.append(t[-1] + (t[-1] - t[-2]) / 2)
    return B


def placements(rng, o, b, t, n, far_ok):
    out = []
    B = own_between(t)
    rhi = B[-1] * 1.25
    if not far_ok:
        rhi = min(rhi, 3.9)
    for _ in range(n):
        kind = rng.random()
        q = np.array([rng.gauss(0, 1) for _ in range(4)])
        q /= np.linalg.norm(q)
        dvec = np.array([rng.gauss(0, 1) for _ in range(3)])
        dvec /= np.linalg.norm(dvec)
        r = rng.uniform(0.3 * t[0], rhi)
        if t[0] < 0.05 and rng.random() < 0.35:
            # a tiny innermost shell: some placements deep inside it, at its own scale and between it and the next radius
            r = 10 ** rng.uniform(math.log10(0.3 * t[0]), math.log10(B[0]))
        if kind < 0.2:
            # radius 3 margins from a shell boundary
            k = rng.randrange(len(B))
            r = B[k] + rng.choice([-1, 1]) * 3 * margins(B[k])[0] * rng.uniform(1, 30)
        elif kind < 0.30 and len(o) >= 2:
            # direction just off the bisector of two neighbouring grid directions
            i = rng.randrange(len(o))
            dots = o @ o[i]
            dots[i] = -2
            j = int(np.argmax(dots))
            mid = o[i] + o[j]
            if np.linalg.norm(mid) > 1e-6:
                mid /= np.linalg.norm(mid)
                off = (o[i] - o[j])
                off /= np.linalg.norm(off)
                dvec = mid + rng.choice([-1, 1]) * 3 * min(margins(r)[1], 0.05) * rng.uniform(1, 30) * off
                dvec /= np.linalg.norm(dvec)
        elif kind < 0.45 and len(b) >= 2:
            # rotation just off the bisector of two neighbouring grid rotations (on S3 up to sign)
            i = rng.randrange(len(b))
            dots = b @ b[i]
            sg = np.where(dots < 0, -1.0, 1.0)
            ad = np.abs(dots)
            ad[i] = -2
            j = int(np.argmax(ad))
            bj = b[j] * sg[j]
            mid = b[i] + bj
            if np.linalg.norm(mid) > 1e-6:
                mid /= np.linalg.norm(mid)
                off = b[i] - bj
                off /= np.linalg.norm(off)
                q = mid + rng.choice([-1, 1]) * 3 * min(margins(r)[2], 0.05) * rng.uniform(1, 30) * off
                q /= np.linalg.norm(q)
        elif kind < 0.52:
            # a grid rotation composed with a half turn about a coordinate axis / a pure half turn (w = 0)
            ax = rng.randrange(3)
            h = np.zeros(4)
            h[ax] = 1.0
            q = h if (len(b) == 0 or rng.random() < 0.3) else _qmul(b[rng.randrange(len(b))], h)
        elif kind < 0.58:
            q = np.array([rng.gauss(0, 0.02), rng.gauss(0, 0.02), rng.gauss(0, 0.02), 1.0])
            q /= np.linalg.norm(q)
        if rng.random() < 0.5:
            q = -q   # the other representative of the same rotation
        if not far_ok:
            r = min(r, 3.9)
        out.append({"c": (dvec * r).tolist(), "q": q.tolist()})
    return out


def _qmul(a, b):
    x1, y1, z1, w1 = a
    x2, y2, z2, w2 = b
    return np.array([w1 * x2 + x1 * w2 + y1 * z2 - z1 * y2,
                     w1 * y2 - x1 * z2 + y1 * w2 + z1 * x2,
                     w1 * z2 + x1 * y2 - y1 * x2 + z1 * w2,
                     w1 * w2 - x1 * x2 - y1 * y2 - z1 * z2])


NAMED = [("cube4D_8", "ico_6", "[0.2, 0.3, 0.45]"), ("cube4D_9", "ico_7", "[0.3, 0.5, 0.8]"),
         ("randomQ_5", "cube3D_9", "[0.15, 0.3]"), ("cube4D_12", "randomS_8", "linspace(0.2, 0.6, 4)"),
         ("fulldiv_8", "ico_12", "[0.25, 0.35]"), ("randomQ_4", "cube3D_4", "[0.2, 0.4, 0.5]"),
         ("cube4D_6", "ico_5", "[0.1, 0.2, 0.3, 0.7]"), ("zero4D_1", "ico_10", "[0.2, 0.3]"),
         ("cube4D_7", "zero3D_1", "[0.2, 0.3]"), ("randomQ_11", "randomS_13", "range(0.2, 0.5, 0.1)")]


def _base_cases(ctx):
    rng = ctx.rng
    quick = ctx.quick
    # ---- unit level -------------------------------------------------------------------------------------------
    sgn = [-1, 0, 1]
    triples = [list(p) for p in itertools.product(sgn, repeat=3)]
    for n in (1, 2, 3):
        if n == 3 and quick:
            # quick: all 27^2 pairs + a random third of the triples
            for combo in itertools.product(triples, repeat=3):
                if rng.random() < 0.08:
                    yield {"kind": "dirs", "signs": [list(c) for c in combo]}
            continue
        for combo in itertools.product(triples, repeat=n):
            yield {"kind": "dirs", "signs": [list(c) for c in combo]}
    ctx.exhaustive = True
    ctx.extra_cov["exhaustive_scope"] = ("_determine_positive_directions: every sign pattern of 1 and 2 atoms"
                                         + ("" if quick else " and 3 atoms") + " over {-1,0,1}^3")
    for _ in range(300 if quick else 5000):
        n = rng.randint(4, 9)
        pz = rng.choice([0.2, 0.5, 0.8])
        yield {"kind": "dirs", "signs": [[0 if rng.random() < pz else rng.choice([-1, 1]) for _k in range(3)] for _a in range(n)],
               "scale": rng.choice([1.0, 6 * float(THR), 1.4 * float(THR), 0.8 * float(THR)])}
    for _ in range(600 if quick else 12000):
        nt = rng.choice([1, 2, 2, 3, 3, 4, 6])
        t = sorted({round(rng.uniform(0.5, 12.0), rng.choice([1, 2, 4])) for _k in range(nt)})
        B = own_between(t) if len(t) >= 2 else [t[0]]
        mode = rng.random()
        if mode < 0.35:
            d = rng.uniform(0.0, B[-1] * 1.3)
        elif mode < 0.6:
            d = rng.choice(B)                              # exactly on a boundary (tie -> first index; outer bound inclusive)
            d = float(np.nextafter(d, rng.choice([-1e9, 1e9]))) if rng.random() < 0.5 else d
        elif mode < 0.75:
            d = rng.choice(t)
        else:
            d = rng.choice(B) + rng.choice([-1, 1]) * 10 ** rng.uniform(-9, -1)
        yield {"kind": "tassign", "t": t, "d": abs(d), "outliers": rng.random() < 0.4,
               "axis": rng.randrange(3)}
    # dyadic radii: all float arithmetic of the code is exact, so exact ties and the exact outer bound are compared strictly
    for _ in range(400 if quick else 6000):
        nt = rng.choice([2, 2, 3, 4, 5])
        t = sorted({rng.randint(1, 96) / 8 for _k in range(nt)})
        if len(t) < 2:
            continue
        B = own_between(t)
        mode = rng.random()
        if mode < 0.5:
            d = rng.choice(B)
        elif mode < 0.7:
            d = float(np.nextafter(rng.choice(B), rng.choice([-1e9, 1e9])))
        elif mode < 0.8:
            d = rng.choice(t)
        else:
            d = rng.randint(0, 128) / 8
        yield {"kind": "tassign", "t": t, "d": d, "outliers": rng.random() < 0.4, "axis": rng.randrange(3), "dyadic": True}
    for _ in range(150 if quick else 3000):
        no = rng.randint(1, 14)
        o = _sep_unit(rng, no, 3, 0.05)
        c = np.array([rng.gauss(0, 1) for _k in range(3)]) * rng.choice([0.01, 1.0, 10.0])
        yield {"kind": "oassign", "o": o.tolist(), "c": c.tolist(), "cartesian": rng.random() < 0.5}
    for _ in range(150 if quick else 3000):
        nt = rng.choice([1, 2, 3, 4, 7])
        t = [rng.choice([round(rng.uniform(0.1, 3.0), 3)] * 4 + [0.0, -0.5])]     # zero first radius is legal, negative not
        for _k in range(nt - 1):
            t.append(round(t[-1] + rng.choice([rng.uniform(0.001, 2.0), 0.0 if rng.random() < 0.1 else 0.5]), 3))
        yield {"kind": "between", "t": t}
    for _ in range(100 if quick else 2000):
        nT, nO, nB = rng.randint(2, 5), rng.randint(1, 14), rng.randint(1, 14)
        n = rng.randint(1, 12)
        yield {"kind": "compose", "nO": nO, "nB": nB,
               "t": [None if rng.random() < 0.2 else rng.randrange(nT) for _k in range(n)],
               "o": [rng.randrange(nO) for _k in range(n)], "b": [rng.randrange(nB) for _k in range(n)]}
    # ---- trajectory level -------------------------------------------------------------------------------------
    classes = ["generic", "planar", "mirror", "c2v_planar", "c2v_nonplanar", "generic_axis_last"]
    ntraj = 42 if quick else 420
    nfr = 28 if quick else 45
    for k in range(ntraj):
        cls = classes[k % len(classes)] if k < 2 * len(classes) else rng.choice(classes)
        mol2 = gen_molecule(rng, cls)
        if rng.random() < 0.45:
            b, o, t = NAMED[rng.randrange(len(NAMED))] if not quick else NAMED[rng.randrange(7)]
            g = {"type": "name", "b": b, "o": o, "t": t}
        else:
            g = {"type": "raw", **raw_grid(rng, rng.randint(1, 12), rng.randint(1, 14), rng.randint(2, 4), rng.choice([4.0, 9.0, 25.0]))}
        _, og, bg, tg = grid_arrays(g)
        pl = placements(rng, og, bg, tg, nfr, far_ok=True)
        yield {"kind": "traj", "grid": g, "mol1": FIRST_MOL if rng.random() < 0.6 else _strip(gen_molecule(rng, "generic")),
               "mol2": _strip(mol2), "cls": cls, "placements": pl, "outliers": rng.random() < 0.35,
               "cartesian": rng.random() < 0.6}
    # pseudotrajectories of the grid itself (package's own Pseudotrajectory): must come back as 0,1,2,...
    npt = 4 if quick else 40
    for k in range(npt):
        cls = classes[k % len(classes)]
        mol2 = gen_molecule(rng, cls)
        if k % 2 == 0:
            names = [x for x in NAMED if x[0] != "zero4D_1"]
            b, o, t = names[rng.randrange(3 if quick else len(names))]
            g = {"type": "name", "b": b, "o": o, "t": t}
        else:
            g = {"type": "raw", **raw_grid(rng, rng.randint(2, 8), rng.randint(2, 8), rng.randint(2, 3), rng.choice([3.8, 9.0, 20.0]))}
        yield {"kind": "traj", "grid": g, "mol1": FIRST_MOL, "mol2": _strip(mol2), "cls": cls, "pt": True,
               "outliers": False, "cartesian": k % 3 != 0}
    # molecules with structurally zero projections far away (8..30 A): float32 noise of those projections must not matter
    # (finding C11:sign_noise, fixed by c9b2235)
    for k in range(6 if quick else 60):
        mol2 = gen_molecule(rng, ["planar", "mirror", "c2v_planar", "c2v_nonplanar"][k % 4])
        g = {"type": "raw", **raw_grid(rng, 6, 6, 3, 30.0)}
        g["t"] = [8.0, 16.0, 30.0]
        _, og, bg, tg = grid_arrays(g)
        yield {"kind": "traj", "grid": g, "mol1": FIRST_MOL, "mol2": _strip(mol2), "cls": mol2["cls"] + "_far",
               "placements": placements(rng, og, bg, tg, 8, far_ok=True), "outliers": True, "cartesian": True}
    # radial grids of extreme but valid magnitudes
    #  - a tiny innermost shell (first radius log-uniform 1e-9 .. 1e-2 A, "a cell around the origin") + ordinary shells
    #  - very large radii (1e3 .. 1e5 A; classes with structurally zero projections only up to 1e3 A: from ~2e3 A on the
    #    float32 coordinates deform the molecule by about as much as the 5e-4 A zero test, see the note in run())
    TINY_NAMED = [("cube4D_8", "ico_6", "[0.0000005, 0.2, 0.3]"), ("randomQ_5", "ico_12", "linspace(0.0000001, 0.4, 3)"),
                  ("cube4D_6", "cube3D_9", "[0.00002, 0.15, 0.3]")]
    for k in range(8 if quick else 80):
        cls = classes[k % len(classes)]
        mol2 = gen_molecule(rng, cls)
        g = {"type": "raw", **raw_grid(rng, rng.randint(2, 9), rng.randint(2, 10), rng.randint(2, 4), 9.0)}
        if k % 8 < 5:
            g["t"] = [10 ** rng.uniform(-9, -2)] + [x for x in g["t"]][: len(g["t"]) - 1 or 1]
            tag = "_tiny_first_shell"
        else:
            zero_free = cls in ("generic", "generic_axis_last")
            # classes with structural zeros: everything (outermost placement included) stays below 1e3 A
            R0 = 10 ** rng.uniform(3, 5) if zero_free else 10 ** rng.uniform(math.log10(40), math.log10(220))
            g["t"] = [float(np.float64(R0 * f)) for f in [1.0, 1.4, 2.3, 2.9][: len(g["t"])]]
            tag = "_huge_radii"
        _, og, bg, tg = grid_arrays(g)
        yield {"kind": "traj", "grid": g, "mol1": FIRST_MOL, "mol2": _strip(mol2), "cls": cls + tag,
               "placements": placements(rng, og, bg, tg, 14 if quick else 30, far_ok=True),
               "outliers": rng.random() < 0.4, "cartesian": rng.random() < 0.6}
    for k in range(3 if quick else 24):
        cls = classes[(k + 1) % len(classes)]
        mol2 = gen_molecule(rng, cls)
        if k % 3 == 0:
            b, o, t = TINY_NAMED[(k // 3) % len(TINY_NAMED)]
            g = {"type": "name", "b": b, "o": o, "t": t}
            tag = "_tiny_first_shell"
        else:
            g = {"type": "raw", **raw_grid(rng, rng.randint(2, 6), rng.randint(2, 8), 3, 9.0)}
            if k % 3 == 1:
                g["t"] = [10 ** rng.uniform(-9, -2), g["t"][0], g["t"][1]]
                tag = "_tiny_first_shell"
            else:
                zero_free = cls in ("generic", "generic_axis_last")
                R0 = 10 ** rng.uniform(3, 5) if zero_free else 10 ** rng.uniform(math.log10(40), math.log10(350))
                g["t"] = [R0, 1.5 * R0, 2.5 * R0]
                tag = "_huge_radii"
        yield {"kind": "traj", "grid": g, "mol1": FIRST_MOL, "mol2": _strip(mol2), "cls": cls + tag, "pt": True,
               "outliers": False, "cartesian": k % 2 == 0}


def cases(ctx):
    """the base cases; after every trajectory case the same case in a seed-chosen other input representation (file-backed
    trajectory of some format, displaced system, full_array form, AtomGroup, numpy scalars); in quick 30 % of the
    cases get a variant cut to 6 frames, in thorough 50 % cut to 20 frames; the exhaustive sweep of two fixed cases over all accepted representations is run as well"""
    import random
    rrng = random.Random(f"C11-rep-{ctx.seed}")
    swept = False
    for case in _base_cases(ctx):
        if case["kind"] == "traj" and not swept:
            swept = True
            yield from fixed_sweep_cases()
        yield case
        if case["kind"] == "traj":
            v = rep_variant(case, rrng, max_frames=6 if ctx.quick else 20)
            if v is not None and ((not ctx.quick and rrng.random() < 0.5)
                                  or (ctx.quick and not case.get("pt") and rrng.random() < 0.3)):
                yield v
    ctx.extra_cov["input_representations"] = {
        "trajectory_backings_accepted": {b: {"coordinate_quantum_A": spec["precision"],
                                            "used_for_molecules_with_structural_zeros": spec["zero_ok"]}
                                         for b, spec in BACKINGS.items()},
        "full_array_forms_accepted": FULL_ARRAY_FORMS, "second_molecule": ["Universe", "AtomGroup"],
        "stop_include_outliers": ["python", "numpy scalars"], "first_molecule": ["at the origin", "displaced by %s A" % DISPLACEMENT],
        "not_accepted_or_not_available": REJECTED_REPRESENTATIONS}


def _strip(m):
    return {"els": m["els"], "X": m["X"]}


def _has_structural_zero(case):
    sg = _ideal_signs(case["mol2"]["els"], case["mol2"]["X"]) or _ideal_signs(case["mol2"]["els"], case["mol2"]["X"], tol=1e-4)
    return sg is None or any(0 in row for row in sg)


def _allowed_backings(case):
    zero = _has_structural_zero(case)
    return [b for b, spec in BACKINGS.items() if spec["zero_ok"] or not zero]


def rep_variant(case, rrng, max_frames=None):
    """the same trajectory case in another input representation (seed-chosen)"""
    if any(tag in case.get("cls", "") for tag in ("_huge_radii", "_tiny_first_shell")):
        return None      # PDB columns / XTC integers do not hold 1e5 A; the extreme grids keep the in-memory representation
    backs = [b for b in _allowed_backings(case) if b != "memory"]
    rep = {"backing": rrng.choice(backs + ["DCD", "memory"]),
           "disp": DISPLACEMENT if rrng.random() < 0.7 else None,
           "full_array": rrng.choice(FULL_ARRAY_FORMS), "second": rrng.choice(["universe", "atomgroup"]),
           "scalars": rrng.choice(["python", "numpy"])}
    c = {**case, "rep": rep}
    if max_frames and "placements" in c:
        c["placements"] = c["placements"][:max_frames]
    return c


def fixed_sweep_cases():
    """two small fixed cases (independent of VERIF_SEED) in every accepted representation: every backing with the first
    molecule at the origin and rigidly displaced, every full_array form / AtomGroup / numpy scalars"""
    import random
    frng = random.Random("C11-representations-fixed")
    base = []
    mol = gen_molecule(frng, "generic")
    g = {"type": "raw", **raw_grid(frng, 5, 6, 3, 6.0)}
    _, og, bg, tg = grid_arrays(g)
    base.append({"kind": "traj", "grid": g, "mol1": FIRST_MOL, "mol2": _strip(mol), "cls": "generic_repsweep",
                 "placements": placements(frng, og, bg, tg, 6, far_ok=True), "outliers": False, "cartesian": True})
    water = {"els": ["O", "H", "H"], "X": [[0.0, 0.0, 0.0], [0.8, 0.6, 0.0], [-0.8, 0.6, 0.0]]}
    g = {"type": "name", "b": "cube4D_8", "o": "ico_12", "t": "[0.2, 0.3, 0.4]"}
    _, og, bg, tg = grid_arrays(g)
    base.append({"kind": "traj", "grid": g, "mol1": FIRST_MOL, "mol2": water, "cls": "c2v_planar_repsweep",
                 "placements": placements(frng, og, bg, tg, 6, far_ok=True), "outliers": True, "cartesian": False})
    for i, c in enumerate(base):
        for b in _allowed_backings(c):
            # first case: first molecule at the origin AND displaced; second case: displaced (every on-the-fly transformed
            # frame read costs ~20 ms in MDAnalysis/threadpoolctl, so the sweep is kept small)
            for disp in ((None, DISPLACEMENT) if i == 0 else (DISPLACEMENT,)):
                if b == "memory" and disp is None:
                    continue
                yield {**c, "rep": {"backing": b, "disp": disp}}
        for fa in FULL_ARRAY_FORMS[1:]:
            yield {**c, "rep": {"backing": "memory", "disp": DISPLACEMENT, "full_array": fa}}
        yield {**c, "rep": {"backing": "memory", "disp": DISPLACEMENT, "second": "atomgroup"}}
        yield {**c, "rep": {"backing": "DCD", "disp": DISPLACEMENT, "scalars": "numpy", "second": "atomgroup", "full_array": "F"}}


# ------------------------------------------------------------------------------------------------------------------
# implementation
# ------------------------------------------------------------------------------------------------------------------
def impl(case):
    kind = case["kind"]
    try:
        if kind == "dirs":
            return impl_dirs(case)
        if kind == "tassign":
            return impl_tassign(case)
        if kind == "oassign":
            return impl_oassign(case)
        if kind == "between":
            from molgri.space.translations import get_between_radii
            with core.quiet():
                return {"B": [float(x) for x in get_between_radii(np.array(case["t"], dtype=float))]}
        if kind == "compose":
            return impl_compose(case)
        if kind == "traj":
            return impl_traj(case)
    except Exception as e:  # the library's exception is the observable
        return {"err": core.errname(e), "msg": str(e)[:200]}
    raise core.HarnessError(f"unknown case kind {kind}")


def impl_dirs(case):
    from molgri.molecules.transitions import AssignmentTool
    sc = case.get("scale", 1.0)
    pos = np.array(case["signs"], dtype=float) * sc
    fake = FakeGroup(pas=np.eye(3), com=np.zeros(3), positions=pos)
    with core.quiet():
        d = _unit_tool()._determine_positive_directions(fake)
    return {"dirs": [int(x) for x in d]}


_UNIT_TOOL = []


def _unit_tool():
    """one REAL AssignmentTool per process for the unit-level calls: the methods are called on an object built by the
    class's own __init__ (never on None or a bare namespace), so that a refactoring that moves part of a method into a
    helper method or precomputes something in __init__ is not mistaken for a change of behaviour"""
    if not _UNIT_TOOL:
        with core.quiet():
            _UNIT_TOOL.append(_real_tool([1.0], [[1.0, 0.0, 0.0]], True, True))
    return _UNIT_TOOL[0]


def _real_tool(t, o, outliers, cartesian):
    """a REAL AssignmentTool (constructed by its own __init__, so that anything it precomputes there exists) on a
    two-atom dummy universe and the full grid {t} x {o} x {identity}; only its per-frame functions are then called with a
    stand-in atom group that supplies the centre of mass"""
    from molgri.molecules.transitions import AssignmentTool
    full = np.array([list(r * np.asarray(ov, dtype=float)) + [0.0, 0.0, 0.0, 1.0] for r in t for ov in o])
    u = universe(["C", "O"], [[[0.0, 0.0, 0.0], [1.0, 0.0, 0.0]]])
    ref = universe(["O"], [[[0.0, 0.0, 0.0]]])
    at = AssignmentTool(full, u, ref, include_outliers=outliers, cartesian_grid=cartesian)
    return at


def impl_tassign(case):
    c = np.zeros(3)
    c[case["axis"]] = case["d"]
    with core.quiet():
        at = _real_tool(case["t"], [[1.0, 0.0, 0.0]], case["outliers"], True)
        if len(at.t_array) != len(case["t"]) or not np.array_equal(at.t_array, np.array(case["t"], dtype=float)):
            return {"skip": "8-decimal rounding of the parser changed a radius"}
        r = at._t_assignment_function(FakeGroup(com=c))
    return {"t": None if (isinstance(r, float) and math.isnan(r)) else int(r)}


def impl_oassign(case):
    with core.quiet():
        at = _real_tool([1.0], case["o"], True, case["cartesian"])
        at.o_array = np.array(case["o"], dtype=float)      # exactly the generated unit vectors (the parser re-normalises them)
        r = at._o_assignment_function(FakeGroup(com=np.array(case["c"], dtype=float)))
    r = np.asarray(r).flatten()
    return {"o": int(r[0]), "len": int(len(r))}


def impl_compose(case):
    """the two composing methods of the real class, with the three component assignments supplied"""
    from molgri.molecules.transitions import AssignmentTool
    t = np.array([np.nan if v is None else float(v) for v in case["t"]]) if None in case["t"] else np.array(case["t"])
    with core.quiet():
        self_ = _real_tool([1.0], [[1.0, 0.0, 0.0]], True, True)     # a real object; only the three component getters
    self_.o_array = np.zeros((case["nO"], 3))                        # and the two grid arrays are replaced on the instance
    self_.b_array = np.zeros((case["nB"], 4))
    self_._get_t_assignments = lambda: t
    self_._get_o_assignments = lambda: np.array(case["o"])
    self_._get_quaternion_assignments = lambda: np.array(case["b"])
    with core.quiet():
        a = np.asarray(self_.get_full_assignments(), dtype=float)
    return {"full": [None if np.isnan(v) else (int(v) if float(v).is_integer() else float(v)) for v in a]}


def build_frames(case, full):
    """frames of the two-molecule universe for the case's placements (own placing, float64 -> float32)"""
    X1 = np.array(case["mol1"]["X"], dtype=float)
    X2 = np.array(case["mol2"]["X"], dtype=float)
    c1 = com_of(case["mol1"]["els"], X1)
    c2 = com_of(case["mol2"]["els"], X2)
    frames = []
    for p in case["placements"]:
        Rm = quat_to_matrix(p["q"])
        frames.append(np.vstack([X1, (X2 - c2) @ Rm.T + np.array(p["c"]) + c1]))
    return frames


# input representations of one and the same trajectory / grid / reference molecule (all accepted by the public API).
# precision = coordinate quantum of the format in A (the oracle's margins are widened by it); zero_ok = fine enough for
# molecules with structurally zero projections (the zero test of the sign fixing is 5e-4 A).
BACKINGS = {
    "memory": {"ext": None, "kw": {}, "precision": 0.0, "zero_ok": True},
    "DCD": {"ext": "dcd", "kw": {}, "precision": 0.0, "zero_ok": True},                  # float32, like memory
    "LAMMPS_DCD": {"ext": "lammps", "kw": {}, "precision": 0.0, "zero_ok": True},
    "TRR": {"ext": "trr", "kw": {}, "precision": 2e-6, "zero_ok": True},                  # float32 in nm
    "XTC_p6": {"ext": "xtc", "kw": {"precision": 6}, "precision": 1e-5, "zero_ok": True},
    "XTC_default": {"ext": "xtc", "kw": {}, "precision": 1e-2, "zero_ok": False},         # 1e-3 nm
    "XYZ": {"ext": "xyz", "kw": {}, "precision": 1e-5, "zero_ok": True},
    "PDB_multiframe": {"ext": "pdb", "kw": {"multiframe": True}, "precision": 1e-3, "zero_ok": False},
    "NCDF": {"ext": "ncdf", "kw": {}, "precision": 0.0, "zero_ok": True},
    "CHAIN_TRR": {"ext": "trr", "kw": {}, "precision": 2e-6, "zero_ok": True, "chain": True},  # two files, ChainReader
}
FULL_ARRAY_FORMS = ["C", "F", "readonly", "strided"]
DISPLACEMENT = [11.0, -7.5, 4.25]
# representations the unchanged tree does not accept / does not satisfy the property with (established by
# /tmp-free probing in probe_representations(); listed in the evidence, left out of the sweep)
REJECTED_REPRESENTATIONS = {
    "full_array float32": "rejected by the unchanged tree: from_full_array_to_o_b_t de-duplicates rows rounded to 8 decimals, float32 "
                          "copies of one direction differ by ~6e-8, so o_array gets extra rows (e.g. 15 instead of 6) and every "
                          "index is off - explained by the precision of the representation, not judged",
    "full_array longdouble": "rejected by the unchanged tree: scipy Rotation raises ValueError (Buffer dtype mismatch, expected "
                             "'const double' but got 'long double')",
    "multi-frame GRO": "not a representation here: MDAnalysis' GROWriter/GROReader handle a single frame",
    "H5MD / TNG / LAMMPSDUMP / TRJ / MDCRD": "no writer available offline in this environment (h5py, pytng missing; read-only formats)",
}


def _full_array_form(full, form):
    full = np.array(full, dtype=np.float64)
    if form == "F":
        return np.asfortranarray(full)
    if form == "readonly":
        a = full.copy()
        a.setflags(write=False)
        return a
    if form == "strided":
        big = np.zeros((full.shape[0] * 2, full.shape[1] * 2))
        big[::2, ::2] = full
        return big[::2, ::2]
    if form == "float32":
        return full.astype(np.float32)
    if form == "longdouble":
        return full.astype(np.longdouble)
    return full


def _rebacked(u, els, backing, tmpdir):
    """the same trajectory, backed by a file of the given format (same in-memory topology)"""
    import MDAnalysis as mda
    spec = BACKINGS[backing]
    if spec["ext"] is None:
        return u
    n = len(u.trajectory)
    parts = [(0, n)]
    if spec.get("chain") and n >= 2:
        parts = [(0, n // 2), (n // 2, n)]
    paths = []
    for i, (a, b) in enumerate(parts):
        path = os.path.join(tmpdir, f"traj_{i}.{spec['ext']}")
        with mda.Writer(path, n_atoms=len(els), **spec["kw"]) as W:
            for ts in u.trajectory[a:b]:
                W.write(u.atoms)
        paths.append(path)
    u2 = universe(els, [u.trajectory[0].positions.copy()])
    u2.load_new(paths if len(paths) > 1 else paths[0])
    if len(u2.trajectory) != n:
        raise core.HarnessError(f"{backing}: wrote {n} frames, re-read {len(u2.trajectory)}")
    return u2


def impl_traj(case):
    import shutil
    import tempfile
    import warnings
    rep = case.get("rep") or {}
    tmpdir = tempfile.mkdtemp(prefix="c11_") if rep.get("backing", "memory") != "memory" else None
    try:
        with warnings.catch_warnings():
            warnings.simplefilter("ignore")      # MDAnalysis' DCDReader announces a future API change on every open
            return _impl_traj(case, rep, tmpdir)
    finally:
        if tmpdir:
            shutil.rmtree(tmpdir, ignore_errors=True)


def _impl_traj(case, rep, tmpdir):
    from molgri.molecules.transitions import AssignmentTool
    full, og, bg, tg = grid_arrays(case["grid"])
    els1, els2 = case["mol1"]["els"], case["mol2"]["els"]
    ref = universe(els2, [case["mol2"]["X"]])
    with core.quiet():
        if case.get("pt"):
            from molgri.molecules.pts import Pseudotrajectory
            # the package's reader centres both molecules (OneMoleculeReader(center_com=True)); so do we
            m1 = universe(els1, [np.array(case["mol1"]["X"]) - com_of(els1, case["mol1"]["X"])])
            u = Pseudotrajectory(m1, ref, full).get_pt_as_universe()
            ref = universe(els2, [case["mol2"]["X"]])
            frames0 = None
        else:
            frames0 = build_frames(case, full)
            u = universe(list(els1) + list(els2), frames0)
        if rep.get("disp"):
            # the whole two-molecule system rigidly displaced (the first molecule is no longer at the origin)
            fr = np.array([ts.positions.copy() for ts in u.trajectory], dtype=np.float64) + np.array(rep["disp"])
            u = universe(list(els1) + list(els2), fr)
        u = _rebacked(u, list(els1) + list(els2), rep.get("backing", "memory"), tmpdir)
        full_in = _full_array_form(full, rep.get("full_array", "C"))
        second = ref.atoms if rep.get("second") == "atomgroup" else ref
        kw = {"include_outliers": case["outliers"], "cartesian_grid": case["cartesian"]}
        if rep.get("scalars") == "numpy":
            kw["include_outliers"] = np.bool_(case["outliers"])
            kw["stop"] = np.int64(len(u.trajectory))
        at = AssignmentTool(full_in, u, second, **kw)
    out = {"n": len(u.trajectory),
           "grid": {"t": [float(x) for x in at.t_array], "o": np.asarray(at.o_array, dtype=float).tolist(),
                    "b": np.asarray(at.b_array, dtype=float).tolist()},
           "masses": [float(x) for x in ref.atoms.masses],
           "refpos": ref.atoms.positions.astype(float).tolist(),
           "refpa": np.asarray(ref.atoms.principal_axes(), dtype=float).tolist()}
    # the whole thing, as a user calls it
    try:
        with core.quiet():
            a = at.get_full_assignments()
        out["full"] = [None if (isinstance(v, float) and math.isnan(v)) or (hasattr(v, "dtype") and np.isnan(v)) else int(v) for v in np.asarray(a).tolist()]
        out["full_exact_int"] = bool(all((v is None) or float(v).is_integer() for v in
                                         [None if np.isnan(x) else x for x in np.asarray(a, dtype=float)]))
    except Exception as e:
        out["full"] = {"err": core.errname(e), "msg": str(e)[:160]}
    # the pieces, frame by frame (same objects, same methods)
    try:
        with core.quiet():
            rd = at._determine_positive_directions(ref)
        out["refdir"] = [int(x) for x in rd]
    except Exception as e:
        out["refdir"] = {"err": core.errname(e)}
        rd = None
    ag = at.trajectory_universe.select_atoms(at.second_molecule_selection)
    frames = []
    for k in range(out["n"]):
        at.trajectory_universe.trajectory[k]
        f = {"pos": ag.positions.astype(float).tolist(), "pa": np.asarray(ag.principal_axes(), dtype=float).tolist()}
        com = np.asarray(ag.center_of_mass(), dtype=float)
        f["com"] = com.tolist()
        f["d"] = float(np.linalg.norm(com))
        from molgri.space.utils import normalise_vectors
        with np.errstate(all="ignore"):
            f["nu"] = float(np.linalg.norm(normalise_vectors(com[np.newaxis, :])))
        with core.quiet():
            try:
                r = at._t_assignment_function(ag)
                f["t"] = None if (isinstance(r, float) and math.isnan(r)) else int(r)
            except Exception as e:
                f["t"] = {"err": core.errname(e)}
            try:
                f["o"] = int(np.asarray(at._o_assignment_function(ag)).flatten()[0])
            except Exception as e:
                f["o"] = {"err": core.errname(e)}
            try:
                f["dirs"] = [int(x) for x in at._determine_positive_directions(ag)]
            except Exception as e:
                f["dirs"] = {"err": core.errname(e)}
            if rd is not None and isinstance(f["dirs"], list):
                Mk = at._complex_mdanalysis_func(k, ag, rd)
                f["P"] = (np.asarray(Mk, dtype=float) @ np.linalg.inv(np.asarray(out["refpa"]).T)).tolist()
        frames.append(f)
    out["frames"] = frames
    return out


# ------------------------------------------------------------------------------------------------------------------
# model
# ------------------------------------------------------------------------------------------------------------------
def model_ops(case, out):
    kind = case["kind"]
    if kind == "dirs":
        sc = case.get("scale", 1.0)
        # the implementation rounds sign*scale to 6 decimals; the model gets the resulting sign pattern through its own
        # threshold rule on the same numbers
        sg = [[_sgn_thr(s * sc) for s in row] for row in case["signs"]]
        return [{"op": "dirs", "signs": sg}]
    if kind == "tassign":
        return [{"op": "tassign", "t": rv(case["t"]), "d": R(case["d"]), "outliers": case["outliers"]}]
    if kind == "oassign":
        c = np.array(case["c"], dtype=float)
        d = float(np.linalg.norm(c))
        o = np.array(case["o"], dtype=float)
        u = c / d
        return [{"op": "oassign", "o": rm(o), "onorm": rv(np.linalg.norm(o, axis=1)), "c": rv(c), "d": R(d),
                 "nu": R(float(np.linalg.norm(u))), "cartesian": case["cartesian"]}]
    if kind == "between":
        return [{"op": "between", "t": rv(case["t"])}]
    if kind == "compose":
        return [{"op": "compose", "t": t, "o": o, "b": b, "no": case["nO"], "nb": case["nB"]}
                for t, o, b in zip(case["t"], case["o"], case["b"])]
    if kind == "traj":
        if "err" in out and "grid" not in out:
            return []
        g = out["grid"]
        o = np.array(g["o"], dtype=float)
        frames = [{"pos": rm(f["pos"]), "pa": rm(f["pa"]), "d": R(f["d"]), "nu": R(f["nu"])} for f in out["frames"]]
        ops = [{"op": "traj", "thr": core.rat(THR), "t": rv(g["t"]), "o": rm(o),
                "onorm": rv(np.linalg.norm(o, axis=1)), "b": rm(g["b"]), "masses": rv(out["masses"]),
                "refpos": rm(out["refpos"]), "refpa": rm(out["refpa"]), "outliers": case["outliers"],
                "cartesian": case["cartesian"], "frames": frames}]
        # index composition on the implementation's own component results
        return ops
    raise core.HarnessError("unknown kind")


def _sgn_thr(x):
    return 1 if x > float(THR) else (-1 if x < -float(THR) else 0)


# ------------------------------------------------------------------------------------------------------------------
# correspondence
# ------------------------------------------------------------------------------------------------------------------
def compare(ctx, case, out, mouts):
    kind = case["kind"]
    ctx.branch("kind:" + kind)
    if kind == "dirs":
        m = mouts[0]
        iv = out.get("dirs", out.get("err"))
        mv = m.get("ok", m.get("err"))
        if iv != mv:
            ctx.corr("positive_directions", case, iv, mv)
        ctx.branch("dirs:" + ("error" if "err" in out else "ok"))
        if len(case["signs"]) == 3 and "err" not in out and 0 in case["signs"][0] and 0 in case["signs"][1]:
            ctx.sample({**case, "directions": out["dirs"]}, limit=1)
        ctx.nt(("dirs", str(case["signs"]), case.get("scale", 1.0)))
        return
    if kind == "tassign":
        m = mouts[0]
        if "skip" in out:
            ctx.branch("tassign:skipped_radii_not_recovered_bitwise")
            return
        iv = out["t"] if "t" in out else {"err": out["err"]}
        mv = m["ok"] if "ok" in m else {"err": m["err"]}
        if not case.get("dyadic") and len(case["t"]) >= 2:
            # generic floats: within a few ulp of an exact boundary the float evaluation of the code may fall on either side
            tq = [Fraction(x) for x in case["t"]]
            Bq = [(a + b) / 2 for a, b in zip(tq, tq[1:])] + [tq[-1] + (tq[-1] - tq[-2]) / 2]
            dq = Fraction(case["d"])
            if any(abs(dq - b) <= Fraction(1, 10 ** 12) * max(1, b) for b in Bq):
                ctx.branch("tassign:float_boundary_fuzz_excluded")
                return
        if iv != mv:
            ctx.corr("t_assignment", case, iv, mv)
        ctx.branch("tassign:" + ("err" if "err" in out else "nan" if out["t"] is None else "idx"))
        if case.get("dyadic") and len(case["t"]) >= 3:
            ctx.sample({**case, "assigned": out.get("t")}, limit=2)
        ctx.nt(("t", str(case["t"]), case["d"], case["outliers"]))
        return
    if kind == "between":
        m = mouts[0]
        if "err" in out or "err" in m:
            if out.get("err") != m.get("err"):
                ctx.corr("between_radii/outcome", case, out, m)
            ctx.branch("between:error")
            return
        Bm = [float(core.unrat(x)) for x in m["ok"]]
        if len(Bm) != len(out["B"]) or any(not core.close(a, b, rel=1e-13, abs_=1e-15) for a, b in zip(out["B"], Bm)):
            ctx.corr("between_radii", case, out["B"], Bm)
        ctx.nt(("between", str(case["t"])))
        return
    if kind == "compose":
        mv = [m.get("ok") if "ok" in m else {"err": m["err"]} for m in mouts]
        if "err" in out or out["full"] != mv:
            ctx.corr("index_composition", case, out, mv)
        ctx.nt(("compose", str(case)))
        return
    if kind == "oassign":
        m = mouts[0]
        if "err" in out:
            ctx.corr("o_assignment/outcome", case, out, m)
            return
        if "err" in m:
            ctx.corr("o_assignment/outcome", case, out, m)
            return
        fr = m["ok"]
        gap = float(core.unrat(fr["ogap"])) if fr["ogap"] is not None else 1.0
        if gap < 1e-9:
            ctx.branch("oassign:tie_excluded")
            return
        if fr["o"] != out["o"] or out["len"] != 1:
            ctx.corr("o_assignment", case, out, fr["o"])
        ctx.nt(("o", str(case["c"]), len(case["o"]), case["cartesian"]))
        return
    compare_traj(ctx, case, out, mouts)


def model_outcome(case, out, M):
    """what get_full_assignments should do according to the model: list of indices / an exception name"""
    if "err" in M["refdir"]:
        # the radial phase runs first: an IndexError there (n_t = 1) would win; the generator has n_t >= 2
        return {"err": M["refdir"]["err"]}
    errs = [f["err"] for f in M["frames"] if "err" in f]
    if errs:
        return {"err": "IndexError" if "IndexError" in errs else errs[0]}
    return [f["ok"]["idx"] for f in M["frames"]]


def compare_traj(ctx, case, out, mouts):
    if "grid" not in out:
        ctx.corr("traj/setup_failed", case, out, None)
        return
    res = mouts[0]
    if "err" in res:
        raise core.HarnessError(f"driver rejected traj op: {res}")
    M = res["ok"]
    # external parameter check: grid arrays parsed by from_full_array_to_o_b_t == the grid's own arrays (property C09)
    full, og, bg, tg = grid_arrays(case["grid"])
    g = out["grid"]
    if (len(g["t"]) != len(tg) or len(g["o"]) != len(og) or len(g["b"]) != len(bg)
            or not np.allclose(g["t"], tg, atol=2e-8) or not np.allclose(g["o"], og, atol=2e-8)
            or not np.allclose(g["b"], bg, atol=2e-8)):
        ctx.branch("external:grid_parse_differs")
    # reference directions
    iv = out["refdir"]
    mv = M["refdir"]["ok"] if "ok" in M["refdir"] else {"err": M["refdir"]["err"]}
    if iv != mv:
        ctx.corr("reference_directions", case, iv, mv)
    exp = model_outcome(case, out, M)
    full_i = out["full"]
    if isinstance(exp, dict) or isinstance(full_i, dict):
        a = exp.get("err") if isinstance(exp, dict) else "ok"
        b = full_i.get("err") if isinstance(full_i, dict) else "ok"
        if a != b:
            ctx.corr("full_assignments/outcome", case, full_i if isinstance(full_i, dict) else "ok", exp if isinstance(exp, dict) else "ok")
        ctx.branch("traj:raises_" + str(b))
    nO, nB = len(g["o"]), len(g["b"])
    for k, (fi, fm) in enumerate(zip(out["frames"], M["frames"])):
        if "err" in fm:
            # the model raises in this frame: the implementation's piece must raise the same
            pieces = [fi.get("t"), fi.get("dirs")]
            names = [p["err"] for p in pieces if isinstance(p, dict)]
            if "P" in fi:
                # directions fine but a left-handed matrix: scipy raises in from_matrix
                detP = float(np.linalg.det(np.array(fi["P"])))
                if detP <= 0:
                    names.append("ValueError")
            if fm["err"] not in names:
                ctx.corr("frame/outcome", {**case, "frame": k}, names, fm["err"])
            ctx.branch("frame:model_raises_" + fm["err"])
            continue
        fm = fm["ok"]
        tie_t = fm["tgap"] is not None and float(core.unrat(fm["tgap"])) < 1e-9 * max(1.0, fi["d"])
        edge_t = (not case["outliers"]) and fm["outer"] is not None and abs(float(core.unrat(fm["outer"])) - fi["d"]) < 1e-9 * max(1.0, fi["d"])
        tie_o = fm["ogap"] is not None and float(core.unrat(fm["ogap"])) < 1e-9
        tie_b = fm["bgap"] is not None and float(core.unrat(fm["bgap"])) < 1e-8
        thr_edge = any(abs(abs(float(np.dot(np.array(fi["pa"])[i], np.array(p) - np.array(fi["com"])))) - float(THR)) < 1e-11
                       for p in fi["pos"] for i in range(3))
        if thr_edge:
            ctx.branch("frame:rounding_threshold_excluded")
            continue
        cm = [float(core.unrat(x)) for x in fm["com"]]
        if not np.allclose(cm, fi["com"], rtol=1e-12, atol=1e-12):
            ctx.corr("center_of_mass", {**case, "frame": k}, fi["com"], cm)
        if not (tie_t or edge_t) and fi["t"] != fm["t"]:
            ctx.corr("t_assignment", {**case, "frame": k}, fi["t"], fm["t"])
        if not tie_o and fi["o"] != fm["o"]:
            ctx.corr("o_assignment", {**case, "frame": k}, fi["o"], fm["o"])
        if fi["dirs"] != fm["dirs"]:
            ctx.corr("positive_directions", {**case, "frame": k}, fi["dirs"], fm["dirs"])
        elif "P" in fi:
            Pm = np.array([[float(core.unrat(x)) for x in r] for r in fm["P"]])
            if not np.allclose(Pm, np.array(fi["P"]), rtol=0, atol=1e-9):
                ctx.corr("rotation_from_axes", {**case, "frame": k}, fi["P"], Pm.tolist())
        if isinstance(full_i, list) and not (tie_t or edge_t or tie_o or tie_b):
            if full_i[k] != fm["idx"]:
                ctx.corr("full_assignment", {**case, "frame": k}, full_i[k], fm["idx"])
            elif fm["idx"] is not None:
                # index decomposition of the implementation's number: b, o, t of the model
                v = full_i[k]
                if (v % nB, (v // nB) % nO, v // (nB * nO)) != (fm["b"], fm["o"], fm["t"]):
                    ctx.corr("index_decomposition", {**case, "frame": k}, v, [fm["t"], fm["o"], fm["b"]])
        elif not isinstance(full_i, list):
            ctx.branch("frame:in_a_trajectory_that_raised")
        else:
            ctx.branch("frame:tie_excluded_from_correspondence")
            for nm, fl in (("t", tie_t), ("outer", edge_t), ("o", tie_o), ("b", tie_b)):
                if fl:
                    ctx.branch("frame:tie_" + nm)
        if tuple(fm["dirs"]) != tuple(M["refdir"]["ok"]):
            ctx.branch("frame:axis_flipped")
        # which atom decided the directions / whether the table was used
        sg = fm["signs"]
        first = next((i for i, s in enumerate(sg) if 0 not in s), None)
        ctx.branch("frame:decided_by_atom_%s" % (first if first is not None else "last+table"))


# ------------------------------------------------------------------------------------------------------------------
# oracle: the property's own statement on the implementation
# ------------------------------------------------------------------------------------------------------------------
def oracle(ctx, case, out):
    kind = case["kind"]
    if kind == "dirs":
        return oracle_dirs(ctx, case, out)
    if kind == "tassign":
        return oracle_tassign(ctx, case, out)
    if kind == "oassign":
        if "err" in out:
            ctx.fail("C11:o_exception", f"direction assignment raised {out['err']}", case)
            return
        o = np.array(case["o"], dtype=float)
        c = np.array(case["c"], dtype=float)
        dots = o @ (c / np.linalg.norm(c))
        order = np.argsort(-dots)
        if len(o) > 1 and dots[order[0]] - dots[order[1]] < 1e-9:
            return
        if out["o"] != int(order[0]):
            ctx.fail("C11:nearest_direction", "assigned direction is not the grid direction with the largest dot product",
                     case, int(order[0]), out["o"])
        return
    if kind == "compose":
        if "err" in out:
            ctx.fail("C11:compose_exception", f"index composition raised {out['err']}", case)
            return
        nO, nB = case["nO"], case["nB"]
        for k, (t, o, b) in enumerate(zip(case["t"], case["o"], case["b"])):
            exp = None if t is None else (t * nO + o) * nB + b
            v = out["full"][k]
            if v != exp or (v is not None and (v % nB, (v // nB) % nO, v // (nB * nO)) != (b, o, t)):
                ctx.fail("C11:index_composition", "index is not (t*n_o+o)*n_b+b (NaN for NaN t)", case, exp, v)
                return
        return
    if kind == "between":
        t = case["t"]
        inc_ok = all(b > a for a, b in zip(t, t[1:])) and t[0] >= 0     # the radial parser accepts a zero first radius
        if "err" in out:
            if inc_ok:
                ctx.fail("C11:between_exception", f"between radii raised {out['err']} for increasing radii", case)
            return
        if inc_ok and len(t) >= 2:
            B = own_between(t)
            if len(B) != len(out["B"]) or any(not core.close(a, b, rel=1e-12) for a, b in zip(B, out["B"])):
                ctx.fail("C11:between_radii", "between radii are not the midpoints (+ mirrored last increment)", case, B, out["B"])
        return
    return oracle_traj(ctx, case, out)


def oracle_dirs(ctx, case, out):
    from molgri.molecules.transitions import AssignmentTool
    sc = case.get("scale", 1.0)
    sg = [[_sgn_thr(s * sc) for s in row] for row in case["signs"]]
    determinable = any(sum(1 for s in row if s != 0) >= 2 for row in sg)
    if "err" in out:
        if out["err"] != "ValueError":
            ctx.fail("C11:dirs_exception", f"_determine_positive_directions raised {out['err']}", case)
        elif any(all(x != 0 for x in row) for row in sg):
            ctx.fail("C11:dirs_raises_despite_offplane_atom", "ValueError although an atom has three non-zero projections",
                     case, "directions", "ValueError")
        elif determinable:
            # some atom fixes two axes (the third follows from right-handedness), yet the code gives up
            # (before fix c9b2235 it only looked at the LAST atom when no atom had three non-zero projections)
            ctx.fail("C11:last_atom_on_axis", "ValueError although an atom has non-zero projections on two principal axes",
                     case, "directions", "ValueError")
        return
    d = out["dirs"]
    if any(x not in (-1, 1) for x in d):
        ctx.fail("C11:dirs_not_signs", "returned directions are not all +-1", case, None, d)
        return
    # equivariance under the even sign changes of a right-handed frame: dirs(s * signs) = s * dirs(signs)
    for s in ([-1, -1, 1], [-1, 1, -1], [1, -1, -1]):
        pos = np.array(case["signs"], dtype=float) * sc * np.array(s, dtype=float)
        try:
            with core.quiet():
                d2 = [int(x) for x in _unit_tool()._determine_positive_directions(FakeGroup(np.eye(3), np.zeros(3), pos))]
        except Exception as e:
            ctx.fail("C11:dirs_equivariance", f"raises {core.errname(e)} after flipping two axes", case, None, s)
            return
        if d2 != [a * b for a, b in zip(s, d)]:
            ctx.fail("C11:dirs_equivariance", "flipping two principal axes does not flip the two directions", case,
                     [a * b for a, b in zip(s, d)], d2)
            return


def oracle_tassign(ctx, case, out):
    t, d = case["t"], case["d"]
    if "skip" in out:
        return
    if "err" in out:
        if len(t) >= 2 or case["outliers"]:
            ctx.fail("C11:t_exception", f"radial assignment raised {out['err']}", case)
        return
    if len(t) < 2:
        return
    B = own_between(t)
    # shell containment with the property's boundaries; distances on a boundary (within 1e-12) are left open
    if any(abs(d - b) <= 1e-12 * max(1.0, b) for b in B):
        ctx.branch("tassign:oracle_boundary_excluded")
        if case.get("dyadic") and d == B[-1] and not case["outliers"] and out["t"] is None:
            # the statement: NaN only BEYOND the outermost boundary
            ctx.fail("C11:outer_bound", "a placement exactly on the outermost shell boundary is assigned NaN", case, len(t) - 1, None)
        return
    k = next((i for i, b in enumerate(B) if d < b), None)
    if k is None:
        k = None if not case["outliers"] else len(t) - 1
    if out["t"] != k:
        ctx.fail("C11:shell_containment", "assigned shell is not the one whose boundaries contain the distance", case, k, out["t"])


def oracle_traj(ctx, case, out):
    if "grid" not in out:
        ctx.fail("C11:setup_exception", f"AssignmentTool could not be set up: {out.get('err')}", case)
        return
    full, og, bg, tg = grid_arrays(case["grid"])
    nO, nB, nT = len(og), len(bg), len(tg)
    els2 = case["mol2"]["els"]
    X2 = np.array(case["mol2"]["X"], dtype=float)
    ideal = _ideal_signs(els2, X2) or _ideal_signs(els2, X2, tol=1e-4) or []
    ctx.count(max(0, out.get("n", 1) - 1))      # every frame is one evaluation of the assignment (the case itself counted 1)
    # the decomposition the tool starts from must be the generating grids: n_o directions, n_b rotations, n_t radii
    gi = out["grid"]
    if (len(gi["o"]), len(gi["b"]), len(gi["t"])) != (nO, nB, nT):
        ctx.fail("C11:grid_decomposition", "the o/b/t arrays the tool derives from the full grid do not have n_o/n_b/n_t rows",
                 {**case, "placements": case.get("placements", [])[:1]}, [nO, nB, nT], [len(gi["o"]), len(gi["b"]), len(gi["t"])])
        return
    if not (np.allclose(gi["t"], tg, rtol=1e-9, atol=2e-8) and np.allclose(gi["o"], og, atol=2e-8)
            and np.allclose(gi["b"], bg, atol=2e-8)):
        ctx.fail("C11:grid_decomposition", "the o/b/t arrays the tool derives from the full grid differ from the generating grids",
                 {**case, "placements": case.get("placements", [])[:1]}, {"t": list(map(float, tg))}, {"t": gi["t"]})
        return
    ctx.branch("traj:cls_" + case.get("cls", "?"))
    ctx.branch("traj:grid_" + case["grid"]["type"])
    ctx.branch("traj:outliers_%s" % case["outliers"])
    ctx.branch("traj:metric_" + ("euclidean" if case["cartesian"] else "cos"))
    ctx.branch("traj:nb=%d" % nB)
    ctx.branch("traj:no=%d" % nO)
    ctx.branch("traj:nt=%d" % nT)
    # ---- validation of the external parameter: principal axes right-handed, orthonormal --------------------------
    for f in [{"pa": out["refpa"]}] + out["frames"]:
        A = np.array(f["pa"])
        if abs(np.linalg.det(A) - 1) > 1e-6 or not np.allclose(A @ A.T, np.eye(3), atol=1e-6):
            ctx.branch("external:principal_axes_not_righthanded_orthonormal")
    # ---- sign-noise diagnosis (open finding): does any frame see a sign where the exact geometry has a structural zero?
    noisy_frames = set()
    # since fix c9b2235 the directions must be found whenever some atom has at most one structurally zero projection
    determinable = any(sum(1 for s in row if s == 0) <= 1 for row in ideal)
    for k, f in enumerate([{"pa": out["refpa"], "pos": out["refpos"], "com": com_of(els2, np.array(out["refpos"])).tolist()}] + out["frames"]):
        A = np.array(f["pa"])
        Y = (np.array(f["pos"]) - np.array(f["com"])) @ A.T
        for a, y in enumerate(Y):
            for i in range(3):
                z = (abs(y[i]) <= float(THR) * (1 + 1e-6))
                if a < len(ideal) and ((ideal[a][i] == 0) != z):
                    noisy_frames.add(k - 1)      # -1 = the reference itself
    full_i = out["full"]
    if isinstance(full_i, dict):
        if determinable and full_i["err"] == "ValueError" and isinstance(out["refdir"], dict):
            ctx.fail("C11:last_atom_on_axis", "ValueError although an atom has non-zero projections on two principal axes",
                     case, "assignments", full_i)
        elif noisy_frames and full_i["err"] == "ValueError":
            ctx.fail("C11:sign_noise", "float32 coordinate noise of a structurally zero projection exceeds the rounding of the "
                     "zero test; the frame's directions are taken from another atom / sign than the reference's", case,
                     "assignments", full_i)
        else:
            ctx.fail("C11:exception", f"get_full_assignments raised {full_i['err']}: {full_i.get('msg')}", case, "assignments", full_i)
        return
    if len(full_i) != out["n"]:
        ctx.fail("C11:length", "number of assignments differs from the number of frames", case, out["n"], len(full_i))
        return
    if not out.get("full_exact_int", True):
        ctx.fail("C11:not_integer", "an assignment is neither NaN nor an integer", case)
        return
    rep = case.get("rep") or {}
    prec = BACKINGS[rep.get("backing", "memory")]["precision"]
    if rep.get("disp"):
        prec = max(prec, 2e-6)       # float32 coordinates of the displaced system: ulp 1e-6 at 8..16 A
    ctx.branch("rep:backing_" + rep.get("backing", "memory") + ("_displaced" if rep.get("disp") else ""))
    for k_, dflt in (("full_array", "C"), ("second", "universe"), ("scalars", "python")):
        if rep.get(k_, dflt) != dflt:
            ctx.branch("rep:%s_%s" % (k_, rep[k_]))
    if case.get("pt"):
        # a pseudotrajectory generated from a grid is assigned back to 0,1,2,... exactly
        exp = list(range(len(full)))
        # a shell whose radius is below the float32 resolution of the atom coordinates has no direction in the trajectory:
        # for its frames only shell and rotation are required (counted); every other frame must come back exactly
        unres = [margins(tg[k // (nB * nO)], prec)[1] > O_UNRESOLVABLE for k in exp]
        if any(unres):
            ctx.branch("excluded:pt_direction_unresolvable_in_float32", sum(unres))

        def same(k):
            a = full_i[k]
            if not unres[k]:
                return a == k
            return a is not None and a // (nB * nO) == k // (nB * nO) and a % nB == k % nB
        if not all(same(k) for k in exp):
            bad = [k for k in exp if not same(k)][:5]
            key = "C11:sign_noise" if any(k in noisy_frames or -1 in noisy_frames for k in bad) else "C11:pt_roundtrip"
            ctx.fail(key, "pseudotrajectory of the grid is not assigned back to 0,1,2,...", case,
                     [exp[k] for k in bad], [full_i[k] for k in bad])
        else:
            for k in range(len(exp)):
                ctx.nt((_case_id(case), k))
            ctx.branch("frames:pt_roundtrip", len(exp))
        return
    B = own_between(tg)
    m1, m2 = case["mol1"], case["mol2"]
    c1 = com_of(m1["els"], m1["X"])
    mass2 = masses_of(els2)
    frames = build_frames(case, full)
    n1 = len(m1["els"])
    for k, p in enumerate(case["placements"]):
        # the placement that is actually in the trajectory (float32 coordinates), relative to the first molecule
        pos2 = np.asarray(frames[k][n1:], dtype=np.float32).astype(float)
        c = (mass2[:, None] * pos2).sum(0) / mass2.sum() - c1
        d = float(np.linalg.norm(c))
        q = np.array(p["q"], dtype=float)
        q /= np.linalg.norm(q)
        # validation of the hypothesis `hpa` of sign_fix_recovers_partial / pt_roundtrip on this frame:
        # frame axes = diag(s) * refaxes * R(q)^T with s = +-1, s1*s2*s3 = 1
        S = np.array(out["frames"][k]["pa"]) @ quat_to_matrix(q) @ np.array(out["refpa"]).T
        sd = np.diag(S)
        if not (np.allclose(np.abs(S), np.eye(3), atol=max(1e-4, 200 * F32 * d)) and np.prod(np.sign(sd)) > 0):
            ctx.branch("external:principal_axes_not_equivariant_up_to_even_flips")
        else:
            ctx.branch("external:principal_axes_hypothesis_validated")
        # radial
        mt, mo, mb = margins(d, prec)
        excluded = False
        if min(abs(d - b) for b in B) < mt:
            ctx.branch("excluded:radial_boundary")
            excluded = True
        kt = next((i for i, b in enumerate(B) if d < b), None)
        if kt is None and case["outliers"]:
            kt = nT - 1
        # direction
        dots = og @ (c / d)
        oo = np.argsort(-dots)
        o_unres = mo > O_UNRESOLVABLE
        if o_unres:
            ctx.branch("excluded:direction_unresolvable_in_float32")
        elif nO > 1 and dots[oo[0]] - dots[oo[1]] < mo:
            ctx.branch("excluded:direction_boundary")
            excluded = True
        # rotation
        ad = np.abs((bg / np.linalg.norm(bg, axis=1)[:, None]) @ q)
        bo = np.argsort(-ad)
        if nB > 1 and ad[bo[0]] - ad[bo[1]] < mb:
            ctx.branch("excluded:rotation_boundary")
            excluded = True
        if excluded:
            continue
        if o_unres:
            # only shell and rotation can be required of this frame
            obs = full_i[k]
            ok = (obs is None) if kt is None else (obs is not None and obs // (nB * nO) == kt and obs % nB == int(bo[0]))
            if not ok:
                ctx.fail("C11:membership", "assigned shell / rotation differ from geometric membership (direction not "
                         "resolvable in float32, not required)", {**case, "placements": [p], "frame_of_original": k},
                         [kt, None, int(bo[0])], obs)
            else:
                ctx.nt((_case_id(case), k))
                ctx.branch("frames:shell_and_rotation_only")
            continue
        exp = None if kt is None else (kt * nO + int(oo[0])) * nB + int(bo[0])
        ctx.branch("frames:nan_expected" if exp is None else "frames:cell_expected")
        if kt is not None:
            ctx.branch("frames:shell_%d_of_%d" % (kt, nT))
        obs = full_i[k]
        if obs != exp:
            what = []
            if obs is None or exp is None:
                what.append("NaN/outer bound")
            else:
                if obs // (nB * nO) != kt:
                    what.append("shell")
                if (obs // nB) % nO != int(oo[0]):
                    what.append("direction")
                if obs % nB != int(bo[0]):
                    what.append("rotation")
            key = "C11:membership"
            if (k in noisy_frames or -1 in noisy_frames) and what == ["rotation"]:
                key = "C11:sign_noise"
            ctx.fail(key, "assigned cell differs from geometric membership (" + ", ".join(what) + ")",
                     {**case, "placements": [p], "frame_of_original": k}, exp, obs)
        else:
            ctx.nt((_case_id(case), k))
            if k < 1:
                ctx.sample({"grid": case["grid"] if case["grid"]["type"] == "name" else "raw nb=%d no=%d t=%s" % (nB, nO, list(tg)),
                            "mol2": case["mol2"]["els"], "placement": p, "assigned": obs})


def _case_id(case):
    import hashlib
    import json
    return hashlib.sha1(json.dumps(case, sort_keys=True, default=str).encode()).hexdigest()[:12]


# ------------------------------------------------------------------------------------------------------------------
# driver loop (own batching: thousands of unit cases per driver call, a few dozen trajectories per call)
# ------------------------------------------------------------------------------------------------------------------
def _process(ctx, case_iter, workers=0):
    """impl -> model (batched) -> compare + oracle.  `workers` > 0: the trajectory cases of a batch are run in that many
    forked processes (thorough tier); results are consumed in generation order, so the outcome does not depend on it."""
    chunk, weight = [], 0
    pool = None
    if workers:
        import multiprocessing
        from concurrent.futures import ProcessPoolExecutor
        # not daemonic: AssignmentTool opens its own Pool(1)
        pool = ProcessPoolExecutor(max_workers=workers, mp_context=multiprocessing.get_context("fork"))

    def flush():
        nonlocal weight
        if not chunk:
            return
        cs = [c for c in chunk]
        if pool is not None:
            idx = [i for i, c in enumerate(cs) if c["kind"] == "traj"]
            outs = [None] * len(cs)
            for i, o in zip(idx, pool.map(impl, [cs[i] for i in idx])):
                outs[i] = o
            for i, c in enumerate(cs):
                if outs[i] is None:
                    outs[i] = impl(c)
        else:
            outs = [impl(c) for c in cs]
        ops, spans = [], []
        for case, out in zip(cs, outs):
            o = model_ops(case, out)
            spans.append((len(ops), len(ops) + len(o)))
            ops.extend(o)
        mouts = ctx.model(ops)
        for case, out, (a, b) in zip(cs, outs, spans):
            try:
                compare(ctx, case, out, mouts[a:b])
                oracle(ctx, case, out)
            except core.HarnessError:
                raise
            except Exception:
                import traceback
                raise core.HarnessError(f"compare/oracle crashed on {str(case)[:400]}: {traceback.format_exc()}")
        chunk.clear()
        weight = 0

    try:
        for case in case_iter:
            ctx.count()
            chunk.append(case)
            weight += 150 if case["kind"] == "traj" else 1
            if weight >= 6000:
                flush()
            if ctx.time_left() < 0:
                ctx.note("time budget reached; generation stopped early")
                break
        flush()
    finally:
        if pool is not None:
            pool.shutdown()


def run(ctx):
    def all_cases():
        for f in ctx.open_findings + ctx.fixed_findings:
            for c in f.get("cases", []):
                yield c
        yield from cases(ctx)
    _process(ctx, all_cases(), workers=0 if ctx.quick else 8)
    ctx.note("MDAnalysis AtomGroup.principal_axes() is an external parameter of the model; every frame's axes are checked "
             "to be orthonormal and right-handed (branch external:principal_axes_not_righthanded_orthonormal counts failures)")
    ctx.note("limits of the float32 trajectory (not of molgri): (i) a placement / grid shell at a distance below ~4e-6 A has "
             "no resolvable direction in the coordinates - for such frames only shell and rotation are required (branches "
             "excluded:*unresolvable_in_float32); (ii) molecules with structurally zero projections (planar, mirror plane, C2v) "
             "are generated only up to COM distances of 1e3 A: from ~2e3 A on the float32 coordinates (ulp 2.4e-4 A and more) "
             "deform the molecule by about as much as the 5e-4 A zero test of _determine_positive_directions, and the "
             "pseudotrajectory round trip returns wrong rotation indices / raises ValueError there (witness: planar N,F,F, "
             "radii 1850/2775/4626 A, frame 137 assigned 133; reported to the integrator); molecules without "
             "structural zeros are exercised up to 1e5 A with margins widened by the float32 resolution")
    ctx.note("np.linalg.norm (sqrt), scipy Rotation.magnitude (monotone in the trace) and from_full_array_to_o_b_t (C09) "
             "are external parameters; the parsed grid arrays are compared with the grid's own arrays per trajectory")


def replay(ctx, cases_):
    _process(ctx, cases_)
