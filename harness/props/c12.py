"""C12 - MSM transition matrix (molgri.molecules.transitions.window / noncorr_window / MSM)."""
from __future__ import annotations

import itertools
from fractions import Fraction

import numpy as np

import core

RULE = ("exhaustive: every trajectory over {0,1,2,NaN} of length <= L (quick 5, thorough 6) x tau in {1,2,3,7} x both window "
        "modes, then random long trajectories (<= 2000 frames, <= 30 cells, NaN runs, unvisited cells, tau up to 50); "
        "plus sequences of 2-6 requests on ONE MSM object (single lags and get_all_tau arrays with repeated / fractional lags); "
        "the same through 13 input representations of the trajectory (list, tuple, float32/16, long double, int64/32, uint8, "
        "strided / read-only views, column vector) and numpy-integer cell count / lag; "
        "plus LARGE cell counts n in {255..2^22} around 2^8, 2^15, 2^16, 2^17, 2^20 (short trajectories visiting cells 0, n-1, "
        "and cells around 2^16 and n/2; compared sparsely: the model's support entries for n <= 2^17, the exact spec for all); "
        "a case is non-trivial when at least one window is counted; distinct by (trajectory, n, tau, mode)")
CHUNK = 3000
PARALLEL = 12   # thorough tier: fork pool for the implementation side


def cases(ctx):
    alphabet = [0, 1, 2, None]
    Lmax = 5 if ctx.quick else 6
    for L in range(0, Lmax + 1):
        for x in itertools.product(alphabet, repeat=L):
            for tau in (1, 2, 3, 7):
                for nc in (False, True):
                    yield {"kind": "msm", "xs": list(x), "n": 3, "tau": tau, "noncorr": nc}
    # the same exhaustive space through get_all_tau_transition_matrices on ONE object per trajectory (both modes)
    for L in range(0, min(Lmax, 6) + 1):
        for x in itertools.product(alphabet, repeat=L):
            yield {"kind": "msm_hist", "xs": list(x), "n": 3,
                   "calls": [{"f": "all", "taus": [1, 2, 3, 7], "noncorr": False},
                             {"f": "all", "taus": [1, 2, 3, 7], "noncorr": True}]}
    ctx.exhaustive = True
    ctx.extra_cov["exhaustive_scope"] = f"all trajectories over {{0,1,2,NaN}} up to length {Lmax}, tau in {{1,2,3,7}}, both modes"
    rng = ctx.rng
    nrand = 150 if ctx.quick else 3000
    for _ in range(nrand):
        n = rng.choice([1, 2, 3, 5, 8, 13, 30])
        L = rng.choice([0, 1, 2, 3, 10, 50, 200, 2000 if not ctx.quick else 400])
        L = rng.randint(0, L)
        used = rng.randint(1, n)  # some cells never visited
        pn = rng.choice([0.0, 0.05, 0.3])
        sticky = rng.random() < 0.5
        xs, cur = [], rng.randrange(used)
        for _k in range(L):
            if not sticky or rng.random() < 0.3:
                cur = rng.randrange(used)
            xs.append(None if rng.random() < pn else cur)
        tau = rng.choice([1, 1, 2, 3, 5, 7, 10, 50])
        yield {"kind": "msm", "xs": xs, "n": n, "tau": tau, "noncorr": rng.random() < 0.5}
    # histories of calls on ONE MSM object (the matrix must be a function of (trajectory, n, tau, mode) only,
    # whatever was asked of the object before): repeated requests, get_all_tau with repeated / float lags
    for _ in range(60 if ctx.quick else 1200):
        n = rng.choice([2, 3, 5, 8])
        L = rng.randint(0, 60)
        pn = rng.choice([0.1, 0.1, 0.5, 0.85])
        xs = [None if rng.random() < pn else rng.randrange(n) for _k in range(L)]
        calls = []
        for _c in range(rng.randint(2, 6)):
            if rng.random() < 0.6:
                calls.append({"f": "one", "tau": rng.choice([1, 1, 2, 3, 5]), "noncorr": rng.random() < 0.5})
            else:
                taus = [rng.choice([1, 2, 2, 3, 4, 9, 20, 40]) + rng.choice([0, 0, 0.5]) for _t in range(rng.randint(1, 4))]
                calls.append({"f": "all", "taus": taus, "noncorr": rng.random() < 0.5})
        yield {"kind": "msm_hist", "xs": xs, "n": n, "calls": calls}
    # large cell counts ("all cell counts"): flattened (i, j) keys of a vectorised count would exceed 2^16 / 2^31 / 2^32 here
    bigs = [255, 256, 257, 32767, 32768, 46341, 65535, 65536, 65537, 70000, 92682, 131071, 131072]
    huge = [131073, 1 << 20, (1 << 20) + 3, 3000017, 1 << 22]
    for n in bigs + huge + [rng.randint(65537, 131072) for _ in range(3 if ctx.quick else 40)]:
        for rep in range(2 if ctx.quick else 6):
            pool = sorted({0, 1, n - 1, n - 2, n // 2, min(n - 1, 65535), min(n - 1, 65536), min(n - 1, 65537),
                           rng.randrange(n), rng.randrange(n)})
            L = rng.randint(3, 9)
            xs = [None if rng.random() < 0.15 else rng.choice(pool) for _k in range(L)]
            if rep == 0:
                xs = [n - 1, n - 1, 0, n - 1, n - 2, n - 1][:max(3, L)]   # high-index pairs for certain
            tau = rng.choice([1, 1, 2, 3])
            reps = [r for r in ("f64", "f64", "list", "int64", "int32", "f32", "longdouble", "strided") if rep_ok(r, xs)]
            yield {"kind": "msm_big", "xs": xs, "n": n, "tau": tau, "noncorr": rng.random() < 0.5,
                   "model": n <= 131072, "xrep": rng.choice(reps), "npint": rng.random() < 0.3}
    # INPUT REPRESENTATION: the same trajectories as lists, tuples, float32 / float16 / long double / integer arrays,
    # strided and read-only views, a column vector; cell count and lag as numpy integers
    fixed = [[0, 1, None, 2, 1, 0, 0, 2, 1, 1, None, 0], [0, 1, 2, 2, 1, 0, 0, 2, 1, 1, 0], [2, 2, 2, 2], [None, 1, None, 1, 1]]
    for xs in fixed:
        for rep in X_REPS:
            if rep_ok(rep, xs):
                for tau, nc in ((1, False), (2, True), (3, False)):
                    yield {"kind": "msm", "xs": xs, "n": 3, "tau": tau, "noncorr": nc, "xrep": rep, "npint": rep in ("f32", "int64", "list")}
    for _ in range(120 if ctx.quick else 2500):
        n = rng.choice([1, 2, 3, 5, 8, 13, 30])
        L = rng.randint(0, rng.choice([3, 10, 50, 200]))
        used = rng.randint(1, n)
        pn = rng.choice([0.0, 0.0, 0.1, 0.3])
        xs = [None if rng.random() < pn else rng.randrange(used) if rng.random() < 0.8 else n - 1 for _k in range(L)]
        reps = [r for r in X_REPS if rep_ok(r, xs)]
        yield {"kind": "msm", "xs": xs, "n": n, "tau": rng.choice([1, 1, 2, 3, 5, 7]), "noncorr": rng.random() < 0.5,
               "xrep": rng.choice(reps), "npint": rng.random() < 0.3}
    ctx.extra_cov["input_representations"] = {"trajectory": list(X_REPS), "cell_count_and_lag": ["int", "numpy.int64"]}
    # window generator directly, with other steps
    for _ in range(60 if ctx.quick else 600):
        L = rng.randint(0, 40)
        xs = [None if rng.random() < 0.15 else rng.randrange(6) for _k in range(L)]
        yield {"kind": "windows", "xs": xs, "tau": rng.randint(1, 8), "step": rng.randint(1, 8)}


X_REPS = ("f64", "list", "tuple", "f32", "f16", "strided", "readonly", "longdouble", "col2d",
          "int64", "int32", "uint8", "listint")
NONAN_REPS = ("int64", "int32", "uint8", "listint")


def rep_ok(rep, xs):
    """can the trajectory be written in this representation without changing a value?"""
    top = max([v for v in xs if v is not None], default=0)
    if rep in NONAN_REPS and None in xs:
        return False
    if rep == "f32":
        return top < 2 ** 24
    if rep == "f16":
        return top <= 2048
    if rep == "uint8":
        return top <= 255
    if rep == "int32":
        return top < 2 ** 31
    return True


def traj_in(xs, rep):
    """the assigned trajectory `xs` (None = NaN) in one of the representations MSM accepts on the unchanged tree"""
    f = [float("nan") if v is None else float(v) for v in xs]
    if rep == "f64":
        return np.array(f, dtype=float)
    if rep == "list":
        return [float("nan") if v is None else v for v in xs]          # Python ints and NaN mixed
    if rep == "tuple":
        return tuple(f)
    if rep == "f32":
        return np.array(f, dtype=np.float32)
    if rep == "f16":
        return np.array(f, dtype=np.float16)
    if rep == "strided":
        return np.repeat(np.array(f, dtype=float), 2)[::2]
    if rep == "readonly":
        a = np.array(f, dtype=float)
        a.setflags(write=False)
        return a
    if rep == "longdouble":
        return np.array(f, dtype=np.longdouble)
    if rep == "col2d":
        return np.array(f, dtype=float).reshape(-1, 1)
    if rep == "int64":
        return np.array(xs, dtype=np.int64)
    if rep == "int32":
        return np.array(xs, dtype=np.int32)
    if rep == "uint8":
        return np.array(xs, dtype=np.uint8)
    if rep == "listint":
        return list(xs)
    raise core.HarnessError(f"unknown trajectory representation {rep}")


def impl(case):
    from molgri.molecules.transitions import MSM, window
    xs = traj_in(case["xs"], case.get("xrep", "f64"))
    if case.get("npint"):
        case = dict(case, n=np.int64(case["n"]), tau=np.int64(case["tau"]) if "tau" in case else None)
    try:
        with core.quiet():
            if case["kind"] == "msm":
                T = MSM(xs, case["n"]).get_one_tau_transition_matrix(case["tau"], case["noncorr"])
                return {"T": T.toarray().tolist(), "shape": list(T.shape)}
            elif case["kind"] == "msm_big":
                T = MSM(xs, case["n"]).get_one_tau_transition_matrix(case["tau"], case["noncorr"]).tocoo()
                acc = {}
                for i, j, v in zip(T.row.tolist(), T.col.tolist(), T.data.tolist()):
                    acc[(i, j)] = acc.get((i, j), 0.0) + v      # coo may hold duplicates: they add up
                return {"entries": sorted([i, j, v] for (i, j), v in acc.items() if v != 0), "shape": list(T.shape)}
            elif case["kind"] == "msm_hist":
                obj = MSM(xs, case["n"])
                res = []
                for c in case["calls"]:
                    if c["f"] == "one":
                        T = obj.get_one_tau_transition_matrix(c["tau"], c["noncorr"])
                        res.append({"tau": int(c["tau"]), "noncorr": c["noncorr"], "T": T.toarray().tolist()})
                    else:
                        Ts = obj.get_all_tau_transition_matrices(np.array(c["taus"]), noncorrelated_windows=c["noncorr"])
                        for tau, T in zip(c["taus"], Ts):
                            res.append({"tau": int(tau), "noncorr": c["noncorr"], "T": T.toarray().tolist()})
                return {"hist": res}
            else:
                return {"w": [list(w) for w in window(xs, case["tau"], case["step"])]}
    except Exception as e:
        return {"err": core.errname(e)}


def model_ops(case, out):
    if case["kind"] == "msm_hist":
        if "err" in out:
            return []
        return [{"op": "msm", "xs": case["xs"], "n": case["n"], "tau": r["tau"], "noncorr": r["noncorr"]} for r in out["hist"]]
    if case["kind"] == "msm":
        return [{"op": "msm", "xs": case["xs"], "n": case["n"], "tau": case["tau"], "noncorr": case["noncorr"]}]
    if case["kind"] == "msm_big":
        if not case["model"]:
            return []
        return [{"op": "msm_sparse", "xs": case["xs"], "n": case["n"], "tau": case["tau"], "noncorr": case["noncorr"]}]
    return [{"op": "windows", "xs": case["xs"], "tau": case["tau"], "step": case["step"]}]


def compare(ctx, case, out, mouts):
    if case["kind"] == "msm_hist":
        if "err" in out:
            ctx.corr("msm_hist/outcome", case, out, "ok")
            return
        n = case["n"]
        for k, (r, m) in enumerate(zip(out["hist"], mouts)):
            if "err" in m:
                ctx.corr("msm_hist/outcome", case, r, m)
                return
            M = [[float(core.unrat(v)) for v in row] for row in m["ok"]]
            T = np.array(r["T"]).reshape(n, n)
            if not np.allclose(T, np.array(M).reshape(n, n), rtol=1e-14, atol=0):
                ctx.corr(f"msm_hist/result_{k}", case, {"call": k, "tau": r["tau"], "noncorr": r["noncorr"], "T": r["T"]}, M)
                return
        ctx.branch("history")
        if any(any(any(v != 0 for v in row) for row in r["T"]) for r in out["hist"]):
            ctx.nt(("hist", tuple(case["xs"]), repr(case["calls"])))
        return
    if case["kind"] == "msm_big":
        ctx.branch("large_cell_count" if case["model"] else "large_cell_count_oracle_only")
        if not case["model"]:
            return
        m = mouts[0]
        if "err" in out or "err" in m:
            if out.get("err") != m.get("err"):
                ctx.corr("msm_big/outcome", case, out, m)
            return
        if out["shape"] != [case["n"], case["n"]]:
            ctx.corr("msm_big/shape", case, out["shape"], [case["n"], case["n"]])
            return
        me = sorted({(e[0], e[1], core.unrat(e[2])) for e in m["ok"]})
        ie = out["entries"]
        if [(e[0], e[1]) for e in ie] != [(e[0], e[1]) for e in me]:
            ctx.corr("msm_big/pattern", case, [e[:2] for e in ie], [list(e[:2]) for e in me])
            return
        for a, b in zip(ie, me):
            if not core.close(a[2], float(b[2]), rel=1e-14, abs_=0):
                ctx.corr("msm_big/entry", case, a, [b[0], b[1], str(b[2])])
                return
        if ie:
            ctx.nt((tuple(case["xs"]), case["n"], case["tau"], case["noncorr"]))
        return
    m = mouts[0]
    if "err" in out or "err" in m:
        if out.get("err") != m.get("err"):
            ctx.corr("msm/outcome", case, out, m)
        ctx.branch("error_case")
        return
    if case["kind"] == "windows":
        if [list(p) for p in m["ok"]] != out["w"]:
            ctx.corr("window", case, out["w"], m["ok"])
        if out["w"]:
            ctx.nt(("w", tuple(case["xs"]), case["tau"], case["step"]))
        return
    T = out["T"]
    M = [[core.unrat(v) for v in row] for row in m["ok"]]
    n = case["n"]
    if out["shape"] != [n, n]:
        ctx.corr("msm/shape", case, out["shape"], [n, n])
        return
    for i in range(n):
        for j in range(n):
            # entries are ratios of small integers: 1 ulp
            if not core.close(T[i][j], float(M[i][j]), rel=1e-14, abs_=0):
                ctx.corr("msm/entry", case, {"i": i, "j": j, "value": T[i][j]}, {"value": str(M[i][j])})
                return
    if any(any(v != 0 for v in r) for r in M):
        ctx.nt((tuple(case["xs"]), n, case["tau"], case["noncorr"]))
        ctx.branch("nonzero_matrix")
    else:
        ctx.branch("zero_matrix")
    if "xrep" in case:
        ctx.branch(f"rep:trajectory={case['xrep']}" + ("+numpy_int_args" if case.get("npint") else ""))
    if len(case["xs"]) <= case["tau"]:
        ctx.branch("traj_not_longer_than_tau")
    if None in case["xs"]:
        ctx.branch("has_nan")
    ctx.sample(case) if len(case["xs"]) in (4, 6) and case["tau"] == 2 and None in case["xs"] else None


def spec(xs, n, tau, noncorr):
    """the statement of C12, evaluated in exact arithmetic"""
    L = len(xs)
    step = tau if noncorr else 1
    c = [[0] * n for _ in range(n)]
    k = 0
    while k < L - tau:
        a, b = xs[k], xs[k + tau]
        if a is not None and b is not None:
            c[a][b] += 1
        k += step
    T = [[Fraction(0)] * n for _ in range(n)]
    w = [sum(c[i][k] + c[k][i] for k in range(n)) for i in range(n)]
    for i in range(n):
        for j in range(n):
            if w[i]:
                T[i][j] = Fraction(c[i][j] + c[j][i], w[i])
    return T, w


def oracle(ctx, case, out):
    if case["kind"] == "msm_hist":
        if "err" in out:
            ctx.fail("C12:exception", f"a call in a history raised {out['err']}", case)
            return
        n = case["n"]
        for k, r in enumerate(out["hist"]):
            S, _w = spec(case["xs"], n, r["tau"], r["noncorr"])
            Sf = np.array([[float(v) for v in row] for row in S]).reshape(n, n)
            if not np.allclose(np.array(r["T"]).reshape(n, n), Sf, rtol=1e-13, atol=0):
                ctx.fail("C12:entry_formula_history", f"result {k} of a sequence of requests on one MSM object (tau={r['tau']}, "
                         f"non-overlapping={r['noncorr']}) differs from (c_ij+c_ji)/sum_k(c_ik+c_ki)", case, Sf.tolist(), r["T"])
                return
        return
    if case["kind"] == "msm_big":
        if "err" in out:
            ctx.fail("C12:exception", f"transition matrix raised {out['err']}", case)
            return
        n, tau = case["n"], case["tau"]
        xs, step = case["xs"], (case["tau"] if case["noncorr"] else 1)
        c = {}
        k = 0
        while k < len(xs) - tau:
            a, b = xs[k], xs[k + tau]
            if a is not None and b is not None:
                c[(a, b)] = c.get((a, b), 0) + 1
            k += step
        sym, w = {}, {}
        for (a, b), v in c.items():
            sym[(a, b)] = sym.get((a, b), 0) + v
            sym[(b, a)] = sym.get((b, a), 0) + v
        for (a, b), v in sym.items():
            w[a] = w.get(a, 0) + v
        want = sorted([a, b, float(Fraction(v, w[a]))] for (a, b), v in sym.items())
        got = out["entries"]
        if out["shape"] != [n, n] or [e[:2] for e in got] != [e[:2] for e in want] or \
                any(abs(g[2] - x[2]) > 1e-13 * abs(x[2]) for g, x in zip(got, want)):
            ctx.fail("C12:entry_formula_large_n", f"n={n}: non-zero entries differ from (c_ij+c_ji)/sum_k(c_ik+c_ki)", case, want, got)
            return
        rows = {}
        for i, _j, v in got:
            rows[i] = rows.get(i, 0.0) + v
        for i, sv in rows.items():
            if abs(sv - 1) > 1e-12:
                ctx.fail("C12:row_sum", f"row {i} of a visited cell sums to {sv}", case)
                return
        return
    if case["kind"] != "msm":
        return
    if "err" in out:
        ctx.fail("C12:exception", f"transition matrix raised {out['err']}", case)
        return
    n = case["n"]
    T = np.array(out["T"])
    S, w = spec(case["xs"], n, case["tau"], case["noncorr"])
    Sf = np.array([[float(v) for v in r] for r in S]).reshape(n, n)
    if not np.allclose(T, Sf, rtol=1e-13, atol=0):
        ctx.fail("C12:entry_formula", "entry differs from (c_ij+c_ji)/sum_k(c_ik+c_ki)", case, Sf.tolist(), T.tolist())
        return
    rs = T.sum(axis=1)
    for i in range(n):
        if w[i] and abs(rs[i] - 1) > 1e-12:
            ctx.fail("C12:row_sum", f"row {i} of a visited cell sums to {rs[i]}", case)
            return
        if not w[i] and np.any(T[i] != 0):
            ctx.fail("C12:unvisited_row", f"row {i} of an unvisited cell is not zero", case)
            return
    if np.any(T < 0) or np.any(T > 1):
        ctx.fail("C12:bounds", "entry outside [0,1]", case)
        return
    wa = np.array(w, dtype=float)
    if not np.allclose(wa[:, None] * T, (wa[:, None] * T).T, rtol=1e-12, atol=1e-12):
        ctx.fail("C12:detailed_balance", "w_i T_ij != w_j T_ji", case)
        return
    if not case["noncorr"]:
        from molgri.molecules.transitions import MSM
        xs = np.array([np.nan if v is None else float(v) for v in case["xs"]][::-1], dtype=float)
        with core.quiet():
            Tr = MSM(xs, n).get_one_tau_transition_matrix(case["tau"], False).toarray()
        if not np.allclose(T, Tr, rtol=1e-13, atol=0):
            ctx.fail("C12:reversal", "sliding-window matrix changes when the trajectory is reversed", case, T.tolist(), Tr.tolist())
