"""C13 - merging and deleting cells (molgri.molecules.rate_merger, SQRA.cut_and_merge)."""
from __future__ import annotations

import itertools

import numpy as np

import core

RULE = ("histories of merge/delete operations threaded through the returned index list. Exhaustive part: generic matrices whose "
        "off-diagonal entries are distinct powers of two (every block sum identifies the original entries in it), plain / "
        "symmetrised / zero-row-sum variants, all set partitions as join lists (also permuted, duplicated, split forms), all "
        "deletion sets, all operation sequences up to a bounded length (quick: n<=3 length<=3, n=4 length<=2; thorough: n<=4 "
        "length<=3, n=5 length<=2). Random part: sizes up to 40 (CPython set order wraps from n>=9), up to 8 operations, join "
        "lists with repeats, overlaps, already merged / already deleted members, dense and csr; the same histories with the matrix in "
        "14 representations (int / Fortran / strided dense, csr incl. unsorted and explicit zeros, csc, coo incl. duplicates, lil, "
        "dok, csr_matrix, np.matrix) and join / deletion lists as lists, tuples, arrays, numpy integers, sets, and (with a threaded "
        "index list) single-pass iterables: generators, map / zip objects, lists of iterators, frozensets; cut_and_merge with all four "
        "limit combinations. A case is non-trivial when at least one operation changes the matrix size; distinct by (matrix, ops).")
CHUNK = 1500


# ------------------------------------------------------------------------------------------------
# inputs
# ------------------------------------------------------------------------------------------------
def generic_matrix(n: int, variant: str) -> np.ndarray:
    M = np.zeros((n, n))
    k = 0
    for i in range(n):
        for j in range(n):
            if i != j:
                M[i, j] = float(2 ** k)
                k += 1
    if variant == "sym":
        M = M + M.T
    if variant in ("zrs", "sym"):
        M = M - np.diag(M.sum(axis=1))
    else:  # plain: arbitrary diagonal, rows do not sum to zero
        M = M + np.diag([float(3 ** (i + 1)) for i in range(n)])
    return M


def set_partitions(items):
    items = list(items)
    if not items:
        yield []
        return
    first, rest = items[0], items[1:]
    for p in set_partitions(rest):
        yield [[first]] + p
        for i in range(len(p)):
            yield p[:i] + [[first] + p[i]] + p[i + 1:]


def join_forms(p, rng):
    """a partition as join lists: non-singleton blocks, plus a permuted / duplicated / split form"""
    blocks = [b for b in p if len(b) > 1]
    yield blocks
    if blocks:
        perm = [list(reversed(b)) for b in reversed(blocks)]
        yield perm
        yield blocks + [[b[0], b[-1], b[0]] for b in blocks]
        split = []
        for b in blocks:
            split += [[x, y] for x, y in zip(b, b[1:])]
        rng.shuffle(split)
        yield split + [[b[0]] for b in p if len(b) == 1][:1]


def all_ops(n, rng, forms=True):
    ops = []
    for p in set_partitions(range(n)):
        for J in (join_forms(p, rng) if forms else [[b for b in p if len(b) > 1]]):
            ops.append({"k": "merge", "J": J})
    for r in range(0, n + 1):
        for R in itertools.combinations(range(n), r):
            ops.append({"k": "delete", "R": list(R)})
    # de-duplicate
    seen, out = set(), []
    for o in ops:
        key = repr(o)
        if key not in seen:
            seen.add(key)
            out.append(o)
    return out


DENSE_REPS = ("dense", "int", "fortran", "strided")
MAT_REPS = DENSE_REPS + ("csr", "csr_unsorted", "csr_zeros", "csc", "coo", "coo_dup", "lil", "dok", "csr_matrix", "np_matrix")
J_REPS = ("list", "tuple", "arr", "2d", "npint", "gen", "map", "zip", "iters", "frozenset")
SINGLE_PASS = ("gen", "map", "zip", "iters", "frozenset")   # accepted once an index list is threaded (the first call deep-copies)
R_REPS = ("list", "tuple", "arr", "npint", "set")


def mat_in(M, rep):
    """the matrix `M` (integer valued, float64) in the requested representation; every one of them is accepted by
    merge_matrix_cells / delete_rate_cells on the unchanged tree and denotes the same matrix"""
    from scipy import sparse
    if rep == "dense":
        return M.copy()
    if rep == "int":
        return M.astype(np.int64)
    if rep == "fortran":
        return np.asfortranarray(M)
    if rep == "strided":
        big = np.zeros((2 * M.shape[0], 2 * M.shape[1]))
        big[::2, ::2] = M
        return big[::2, ::2]
    if rep == "csr":
        return sparse.csr_array(M)
    if rep == "csr_unsorted":
        A = sparse.csr_array(M)
        for i in range(A.shape[0]):                      # reverse the column order inside every row
            a, b = A.indptr[i], A.indptr[i + 1]
            A.indices[a:b] = A.indices[a:b][::-1].copy()
            A.data[a:b] = A.data[a:b][::-1].copy()
        A.has_sorted_indices = False
        return A
    if rep == "csr_zeros":
        n = M.shape[0]
        r, c = np.nonzero(np.ones_like(M))
        return sparse.csr_array((M[r, c], (r, c)), shape=(n, n))     # explicit zeros stored
    if rep == "csc":
        return sparse.csc_array(M)
    if rep == "coo":
        return sparse.coo_array(M)
    if rep == "coo_dup":
        A = sparse.coo_array(M)
        h = A.data / 2.0                                  # halves of integers are exact: every entry split in two
        return sparse.coo_array((np.concatenate([h, A.data - h]),
                                 (np.concatenate([A.row, A.row]), np.concatenate([A.col, A.col]))), shape=M.shape)
    if rep == "lil":
        return sparse.lil_array(M)
    if rep == "dok":
        return sparse.dok_array(M)
    if rep == "csr_matrix":
        return sparse.csr_matrix(M)
    if rep == "np_matrix":
        return np.matrix(M)
    raise core.HarnessError(f"unknown matrix representation {rep}")


def joins_in(J, rep, threaded=True):
    if rep in SINGLE_PASS and not threaded:
        rep = "list"
    if rep == "gen":
        return (list(x) for x in J)
    if rep == "map":
        return map(list, J)
    if rep == "zip":
        if J and all(len(x) == 2 for x in J):
            return zip([x[0] for x in J], [x[1] for x in J])
        return (tuple(x) for x in J)
    if rep == "iters":
        return [iter(list(x)) for x in J]
    if rep == "frozenset":
        return [frozenset(x) for x in J]
    if rep == "list":
        return [list(x) for x in J]
    if rep == "tuple":
        return tuple(tuple(x) for x in J)
    if rep == "arr":
        return [np.array(x, dtype=np.int64) for x in J]
    if rep == "2d":
        if J and len({len(x) for x in J}) == 1 and len(J[0]) > 0:
            return np.array([list(x) for x in J])
        return [np.array(x, dtype=np.int32) for x in J]
    if rep == "npint":
        return [[np.int64(v) if k % 2 else np.int32(v) for k, v in enumerate(x)] for x in J]
    raise core.HarnessError(f"unknown join-list representation {rep}")


def dels_in(R, rep):
    if rep == "list":
        return list(R)
    if rep == "tuple":
        return tuple(R)
    if rep == "arr":
        return np.array(list(R), dtype=np.int64)
    if rep == "npint":
        return [np.int64(v) for v in R]
    if rep == "set":
        return set(R)
    raise core.HarnessError(f"unknown deletion-list representation {rep}")


def cases(ctx):
    rng = ctx.rng
    plan = [(2, 3), (3, 3), (4, 2)] if ctx.quick else [(2, 4), (3, 3), (4, 3), (5, 2)]
    for n, maxlen in plan:
        ops1 = all_ops(n, rng, forms=(n <= 3 or not ctx.quick))
        ops_plain = all_ops(n, rng, forms=False)
        for L in range(1, maxlen + 1):
            pool = ops1 if L <= 2 and n <= 4 else ops_plain
            seqs = itertools.product(pool, repeat=L)
            for seq in seqs:
                variant = ("gen", "sym", "zrs")[rng.randrange(3)] if L > 1 else None
                for v in ([variant] if variant else ["gen", "sym", "zrs"]):
                    yield {"kind": "hist", "n": n, "variant": v, "sparse": rng.random() < 0.5, "ops": list(seq)}
    ctx.exhaustive = True
    ctx.extra_cov["exhaustive_scope"] = f"all op sequences (n, max length) in {plan} over all set partitions and deletion sets"
    # random larger histories
    nrand = 400 if ctx.quick else 6000
    for _ in range(nrand):
        n = rng.choice([1, 2, 3, 5, 8, 9, 10, 12, 14, 17, 25, 40])
        M = [[rng.randint(0, 5) if rng.random() < 0.6 else 0 for _j in range(n)] for _i in range(n)]
        sym = rng.random() < 0.4
        zrs = rng.random() < 0.6
        for i in range(n):
            for j in range(n):
                if sym and j < i:
                    M[i][j] = M[j][i]
        for i in range(n):
            M[i][i] = -sum(M[i][j] for j in range(n) if j != i) if zrs else rng.randint(-3, 3)
        ops = []
        for _s in range(rng.randint(1, 8)):
            if rng.random() < 0.6:
                J = [[rng.randrange(n) for _k in range(rng.randint(1, 5))] for _l in range(rng.randint(0, 4))]
                ops.append({"k": "merge", "J": J})
            else:
                how = rng.random()
                if how < 0.2:  # delete almost everything (exercises the set-order wrap)
                    keep = set(rng.sample(range(n), min(n, rng.randint(0, 3))))
                    R = [i for i in range(n) if i not in keep]
                else:
                    R = [rng.randrange(n) for _k in range(rng.randint(0, max(1, n // 2)))]
                ops.append({"k": "delete", "R": R})
        yield {"kind": "hist", "A": M, "sparse": rng.random() < 0.5, "ops": ops}
    # INPUT REPRESENTATION: the same histories with the matrix, the join lists and the deletion list handed over in every
    # representation the functions accept on the unchanged tree (the expected result does not depend on it)
    rep_hists = [
        [{"k": "merge", "J": [[0, 2], [3, 4]]}, {"k": "delete", "R": [1]}, {"k": "merge", "J": [[5, 0], [4, 1]]}],
        [{"k": "delete", "R": [2, 4]}, {"k": "merge", "J": [[0, 2, 3], [1, 0, 5]]}, {"k": "delete", "R": [0]}],
    ]
    for ops in rep_hists:
        for variant in ("gen", "zrs"):
            for mrep in MAT_REPS:
                yield {"kind": "hist", "n": 5 if variant == "gen" else 6, "variant": variant, "sparse": mrep not in DENSE_REPS,
                       "ops": ops, "mrep": mrep, "jrep": "list", "rrep": "list"}
        for jrep in J_REPS:
            for rrep in R_REPS:
                mrep = "csr" if jrep in ("arr", "2d", "gen", "iters") else "dense"
                yield {"kind": "hist", "n": 6, "variant": "sym", "sparse": mrep == "csr", "ops": ops,
                       "mrep": mrep, "jrep": jrep, "rrep": rrep}
    for _ in range(60 if ctx.quick else 900):
        n = rng.choice([2, 3, 5, 8, 9, 12, 17])
        M = [[rng.randint(0, 5) if rng.random() < 0.6 else 0 for _j in range(n)] for _i in range(n)]
        for i in range(n):
            M[i][i] = -sum(M[i][j] for j in range(n) if j != i) if rng.random() < 0.6 else rng.randint(-3, 3)
        ops = []
        for _s in range(rng.randint(1, 5)):
            if rng.random() < 0.6:
                ops.append({"k": "merge", "J": [[rng.randrange(n) for _k in range(rng.randint(1, 4))] for _l in range(rng.randint(1, 3))]})
            else:
                ops.append({"k": "delete", "R": [rng.randrange(n) for _k in range(rng.randint(0, max(1, n // 2)))]})
        mrep = rng.choice(MAT_REPS)
        yield {"kind": "hist", "A": M, "sparse": mrep not in DENSE_REPS, "ops": ops, "mrep": mrep,
               "jrep": rng.choice(J_REPS), "rrep": rng.choice(R_REPS)}
    ctx.extra_cov["input_representations"] = {"matrix": list(MAT_REPS), "join_lists": list(J_REPS), "deletion_lists": list(R_REPS)}
    # cut_and_merge
    for _ in range(150 if ctx.quick else 2000):
        n = rng.choice([2, 3, 4, 6, 9, 12, 16])
        pat = [[(i != j and rng.random() < 0.5) for j in range(n)] for i in range(n)]
        for i in range(n):
            for j in range(i):
                pat[i][j] = pat[j][i]
        base = [rng.choice([0.0, 0.0, 1.0, 2.5, 7.0, 30.0]) for _i in range(n)]
        E = [b + rng.choice([0.0, 1e-7, 1e-5, 0.3]) for b in base]
        yield {"kind": "cut", "n": n, "pat": pat, "E": E, "T": rng.choice([200.0, 300.0, 400.0]),
               "lo": rng.choice([None, 1e-3, 1e-2, 0.5]), "hi": rng.choice([None, 0.5, 2.0, 10.0, 100.0]),
               "seedQ": rng.randrange(10 ** 6)}


def matrix_of(case):
    if "A" in case:
        return np.array(case["A"], dtype=float).reshape(len(case["A"]), len(case["A"]))
    return generic_matrix(case["n"], case["variant"])


# ------------------------------------------------------------------------------------------------
# implementation
# ------------------------------------------------------------------------------------------------
def to_int_matrix(A):
    D = A.toarray() if hasattr(A, "toarray") else np.asarray(A)
    D = np.asarray(D, dtype=float)
    if D.ndim != 2:
        D = D.reshape(-1, D.shape[-1]) if D.size else D.reshape(0, 0)
    if not np.all(D == np.round(D)):
        return {"nonint": D.tolist()}
    return [[int(v) for v in row] for row in D]


def norm_idx(il):
    return None if il is None else [[int(c) for c in g] for g in il]


def cut_inputs(case):
    from scipy.sparse import csr_array
    n = case["n"]
    rng = np.random.default_rng(case["seedQ"])
    pat = np.array(case["pat"], dtype=bool)
    h = np.where(pat, 1.0, 0.0)
    Q = np.where(pat, rng.integers(1, 9, size=(n, n)), 0).astype(float)
    Q = Q - np.diag(Q.sum(axis=1))
    return Q, csr_array(h), np.array(case["E"], dtype=float)


def impl(case):
    from scipy.sparse import csr_array
    from molgri.molecules.rate_merger import merge_matrix_cells, delete_rate_cells
    if case["kind"] == "cut":
        from molgri.molecules.transitions import SQRA
        from molgri.molecules.rate_merger import determine_rate_cells_to_join, determine_rate_cells_with_too_high_energy
        Q, h, E = cut_inputs(case)
        try:
            with core.quiet():
                s = SQRA(E, np.ones(case["n"]), h, h)
                A, il = s.cut_and_merge(csr_array(Q), case["T"], case["lo"], case["hi"])
                # the two selectors are parameters of the model: record what they return
                tj = None if case["lo"] is None else [[int(a), int(b)] for a, b in
                                                      determine_rate_cells_to_join(h, E, bottom_treshold=case["lo"], T=case["T"])]
                th = None if case["hi"] is None else [int(x) for x in
                                                      determine_rate_cells_with_too_high_energy(E, energy_limit=case["hi"], T=case["T"])]
            return {"A": to_int_matrix(A), "idx": norm_idx(il), "toJoin": tj, "tooHigh": th, "Q": to_int_matrix(Q)}
        except Exception as e:
            return {"err": core.errname(e)}
    M = matrix_of(case)
    if "mrep" in case:
        A = mat_in(M, case["mrep"])
    else:
        A = csr_array(M) if case["sparse"] else M.copy()
    jrep, rrep = case.get("jrep", "list"), case.get("rrep", "list")
    il = None
    states = []
    for op in case["ops"]:
        try:
            with core.quiet():
                if op["k"] == "merge":
                    A, il = merge_matrix_cells(A, joins_in(op["J"], jrep, threaded=il is not None), index_list=il)
                else:
                    A, il = delete_rate_cells(A, dels_in(op["R"], rrep), index_list=il)
        except Exception as e:
            states.append({"err": core.errname(e)})
            break
        states.append({"A": to_int_matrix(A), "idx": norm_idx(il)})
    return {"states": states, "M": to_int_matrix(M)}


# ------------------------------------------------------------------------------------------------
# model
# ------------------------------------------------------------------------------------------------
def model_ops(case, out):
    if case["kind"] == "cut":
        if "err" in out:
            return [{"op": "closure", "J": []}]
        return [{"op": "cut", "Q": out["Q"], "toJoin": out["toJoin"], "tooHigh": out["tooHigh"]}]
    return [{"op": "run", "A": out["M"], "ops": case["ops"]}]


def compare(ctx, case, out, mouts):
    m = mouts[0]
    if case["kind"] == "cut":
        if "err" in out:
            ctx.branch("cut_error")
            return
        if "err" in m or m["ok"]["A"] != out["A"] or m["ok"]["idx"] != out["idx"]:
            ctx.corr("cut_and_merge", case, {"A": out["A"], "idx": out["idx"]}, m)
        ctx.branch(f"cut_lo={case['lo'] is not None}_hi={case['hi'] is not None}")
        return
    ms = m["ok"]
    ist = out["states"]
    if len(ms) != len(ist):
        ctx.corr("history/length", case, ist, ms)
        return
    for k, (a, b) in enumerate(zip(ist, ms)):
        if a != b:
            ctx.corr(f"history/state_after_op_{k}", case, a, b)
            return
    if any("err" in s for s in ist):
        ctx.branch("error_history")
    sizes = [len(s["A"]) for s in ist if "A" in s]
    n0 = len(out["M"])
    if sizes and min(sizes) < n0:
        ctx.nt(core.hashlib.sha256(repr((out["M"], case["ops"])).encode()).hexdigest()[:16])
    ctx.branch(f"len{len(case['ops'])}")
    ctx.branch("sparse" if case["sparse"] else "dense")
    if "mrep" in case:
        ctx.branch(f"rep:matrix={case['mrep']}")
        ctx.branch(f"rep:joins={case['jrep']}")
        ctx.branch(f"rep:deletions={case['rrep']}")
    if len(case["ops"]) == 3 and n0 == 3:
        ctx.sample(case, limit=4)


# ------------------------------------------------------------------------------------------------
# oracle: the set-partition specification of the property
# ------------------------------------------------------------------------------------------------
def spec_apply(groups, op):
    if op["k"] == "delete":
        dead = set(op["R"])
        return [g for g in groups if not (set(g) & dead)]
    groups = [list(g) for g in groups]
    parent = list(range(len(groups)))

    def find(a):
        while parent[a] != a:
            a = parent[a]
        return a
    where = {c: gi for gi, g in enumerate(groups) for c in g}
    for J in op["J"]:
        idx = [where[c] for c in J if c in where]
        for a, b in zip(idx, idx[1:]):
            ra, rb = find(a), find(b)
            if ra != rb:
                parent[max(ra, rb)] = min(ra, rb)
    outg = {}
    for gi, g in enumerate(groups):
        outg.setdefault(find(gi), []).extend(g)
    return sorted([sorted(g) for g in outg.values()], key=lambda g: g[0])


def spec_matrix(M0, groups):
    m = len(groups)
    A = np.zeros((m, m))
    for a in range(m):
        for b in range(m):
            A[a, b] = M0[np.ix_(groups[a], groups[b])].sum()
    return A


def oracle(ctx, case, out):
    if case["kind"] == "cut":
        if "err" in out:
            ctx.fail("C13:cut_exception", f"cut_and_merge raised {out['err']}", case)
            return
        A, il = out["A"], out["idx"]
        if case["lo"] is None and case["hi"] is None:
            if il is not None or A != out["Q"]:
                ctx.fail("C13:cut_table", "no limits: expected the unchanged matrix and no index list", case, None, {"idx": il})
        else:
            if il is None or len(il) != len(A):
                ctx.fail("C13:cut_table", "limits given: expected an index list with one group per row", case,
                         None, {"rows": len(A), "idx": il})
        return
    M0 = np.array(out["M"], dtype=float).reshape(len(out["M"]), len(out["M"]))
    n = len(M0)
    groups = [[i] for i in range(n)]
    any_del = False
    zrs0 = np.all(M0.sum(axis=1) == 0)
    sym0 = np.array_equal(M0, M0.T)
    for k, (op, st) in enumerate(zip(case["ops"], out["states"])):
        if "err" in st:
            if op["k"] == "merge" and any(len(L) == 0 for L in op["J"]) and k == 0:
                return  # networkx rejects an empty join list; outside the property's quantifier
            ctx.fail("C13:exception", f"operation {k} raised {st['err']}", case)
            return
        groups = spec_apply(groups, op)
        any_del |= op["k"] == "delete"
        if st["idx"] != groups:
            ctx.fail("C13:index_list", f"index list after operation {k} is not the expected partition", case, groups, st["idx"])
            return
        A = st["A"]
        if isinstance(A, dict):
            ctx.fail("C13:non_integer", f"non-integer entries after operation {k}", case)
            return
        A = np.array(A, dtype=float).reshape(len(groups), len(groups))
        E = spec_matrix(M0, groups)
        off = ~np.eye(len(groups), dtype=bool)
        if not np.array_equal(A[off], E[off]):
            ctx.fail("C13:block_sums", f"off-diagonal entries after operation {k} are not the block sums of the original matrix",
                     case, E.tolist(), A.tolist())
            return
        if not any_del and not np.array_equal(A, E):
            ctx.fail("C13:block_sums_diag", f"diagonal after merge {k} is not the block sum", case, E.tolist(), A.tolist())
            return
        if (any_del or zrs0) and not np.all(A.sum(axis=1) == 0):
            ctx.fail("C13:row_sums", f"rows do not sum to zero after operation {k}", case, None, A.sum(axis=1).tolist())
            return
        if sym0 and not np.array_equal(A, A.T):
            ctx.fail("C13:symmetry", f"symmetric input became asymmetric after operation {k}", case)
            return
