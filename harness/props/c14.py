"""C14 - saved grid geometry gives a rate matrix stationary at Boltzmann x volume.

Pipeline under test (all real code, real files in a temp dir):
    GridWriter(b, o, t, factor, cartesian).save_*  ->  GridReader().load_*  ->  SQRA(E, V, dist, borders).get_rate_matrix(D, T)
    ->  DecompositionTool(Q).get_decomposition(tol, maxiter, which, sigma, k)

Correspondence (model = lean/Molgri/Model/Pipeline.lean through drivers/C14.lean):
    assemble x3   the model's `_get_N_N` fed the implementation's own sub-grid matrices must reproduce the three saved
                  matrices entry by entry *and in storage order* (exact rationals)
    volumes       `get_total_volumes` from the sub-grid volumes
    rate          the model's `get_rate_matrix` (Float) fed the *file contents* must reproduce the returned csr matrix
    pipeline      the model's whole composition (assembly -> files -> reader -> rate matrix, Float) from the sub-grid inputs
    sorteig       the model's sort fed ARPACK's raw output (tapped at `transitions.eigs`) must reproduce the returned pairs
    io            file-name logic of writer/reader (suffix rules, overwriting, missing files)
Oracle (independent of the model): the statement of C14 evaluated on the implementation's outputs.
"""
from __future__ import annotations

import contextlib
import math
import os
import shutil
import tempfile

import numpy as np

import core

RULE = ("grid cases: b-grid in {1, zero, N, randomQ_N, cube4D_N, fulldiv_8/40} (n_b = 1 or >= 4), o-grid in {ico, cube3D, randomS}_N "
        "(N 4..10, thorough ..30), 2-4 radii given as list / linspace / range (incl. shells of a few hundredths of a nm, where borders "
        "are ~1e-3), spherical and Cartesian position mode, factor in {0.5,1,2,3}, path arguments with and without suffix; per-cell "
        "energies from seeded generators (normal, uniform, smooth, wells, large common offset, all equal, a few beyond the 500 kJ/mol "
        "cap), sigma <= 4 kJ/mol; ramp energies (radial, along the cell index, along graph distance; 9-12 radial layers; range over "
        "the grid 1e3..1e5 kJ/mol as far as the depth allows, i.e. beyond 708*2RT, with every neighbouring difference below the "
        "cap; constant offsets +-1e5): finite entries, pattern, row sums and pairwise log-form detailed balance only; T in [200,400] K, D log-uniform; solver settings (sigma=None,'LR'), (sigma>0,'SR'/'LM'), "
        "(sigma<0,'LM'), (None,'SR'), tol in {1e-10,1e-12,0} (strict) and 1e-5 (workflow default; weak clauses only), k = min(12, n-2); "
        "sort cases: crafted complex solver outputs (unsorted, conjugate pairs, ties) pushed through get_decomposition with the solver "
        "stubbed; io cases: random save/load sequences with and without suffixes, collisions, missing files, wrong loader. "
        "input representations: every grid case hands SQRA / DecompositionTool a seed-chosen representation of the same values "
        "(borders, distances: as read, csr/coo/csc _array, csr/coo/csc/lil _matrix; volumes, energies: float64, non-contiguous and "
        "read-only views; T, D: Python float, np.float64, np.float32, 0-d array; rate matrix: as returned, csr/coo/csc array and matrix, "
        "lil_matrix, dense, np.matrix), and an exhaustive sweep (borders x distances 8 x 8, volumes x energies incl. float32 volumes, "
        "T x D incl. int, matrix x 2 solver settings) runs on two small fixed pipelines with cached geometry; the result must equal "
        "that of the reference representation (1e-12) and satisfy all clauses; representations the unchanged tree rejects are probed "
        "and listed in the evidence. "
        "A grid case is non-trivial when the rate matrix has off-diagonal entries; distinct by all case fields.")
CHUNK = 12
MODEL_MAX_N = 360         # above this size only the oracle runs (interpreted Lean model: ~6 s at n = 300, quadratic)

R_GAS = 8.314462618          # J/(mol K), CODATA 2018 exact (k_B * N_A) - written out, independent of scipy.constants
SELS = (("adjacency", "adjacency"), ("borders", "border_len"), ("distances", "center_distances"))
F11_GRIDS = {("ico", 3), ("ico", 4), ("cube3D", 3), ("cube3D", 4), ("randomS", 4), ("randomS", 5), ("randomS", 6), ("randomS", 7)}

# ------------------------------------------------------------------------------------------------
# tap on the external eigen-solver (no repo change: the module attribute is wrapped by the harness)
# ------------------------------------------------------------------------------------------------


class _EigsTap:
    """Wraps `molgri.molecules.transitions.eigs`: records what ARPACK returned (input of the model's sort) and makes the
    call reproducible: scipy >= 1.15 draws the start vector from OS entropy when neither `v0` nor `rng` is given."""

    def __init__(self):
        self.orig = None
        self.raw = None
        self.kwargs = None
        self.stub = None
        self.rng = 0

    def install(self):
        import molgri.molecules.transitions as TR
        if self.orig is None:
            self.orig = TR.eigs
            TR.eigs = self

    def __call__(self, *args, **kw):
        if self.stub is not None:
            self.kwargs = dict(kw)
            return self.stub
        kw2 = dict(kw)
        if "rng" not in kw2 and kw2.get("v0") is None:
            kw2["rng"] = self.rng
        try:
            r = self.orig(*args, **kw2)
        except TypeError:
            r = self.orig(*args, **kw)
        self.raw = (np.array(r[0]), np.array(r[1]))
        self.kwargs = dict(kw)
        self.args = args
        return r


TAP = _EigsTap()

# ------------------------------------------------------------------------------------------------
# input representations (the values are the same; only the Python / numpy / scipy object handed over differs)
# ------------------------------------------------------------------------------------------------
# Established on the unchanged tree (scipy 1.17.1, numpy 1.26.4): every representation below is accepted by
# SQRA.get_rate_matrix / DecompositionTool.get_decomposition and gives the reference result (bit-identical, or within 1e-15
# where a column-major storage order pairs S_ij with h_ji).  Not in the sweep (probed on every quick run, outcome in the evidence):
REPS_NOT_IN_SWEEP = {
    "borders/distances as dok_array, dok_matrix": "AttributeError: no attribute 'data' (the code divides the .data arrays)",
    "borders/distances as dense ndarray / np.matrix": "AttributeError: no attribute 'tocoo'",
    "volumes or energies as Python list / tuple": "TypeError: only integer scalar arrays can be converted to a scalar index "
                                                  "(self.volumes[transition_matrix.row]); note FullGrid.get_total_volumes() itself returns a list",
    "volumes or energies as column vector (n,1)": "ValueError: non-broadcastable output operand",
    "volumes or energies with dtype=object": "UFuncTypeError / TypeError",
    "energies as float32 (values exactly representable)": "accepted, but the exponent (E_i-E_j)*1000/(2RT) is then evaluated in float32: "
                                                          "rate matrix differs from the float64 result by ~1e-7 relative (single precision)",
    "D as fractions.Fraction / decimal.Decimal / str, T as Decimal / str": "ValueError / TypeError / UFuncTypeError",
    "rate matrix for DecompositionTool as list of lists": "AttributeError: 'list' object has no attribute 'T'",
    "rate matrix for DecompositionTool as float32 sparse": "accepted, single precision result (differs by ~1e-7)",
}
SP_REPS = ("asread", "csr_array", "coo_array", "csc_array", "csr_matrix", "coo_matrix", "csc_matrix", "lil_matrix")
V_REPS = ("float64", "float32", "noncontig", "readonly")          # float32: the values are first made exactly representable
E_REPS = ("float64", "noncontig", "readonly")
SCALAR_REPS = ("pyfloat", "np.float64", "np.float32", "0-d array", "pyint")   # np.float32 / pyint: value made representable first
Q_REPS = ("asreturned", "csr_array", "csr_matrix", "coo_array", "coo_matrix", "csc_array", "csc_matrix", "lil_matrix", "dense", "np.matrix")
DEFAULT_REP = {"B": "asread", "Dm": "asread", "V": "float64", "E": "float64", "T": "pyfloat", "D": "pyfloat", "Q": "asreturned"}


def _rep(case):
    r = dict(DEFAULT_REP)
    r.update(case.get("rep") or {})
    return r


def _scalar_value(x, rep):
    """the value (a Python float) that is handed over in representation `rep`"""
    if rep == "np.float32":
        return float(np.float32(x))
    if rep == "pyint":
        return float(max(1, int(round(x))))
    return float(x)


def _scalar_obj(x, rep):
    v = _scalar_value(x, rep)
    return {"pyfloat": float, "np.float64": np.float64, "np.float32": np.float32, "0-d array": lambda y: np.array(y, dtype=float),
            "pyint": lambda y: int(y)}[rep](v)


def _eff_TD(case):
    r = _rep(case)
    return _scalar_value(case["T"], r["T"]), _scalar_value(case["D"], r["D"])


def _vec_values(x, rep):
    x = np.asarray(x, dtype=np.float64)
    return x.astype(np.float32).astype(np.float64) if rep == "float32" else np.array(x, copy=True)


def _vec_obj(values, rep):
    if rep == "float32":
        return values.astype(np.float32)
    if rep == "noncontig":
        big = np.full(3 * len(values) + 1, -777.0)
        big[1::3] = values
        return big[1::3]
    if rep == "readonly":
        y = np.array(values, copy=True)
        y.setflags(write=False)
        return y
    return np.array(values, copy=True)


def _sp_obj(m, rep):
    from scipy import sparse
    if rep in ("asread", "asreturned"):
        return m.copy()
    if rep == "dense":
        return m.toarray()
    if rep == "np.matrix":
        return np.asmatrix(m.toarray())
    return getattr(sparse, rep)(m)


def _to_dense(m):
    return m.toarray() if hasattr(m, "toarray") else np.asarray(m)


def _random_rep(rng):
    """seed-chosen representation of one pipeline run (value preserving ones only: V stays float64-valued)"""
    r = {"B": rng.choice(SP_REPS), "Dm": rng.choice(SP_REPS), "V": rng.choice(["float64", "noncontig", "readonly"]),
         "E": rng.choice(E_REPS), "T": rng.choice(SCALAR_REPS[:4]), "D": rng.choice(SCALAR_REPS[:4]), "Q": rng.choice(Q_REPS)}
    return r


# the two small fixed pipelines of the exhaustive sweep
SWEEP_PIPES = (
    {"b": "1", "o": "ico_7", "t": "[0.2, 0.3]", "cart": False, "f": 1.0, "T": 300.0, "D": 0.75,
     "E": {"mode": "normal", "sig": 2.0, "seed": 31}},
    {"b": "4", "o": "cube3D_6", "t": "[0.3, 0.5, 0.8]", "cart": True, "f": 2.0, "T": 268.5, "D": 3.0,
     "E": {"mode": "smooth", "sig": 2.5, "seed": 32}},
)
SWEEP_SOLVERS = ({"which": "LM", "sigma_rel": 0.05, "tol": 1e-12}, {"which": "LR", "sigma_rel": None, "tol": 1e-12})


def _sweep_cases():
    """exhaustive over the families on the two fixed pipelines: borders x distances (8 x 8), volumes x energies, T x D,
    matrix handed to DecompositionTool x two solver settings; the remaining choices cycle so that every value occurs"""
    out = []
    for pi, pipe in enumerate(SWEEP_PIPES):
        k = 0

        def mk(rep, solver=SWEEP_SOLVERS[0], **extra):
            c = {"kind": "grid", "light": True, "suffix": False, "solver": dict(solver), **{a: (dict(b) if isinstance(b, dict) else b) for a, b in pipe.items()}}
            c["rep"] = rep
            c.update(extra)
            return c
        out.append(mk(dict(DEFAULT_REP), model=True, probe=(pi == 0)))
        for rb in SP_REPS:
            for rd in SP_REPS:
                k += 1
                out.append(mk({"B": rb, "Dm": rd, "V": V_REPS[k % 4], "E": E_REPS[k % 3], "T": SCALAR_REPS[k % 4], "D": SCALAR_REPS[(k // 4) % 4],
                               "Q": Q_REPS[k % len(Q_REPS)]}))
        for rv in V_REPS:
            for re_ in E_REPS:
                k += 1
                out.append(mk({"B": SP_REPS[k % 8], "Dm": SP_REPS[(k // 2) % 8], "V": rv, "E": re_, "T": "pyfloat", "D": "pyfloat", "Q": "asreturned"},
                              model=(rv == "float32" and re_ == "float64")))
        for rt in SCALAR_REPS:
            for rdd in SCALAR_REPS:
                k += 1
                out.append(mk({"B": SP_REPS[k % 8], "Dm": "asread", "V": "float64", "E": "float64", "T": rt, "D": rdd, "Q": "asreturned"},
                              model=(rt == rdd and rt in ("np.float32", "pyint"))))
        for rq in Q_REPS:
            for sv in SWEEP_SOLVERS:
                k += 1
                out.append(mk({"B": SP_REPS[k % 8], "Dm": SP_REPS[(k + 3) % 8], "V": "float64", "E": "float64", "T": "pyfloat", "D": "pyfloat", "Q": rq}, solver=sv))
    return out


def _probe_rejected():
    """outcome, on the tree under test, of the representations that are *not* part of the sweep (evidence only)"""
    from scipy import sparse
    from molgri.molecules.transitions import SQRA, DecompositionTool
    g = _geometry({**SWEEP_PIPES[0], "suffix": False, "light": True})
    V, B, Dm = np.asarray(g["V"], dtype=float), g["B"], g["Dm"]
    E = np.round(_energies(SWEEP_PIPES[0]["E"], len(V)) * 8) / 8           # exactly representable in float32
    ref = SQRA(E, V, Dm, B).get_rate_matrix(0.75, 300.0).toarray()
    res = {}

    def run(name, f):
        try:
            q = _to_dense(f())
            rel = float(np.abs(q - ref).max() / np.abs(ref).max()) if q.shape == ref.shape else None
            res[name] = "accepted, equal to the reference" if rel == 0 else f"accepted, differs from the reference by {rel:.1e} relative"
        except Exception as e:
            res[name] = f"{type(e).__name__}: {str(e)[:80]}"
    run("borders dok_array", lambda: SQRA(E, V, Dm, sparse.dok_array(B)).get_rate_matrix(0.75, 300.0))
    run("distances dok_matrix", lambda: SQRA(E, V, sparse.dok_matrix(Dm), B).get_rate_matrix(0.75, 300.0))
    run("borders dense ndarray", lambda: SQRA(E, V, Dm, B.toarray()).get_rate_matrix(0.75, 300.0))
    run("distances np.matrix", lambda: SQRA(E, V, np.asmatrix(Dm.toarray()), B).get_rate_matrix(0.75, 300.0))
    run("volumes list", lambda: SQRA(E, [float(x) for x in V], Dm, B).get_rate_matrix(0.75, 300.0))
    run("energies list", lambda: SQRA([float(x) for x in E], V, Dm, B).get_rate_matrix(0.75, 300.0))
    run("volumes tuple", lambda: SQRA(E, tuple(float(x) for x in V), Dm, B).get_rate_matrix(0.75, 300.0))
    run("volumes column (n,1)", lambda: SQRA(E, V.reshape(-1, 1), Dm, B).get_rate_matrix(0.75, 300.0))
    run("energies dtype=object", lambda: SQRA(E.astype(object), V, Dm, B).get_rate_matrix(0.75, 300.0))
    run("energies float32 (multiples of 1/8)", lambda: SQRA(E.astype(np.float32), V, Dm, B).get_rate_matrix(0.75, 300.0))
    run("D fractions.Fraction", lambda: SQRA(E, V, Dm, B).get_rate_matrix(__import__("fractions").Fraction(3, 4), 300.0))
    run("T decimal.Decimal", lambda: SQRA(E, V, Dm, B).get_rate_matrix(0.75, __import__("decimal").Decimal(300)))
    run("T str", lambda: SQRA(E, V, Dm, B).get_rate_matrix(0.75, "300"))
    q = SQRA(E, V, Dm, B).get_rate_matrix(0.75, 300.0)
    try:
        DecompositionTool(q.toarray().tolist()).get_decomposition(tol=1e-12, maxiter=1000, which="LR", sigma=None, k=4)
        res["rate matrix as list of lists"] = "accepted"
    except Exception as e:
        res["rate matrix as list of lists"] = f"{type(e).__name__}: {str(e)[:80]}"
    return res


# ------------------------------------------------------------------------------------------------
# generators
# ------------------------------------------------------------------------------------------------


RAMP_MODES = ("ramp_radial", "ramp_index", "ramp_bfs")


def _ramp_energies(spec, n, G, A, rng):
    """Energies that rise steadily across the grid: the *range* over the whole grid is huge (target `range`, 1e3 .. 1e5 kJ/mol,
    as far as the grid's depth allows) while every pair of *neighbouring* cells stays below the 500 kJ/mol cap (step <= 440
    plus a jitter of +-25), optionally on top of a constant offset of +-1e5 kJ/mol.  exp(-E/RT) is not representable for such
    sets (the range exceeds 708*RT), so everything is checked pairwise / in log form."""
    mode, jit, target = spec["mode"], float(spec["sig"]), float(spec["range"])
    if mode == "ramp_radial":       # level = radial layer of the cell, read off the saved grid
        r = np.round(np.linalg.norm(np.asarray(G)[:, :3], axis=1), 9)
        level = np.searchsorted(np.unique(r), r).astype(float)
    elif mode == "ramp_bfs":        # level = graph distance from a start cell in the saved adjacency
        from scipy.sparse.csgraph import shortest_path
        dist = shortest_path(A, unweighted=True, directed=False, indices=int(rng.integers(n)))
        level = np.where(np.isfinite(dist), dist, 0.0)
    else:                            # ramp along the cell index
        level = np.arange(n, dtype=float)
    if spec.get("down"):
        level = level.max() - level
    # largest level difference between neighbouring cells
    c = A.tocoo()
    dl = float(np.abs(level[c.row] - level[c.col]).max()) if c.nnz else 1.0
    depth = max(float(level.max() - level.min()), 1.0)
    step = min(target / depth, 440.0 / max(dl, 1.0))
    E = step * level + rng.uniform(-jit, jit, n)
    # belt and braces: neighbouring cells stay below the cap whatever the geometry
    if c.nnz:
        md = float(np.abs(E[c.row] - E[c.col]).max())
        if md >= 495.0:
            E = E * (490.0 / md)
    return E + float(spec.get("offset", 0.0))


def _energies(spec, n, G=None, A=None):
    rng = np.random.default_rng([int(spec["seed"]), n])
    mode, sig = spec["mode"], float(spec["sig"])
    if mode in RAMP_MODES:
        return _ramp_energies(spec, n, G, A, rng)
    if mode == "zero":
        return np.zeros(n)
    if mode == "normal":
        return rng.normal(0, sig, n)
    if mode == "uniform":
        return rng.uniform(-sig, sig, n)
    if mode == "smooth":
        return sig * np.sin(0.37 * np.arange(n) + rng.uniform(0, 6)) + rng.normal(0, 0.1 * sig, n)
    if mode == "wells":
        return rng.choice([-2 * sig, 0.0, sig], n) + rng.normal(0, 0.05 * sig, n)
    if mode == "offset":      # absolute potential energies: large common offset, small differences
        return -41234.5678 + rng.normal(0, sig, n)
    if mode == "capped":      # a few cells beyond the 500 kJ/mol cap (LJ overlap)
        E = rng.normal(0, sig, n)
        for _ in range(max(1, n // 20)):
            E[rng.integers(n)] += rng.choice([650.0, 900.0, 5000.0])
        return E
    raise ValueError(mode)


def _t_name(rng, nt):
    style = rng.choice(["list", "list", "linspace", "range", "tiny"])
    if style == "tiny":      # shells of a few hundredths of a nm: borders of 1e-3 .. 1e-2 (truthiness filter near its edge)
        rs = [round(rng.uniform(0.01, 0.03), 3)]
        for _ in range(nt - 1):
            rs.append(round(rs[-1] + rng.uniform(0.004, 0.02), 3))
        return "[" + ", ".join(repr(x) for x in rs) + "]"
    if style == "list":
        r0 = round(rng.uniform(0.1, 1.0), 2)
        rs = [r0]
        for _ in range(nt - 1):
            rs.append(round(rs[-1] + rng.uniform(0.05, 0.6), 2))
        return "[" + ", ".join(repr(x) for x in rs) + "]"
    if style == "linspace":
        a = round(rng.uniform(0.1, 1.0), 2)
        b = round(a + rng.uniform(0.2, 1.5), 2)
        return f"linspace({a}, {b}, {nt})"
    a = rng.randint(1, 3)
    return f"range({a}, {a + nt})"


def _b_name(rng, thorough):
    r = rng.random()
    if r < 0.25:
        return rng.choice(["1", "zero"])
    if r < 0.35:
        return "fulldiv_8" if (not thorough or rng.random() < 0.8) else "fulldiv_40"      # only 8, 40, 272, ... exist
    N = rng.choice([4, 5, 6] + ([7, 8, 9, 12, 17] if thorough else []))
    alg = rng.choice(["", "randomQ_", "cube4D_"])
    return f"{alg}{N}"


def _o_name(rng, thorough, cart):
    Ns = [4, 5, 6, 7, 8, 9, 10] + ([12, 14, 20, 30] if thorough else [])
    N = rng.choice(Ns)
    alg = rng.choice(["", "ico_", "cube3D_", "randomS_"])
    return f"{alg}{N}"


def _solver(rng, strict_only=False):
    r = rng.random()
    tol = rng.choice([1e-10, 1e-12, 0.0]) if (strict_only or rng.random() < 0.8) else 1e-5
    if r < 0.5:
        return {"which": "LR", "sigma_rel": None, "tol": tol}
    if r < 0.65:
        return {"which": "SR", "sigma_rel": rng.choice([0.05, 0.001, 0.3]), "tol": tol}
    if r < 0.8:
        return {"which": "LM", "sigma_rel": rng.choice([0.05, 0.001, 0.3]), "tol": tol}
    if r < 0.9:
        return {"which": "LM", "sigma_rel": -rng.choice([0.31, 0.117]), "tol": tol}
    return {"which": "SR", "sigma_rel": None, "tol": tol}


def _espec(rng):
    mode = rng.choice(["normal", "normal", "uniform", "smooth", "wells", "offset", "zero", "capped"])
    sig = rng.choice([0.3, 1.0, 2.5, 4.0])
    if mode == "capped":
        sig = rng.choice([1.0, 30.0])
    return {"mode": mode, "sig": sig, "seed": rng.randrange(10 ** 6)}


def _ramp_case(rng, thorough, strong=False):
    """many radial layers (9..12), small direction / rotation grids, ramp energies; `strong`: range and temperature such that
    the range certainly exceeds 708*2RT (the point where a per-cell weight exp(-(E-min E)/(2RT)) stops being representable)"""
    nt = 12 if strong else rng.choice([9, 10, 11, 12])
    b = rng.choice(["1", "zero", "1"] if strong else ["1", "zero", "1", "4"] + (["cube4D_5", "randomQ_6"] if thorough else []))
    if b == "4" and not thorough:
        nt = min(nt, 10)            # keeps n <= 360, where the interpreted model still runs
    style = rng.choice(["linspace", "range", "list"])
    if style == "linspace":
        a = round(rng.uniform(0.15, 0.4), 2)
        t = f"linspace({a}, {round(a + 0.09 * nt + rng.uniform(0, 0.5), 2)}, {nt})"
    elif style == "range":
        a = rng.randint(1, 3)
        t = f"range({a}, {a + nt})"
    else:
        rs = [round(rng.uniform(0.15, 0.4), 2)]
        for _ in range(nt - 1):
            rs.append(round(rs[-1] + rng.uniform(0.06, 0.2), 2))
        t = "[" + ", ".join(repr(x) for x in rs) + "]"
    o = rng.choice(["8", "ico_9", "cube3D_8", "randomS_10", "ico_12"] if b in ("1", "zero") else ["8", "cube3D_8", "randomS_9"])
    mode = "ramp_radial" if strong else rng.choice(list(RAMP_MODES))
    spec = {"mode": mode, "sig": 25.0, "range": float(f"{(1e5 if strong else 10 ** rng.uniform(3, 5)):.4g}"),
            "offset": rng.choice([0.0, 0.0, 1e5, -1e5]), "down": rng.random() < 0.5, "seed": rng.randrange(10 ** 6)}
    return {"kind": "grid", "b": b, "o": o, "t": t, "cart": rng.random() < 0.4, "f": rng.choice([0.5, 1.0, 2.0, 3.0]),
            "T": round(rng.uniform(200, 300), 1) if strong else round(rng.uniform(200, 400), 1),
            "D": float(f"{10 ** rng.uniform(-2, 1):.4g}"), "E": spec, "suffix": rng.random() < 0.5, "solver": None,
            "rep": _random_rep(rng)}


def _grid_case(rng, thorough, **fix):
    cart = fix.get("cart", rng.random() < 0.45)
    nt = rng.choice([2, 2, 3, 4])
    c = {"kind": "grid", "b": _b_name(rng, thorough), "o": _o_name(rng, thorough, cart), "t": _t_name(rng, nt), "cart": cart,
         "f": rng.choice([0.5, 1.0, 2.0, 3.0]), "T": round(rng.uniform(200, 400), 1),
         "D": float(f"{10 ** rng.uniform(-2, 1):.4g}"), "E": _espec(rng), "suffix": rng.random() < 0.5}
    c["solver"] = None if c["E"]["mode"] == "capped" else _solver(rng)
    c["rep"] = _random_rep(rng)
    c.update(fix)
    return c


def cases(ctx):
    rng = ctx.rng
    thorough = not ctx.quick
    # input representations: exhaustive sweep over the families on two small fixed pipelines (geometry cached)
    yield from _sweep_cases()
    # structured sweep first: every b-family x o-family x mode at least once (sizes kept small in the quick tier: the
    # interpreted Lean model needs ~5 s for a 300-cell grid)
    combos = []
    for b in (("1", "zero", "4", "randomQ_5", "cube4D_6", "fulldiv_8") if ctx.quick else ("1", "zero", "6", "randomQ_5", "cube4D_8", "fulldiv_8")):
        for o in ("ico_9", "cube3D_8", "randomS_10", "7"):
            combos.append((b, o))
    rng.shuffle(combos)
    n_sweep = 12 if ctx.quick else len(combos)
    for i, (b, o) in enumerate(combos[:n_sweep]):
        fix = {"b": b, "o": o, "cart": bool(i % 2)}
        if ctx.quick and b not in ("1", "zero"):
            fix["t"] = _t_name(rng, 2)
        yield _grid_case(rng, thorough, **fix)
    # always one energy set with differences between 50 and 500 kJ/mol (below the cap, far above RT) and cells beyond the cap
    yield _grid_case(rng, thorough, b=rng.choice(["1", "4"]), o=rng.choice(["ico_7", "cube3D_8", "randomS_9"]),
                     E={"mode": "capped", "sig": 30.0, "seed": rng.randrange(10 ** 6)}, solver=None)
    # ramp energies: range over the grid far beyond 708*RT with all neighbouring differences below the cap
    yield _ramp_case(rng, thorough, strong=True)
    for _ in range(3 if ctx.quick else 30):
        yield _ramp_case(rng, thorough)
    # ARPACK needs k < n-1: small grids exercise the k = n-2 branch of the harness, big ones k = 12
    for _ in range(12 if ctx.quick else 120):
        yield _grid_case(rng, thorough)
    if thorough:
        for b, o, t in (("17", "30", "[0.2, 0.3, 0.45]"), ("cube4D_12", "ico_20", "linspace(0.2, 0.8, 4)"),
                        ("1", "randomS_30", "range(1, 5)"), ("fulldiv_40", "cube3D_6", "[1.0, 1.7]")):
            for cart in (False, True):
                yield _grid_case(rng, thorough, b=b, o=o, t=t, cart=cart)
    # the code after the ARPACK call, on crafted outputs
    for _ in range(150 if ctx.quick else 1000):
        k = rng.randint(1, 12)
        n = rng.randint(1, 6)
        style = rng.choice(["real", "real", "complex", "pairs", "ties"])
        re = [round(rng.uniform(-50, 1), rng.choice([0, 2, 9])) for _ in range(k)]
        im = [0.0] * k
        if style == "complex":
            im = [round(rng.uniform(-1, 1), 3) for _ in range(k)]
        elif style == "pairs":
            for a in range(0, k - 1, 2):
                re[a + 1] = re[a]
                im[a], im[a + 1] = 0.5, -0.5
        elif style == "ties" and k > 1:
            re[rng.randrange(k)] = re[rng.randrange(k)]
        vec = [[[round(rng.uniform(-1, 1), 6), (round(rng.uniform(-1, 1), 6) if style in ("complex", "pairs") else 0.0)]
                for _c in range(k)] for _r in range(n)]
        yield {"kind": "sort", "re": re, "im": im, "vec": vec}
    # file-name logic
    kinds = ["grid", "volumes", "borders", "distances", "adjacency"]
    stems = ["a", "b", "vol", "vol.npy", "vol.npz", "x.npy.npy", "m", "m.npz", "grid.v2", "Z.NPY"]
    for _ in range(100 if ctx.quick else 600):
        saves = [[rng.choice(kinds), rng.choice(stems)] for _ in range(rng.randint(1, 6))]
        loads = []
        for _k in range(rng.randint(1, 6)):
            kd = rng.choice(kinds)
            ext = ".npy" if kd in ("grid", "volumes") else ".npz"
            r = rng.random()
            if r < 0.6:      # the file a save of this kind created
                cand = [s for s in saves if s[0] == kd]
                p = rng.choice(cand)[1] if cand else rng.choice(stems)
                p = p if p.endswith(ext) else p + ext
            elif r < 0.8:    # literal path argument (no suffix added by the reader)
                p = rng.choice(stems)
            else:
                p = rng.choice(stems) + ext
            loads.append([kd, p])
        yield {"kind": "io", "saves": saves, "loads": loads}


# ------------------------------------------------------------------------------------------------
# implementation
# ------------------------------------------------------------------------------------------------
_PATH_STEMS = ("full_array", "volumes", "borders_array", "distances_array", "adjacency_array")
_EXTS = (".npy", ".npy", ".npz", ".npz", ".npz")


def _coo_list(m):
    c = m.tocoo()
    return [int(x) for x in c.row], [int(x) for x in c.col], [float(x) for x in c.data]


def _limit_blas():
    """the matrices are small (n <= ~1500): 16 OpenBLAS threads only add contention on a shared machine"""
    if "done" not in _IO_GW_FLAGS:
        _IO_GW_FLAGS["done"] = True
        try:
            from threadpoolctl import threadpool_limits
            _IO_GW_FLAGS["ctl"] = threadpool_limits(limits=2)
        except Exception:      # optional
            pass


_IO_GW_FLAGS = {}


def impl(case):
    _limit_blas()
    kind = case["kind"]
    if kind == "grid":
        return _impl_grid(case)
    if kind == "sort":
        return _impl_sort(case)
    return _impl_io(case)


_GEOM_CACHE = {}


def _geometry(case):
    """GridWriter -> five files in a temp dir -> GridReader, plus what the writer's grid and its sub-grids return.
    Cases marked "light" (the representation sweep on fixed pipelines) share one cached geometry."""
    from molgri.io import GridWriter, GridReader
    key = (case["b"], case["o"], case["t"], case["cart"], case["f"], bool(case.get("suffix")))
    if case.get("light") and key in _GEOM_CACHE:
        return dict(_GEOM_CACHE[key])
    out = {}
    d = tempfile.mkdtemp(prefix="c14_")
    try:
        try:
            gw = GridWriter(case["b"], case["o"], case["t"], factor=case["f"], position_grid_cartesian=case["cart"])
            fg = gw.fg
            args = [os.path.join(d, s + (e if case.get("suffix") else "")) for s, e in zip(_PATH_STEMS, _EXTS)]
            gw.save_full_grid(args[0])
            gw.save_adjacency_array(args[4])
            gw.save_borders_array(args[2])
            gw.save_distances_array(args[3])
            gw.save_volumes(args[1])
        except Exception as e:
            return {"err": core.errname(e), "stage": "writer", "msg": str(e)[:200]}
        out["files"] = sorted(os.listdir(d))
        tg = [os.path.join(d, s + e) for s, e in zip(_PATH_STEMS, _EXTS)]
        try:
            gr = GridReader()
            G = gr.load_full_grid(tg[0])
            V = gr.load_volumes(tg[1])
            B = gr.load_borders_array(tg[2])
            Dm = gr.load_distances_array(tg[3])
            A = gr.load_adjacency_array(tg[4])
        except Exception as e:
            return {"err": core.errname(e), "stage": "reader", "msg": str(e)[:200], **out}
        out.update(G=G, V=V, B=B, Dm=Dm, A=A)
        # what the writer's grid returns, independently of the files (reader o writer = id)
        out["getters"] = {"G": fg.get_full_grid_as_array(), "V": np.asanyarray(fg.get_total_volumes()),
                          "B": fg.get_full_borders(), "Dm": fg.get_full_distances(), "A": fg.get_full_adjacency()}
        # sub-grid inputs of the model
        n_b = fg.b_rotations.get_N()
        sub = {"nB": int(n_b), "nP": int(len(fg.get_position_grid())), "n_o": int(fg.o_rotations.get_N()),
               "o_alg": fg.o_rotations.algorithm_name, "b_alg": fg.b_rotations.algorithm_name}
        for name, sel in SELS:
            sub["P_" + name] = np.asarray(fg.position_grid._get_N_N_position_array(sel_property=sel).toarray(), dtype=float)
            if n_b > 1:
                sub["R_" + name] = _coo_list(fg.b_rotations.get_spherical_voronoi()._calculate_N_N_array(sel_property=sel))
            else:
                sub["R_" + name] = ([], [], [])
        sub["Vpos"] = [float(x) for x in fg.get_position_grid().get_all_position_volumes()]
        sub["Vrot"] = [float(x) for x in fg.b_rotations.get_spherical_voronoi().get_voronoi_volumes()]
        sub["positions"] = np.asarray(fg.position_grid.get_position_grid_as_array(), dtype=float)
        sub["quats"] = np.asarray(fg.b_rotations.get_grid_as_array(only_upper=True), dtype=float)
        out["sub"] = sub
    finally:
        shutil.rmtree(d, ignore_errors=True)
    if case.get("light"):
        _GEOM_CACHE[key] = dict(out)
    return out


def _impl_grid(case):
    from molgri.molecules.transitions import SQRA, DecompositionTool
    TAP.install()
    with core.quiet():
        out = _geometry(case)
        if "err" in out:
            return out
        if case.get("probe"):
            out["probe"] = _probe_rejected()
        G, V, B, Dm, A = out["G"], out["V"], out["B"], out["Dm"], out["A"]
        n = len(V)
        rep = _rep(case)
        E = _vec_values(_energies(case["E"], n, G=G, A=A), rep["E"])
        Vin = _vec_values(V, rep["V"])                  # the values handed to SQRA (float64 image of them)
        Tval, Dval = _eff_TD(case)
        out.update(E=E, Vin=Vin, Tval=Tval, Dval=Dval)
        nondefault = rep != DEFAULT_REP
        try:
            Q = SQRA(_vec_obj(E, rep["E"]), _vec_obj(Vin, rep["V"]), _sp_obj(Dm, rep["Dm"]), _sp_obj(B, rep["B"])).get_rate_matrix(
                _scalar_obj(case["D"], rep["D"]), _scalar_obj(case["T"], rep["T"]))
        except Exception as e:
            out["rate_err"] = core.errname(e)
            out["rate_msg"] = str(e)[:200]
            if nondefault:      # is it the representation?
                try:
                    SQRA(E, Vin, Dm, B).get_rate_matrix(Dval, Tval)
                    out["rate_err_only_in_rep"] = True
                except Exception:
                    pass
            return out
        out["Q"] = Q
        if nondefault:
            # the same values in the reference representation (what GridReader returns, float64 arrays, Python floats)
            try:
                out["Qref"] = SQRA(np.array(E), np.array(Vin), Dm, B).get_rate_matrix(Dval, Tval)
            except Exception as e:
                out["Qref_err"] = core.errname(e)
        sv = case.get("solver")
        if sv is None or n < 4:
            return out
        k = min(12, n - 2)
        Qd = _to_dense(Q)
        nrm = float(np.abs(Qd).sum(axis=1).max())
        sigma = None if sv["sigma_rel"] is None else float(sv["sigma_rel"]) * nrm
        out.update(k=k, nrm=nrm, sigma=sigma)
        TAP.raw = None
        TAP.stub = None
        TAP.rng = int(case["E"]["seed"]) % 1000
        try:
            ev, evec = DecompositionTool(_sp_obj(Q, rep["Q"])).get_decomposition(tol=sv["tol"], maxiter=100000, which=sv["which"],
                                                                                  sigma=sigma, k=k)
            out["ev"], out["evec"], out["raw"] = np.array(ev), np.array(evec), TAP.raw
            A0 = TAP.args[0] if getattr(TAP, "args", None) else None
            out["eigs_call"] = {"kw": {a: (None if b is None else (b if isinstance(b, str) else float(b))) for a, b in (TAP.kwargs or {}).items()},
                                "n_pos": len(TAP.args),
                                "A_is_QT": bool(A0 is not None and _to_dense(A0).shape == Qd.shape and np.array_equal(np.asarray(_to_dense(A0)), Qd.T))}
        except Exception as e:
            out["eig_err"] = core.errname(e) if not type(e).__name__.startswith("Arpack") else "other:" + type(e).__name__
            out["eig_msg"] = str(e)[:200]
    return out


def _impl_sort(case):
    from molgri.molecules.transitions import DecompositionTool
    from scipy.sparse import identity
    TAP.install()
    vals = np.array(case["re"], dtype=float) + 1j * np.array(case["im"], dtype=float)
    vec = np.array([[complex(a, b) for a, b in row] for row in case["vec"]], dtype=complex)
    TAP.stub = (vals.copy(), vec.copy())
    try:
        with core.quiet():
            ev, evec = DecompositionTool(identity(max(1, vec.shape[0]), format="csr")).get_decomposition(
                tol=1e-5, maxiter=10, which="LR", sigma=None, k=len(vals))
        return {"ev": [float(x) for x in ev], "evec": np.asarray(evec, dtype=float).tolist(),
                "dtype": [str(np.asarray(ev).dtype), str(np.asarray(evec).dtype)]}
    except Exception as e:
        return {"err": core.errname(e)}
    finally:
        TAP.stub = None


_IO_GW = {}


def _io_writer():
    if "gw" not in _IO_GW:
        from molgri.io import GridWriter
        with core.quiet():
            gw = GridWriter("1", "ico_5", "[0.1, 0.2]")
            _IO_GW["gw"] = gw
            _IO_GW["vals"] = {"grid": gw.fg.get_full_grid_as_array(), "volumes": np.asanyarray(gw.fg.get_total_volumes()),
                              "borders": gw.fg.get_full_borders(), "distances": gw.fg.get_full_distances(),
                              "adjacency": gw.fg.get_full_adjacency()}
    return _IO_GW["gw"], _IO_GW["vals"]


def _same(a, b):
    import scipy.sparse as sp
    if sp.issparse(a) != sp.issparse(b):
        return False
    if sp.issparse(a):
        return a.format == b.format and a.shape == b.shape and np.array_equal(a.tocoo().row, b.tocoo().row) and \
            np.array_equal(a.tocoo().col, b.tocoo().col) and np.array_equal(a.tocoo().data, b.tocoo().data)
    return isinstance(a, np.ndarray) and isinstance(b, np.ndarray) and a.shape == b.shape and np.array_equal(a, b)


def _impl_io(case):
    from molgri.io import GridReader
    gw, vals = _io_writer()
    tags = {"grid": 1, "volumes": 2, "borders": 3, "distances": 4, "adjacency": 5}
    savers = {"grid": gw.save_full_grid, "volumes": gw.save_volumes, "borders": gw.save_borders_array,
              "distances": gw.save_distances_array, "adjacency": gw.save_adjacency_array}
    gr = GridReader()
    loaders = {"grid": gr.load_full_grid, "volumes": gr.load_volumes, "borders": gr.load_borders_array,
               "distances": gr.load_distances_array, "adjacency": gr.load_adjacency_array}
    d = tempfile.mkdtemp(prefix="c14io_")
    res = []
    try:
        with core.quiet():
            for kd, p in case["saves"]:
                savers[kd](os.path.join(d, p))
            files = sorted(os.listdir(d))
            for kd, p in case["loads"]:
                try:
                    x = loaders[kd](os.path.join(d, p))
                except Exception as e:
                    res.append({"err": core.errname(e)})
                    continue
                hit = [t for name, t in tags.items() if _same(x, vals[name])]
                # adjacency / borders / distances are different matrices of this grid, so the tag is unique
                res.append(hit[0] if len(hit) == 1 else ("npz-as-npy" if type(x).__name__ == "NpzFile" else -1))
    finally:
        shutil.rmtree(d, ignore_errors=True)
    return {"res": res, "files": files}


# ------------------------------------------------------------------------------------------------
# model
# ------------------------------------------------------------------------------------------------
def _sp_bits(m):
    r, c, v = _coo_list(m)
    return {"fmt": m.format, "n": int(m.shape[0]), "entries": [[a, b, core.fbits(x)] for a, b, x in zip(r, c, v)]}


def model_ops(case, out):
    kind = case["kind"]
    if kind == "sort":
        return [{"op": "sorteig", "vals": [[core.rat(a), core.rat(b)] for a, b in zip(case["re"], case["im"])],
                 "cols": [[[core.rat(case["vec"][r][c][0]), core.rat(case["vec"][r][c][1])] for r in range(len(case["vec"]))]
                          for c in range(len(case["re"]))]}]
    if kind == "io":
        return [{"op": "io", "saves": case["saves"], "loads": case["loads"]}]
    ops = [{"op": "consts"}]
    if "err" in out or len(out["V"]) > MODEL_MAX_N:
        return ops
    fb = core.fbits
    Tval, Dval = out["Tval"], out["Dval"]
    rate_op = {"op": "rate", "E": [fb(x) for x in out["E"]], "V": [fb(x) for x in out["Vin"]], "D": fb(Dval), "T": fb(Tval),
               "dist": _sp_bits(out["Dm"]), "surf": _sp_bits(out["B"])}
    if case.get("light"):       # representation sweep: the model (representation-free) once per distinct set of values
        return ops + ([rate_op] if case.get("model") else [])
    sub = out["sub"]
    for name, _sel in SELS:
        r, c, v = sub["R_" + name]
        ops.append({"op": "assemble", "nP": sub["nP"], "nB": sub["nB"], "f": core.rat(case["f"]), "sel": name,
                    "P": [[core.rat(x) for x in row] for row in sub["P_" + name]],
                    "R": [[a, b, core.rat(x)] for a, b, x in zip(r, c, v)]})
    ops.append({"op": "volumes", "f": core.rat(case["f"]), "Vpos": [core.rat(x) for x in sub["Vpos"]],
                "Vrot": [core.rat(x) for x in sub["Vrot"]]})
    ops.append(rate_op)
    subj = {"nP": sub["nP"], "nB": sub["nB"], "f": fb(case["f"]), "Vpos": [fb(x) for x in sub["Vpos"]],
            "Vrot": [fb(x) for x in sub["Vrot"]], "positions": [[fb(x) for x in row] for row in sub["positions"]],
            "quats": [[fb(x) for x in row] for row in sub["quats"]]}
    for name, key in (("adjacency", "a"), ("borders", "b"), ("distances", "d")):
        r, c, v = sub["R_" + name]
        subj["P" + key] = [[fb(x) for x in row] for row in sub["P_" + name]]
        subj["R" + key] = [[a, b, fb(x)] for a, b, x in zip(r, c, v)]
    ops.append({"op": "pipeline", "sub": subj, "paths": list(_PATH_STEMS), "E": [fb(x) for x in out["E"]], "D": fb(Dval),
                "T": fb(Tval)})
    if "raw" in out and out["raw"] is not None:
        vals, vecs = out["raw"]
        ops.append({"op": "sorteig", "vals": [[core.rat(z.real), core.rat(z.imag)] for z in vals],
                    "cols": [[[core.rat(z.real), core.rat(z.imag)] for z in vecs[:, c]] for c in range(vecs.shape[1])]})
    return ops


# ------------------------------------------------------------------------------------------------
# correspondence
# ------------------------------------------------------------------------------------------------
def _short(case):
    return {k: case[k] for k in case if k not in ("vec",)}


def _cmp_entries(ctx, what, case, m, model_entries, conv, rel, diag_abs=None):
    """storage order and values of a sparse matrix against the model's entry list"""
    r, c, v = _coo_list(m)
    mi = [(int(e[0]), int(e[1])) for e in model_entries]
    if list(zip(r, c)) != mi:
        first = next((k for k, (x, y) in enumerate(zip(zip(r, c), mi)) if x != y), min(len(r), len(mi)))
        ctx.corr(what + "/index-sequence", _short(case), {"nnz": len(r), "first_diff": first, "impl": list(zip(r, c))[first:first + 3]},
                 {"nnz": len(mi), "model": mi[first:first + 3]})
        return False
    rows_abs = {}
    if diag_abs is not None:
        for a, x in zip(r, v):
            rows_abs[a] = rows_abs.get(a, 0.0) + abs(x)
    for k, (a, b, x) in enumerate(zip(r, c, v)):
        y = conv(model_entries[k][2])
        ok = core.close(x, y, rel=rel, abs_=0.0)
        if not ok and diag_abs is not None and a == b:
            ok = abs(x - y) <= diag_abs * rows_abs[a]
        if not ok:
            ctx.corr(what + "/value", _short(case), {"row": a, "col": b, "value": x}, {"value": float(y)})
            return False
    return True


def _cmp_rate(ctx, what, case, out, m):
    if "rate_err" in out or "err" in m:
        if out.get("rate_err") != m.get("err"):
            ctx.corr(what + "/outcome", _short(case), out.get("rate_err", "ok"), m.get("err", "ok"))
        return
    Q = out["Q"]
    mm = m["ok"]
    if mm["fmt"] != getattr(Q, "format", None) or mm["n"] != Q.shape[0] or Q.shape[0] != Q.shape[1]:
        ctx.corr(what + "/format-shape", _short(case), [getattr(Q, "format", None), list(Q.shape)], [mm["fmt"], mm["n"]])
        return
    _cmp_entries(ctx, what, case, Q, mm["entries"], core.unfbits, 1e-10, diag_abs=1e-12)


def _cmp_eigs_call(ctx, case, out):
    if "eigs_call" in out:
        # line 387: the solver gets the transpose and the user's settings unchanged
        sv = case["solver"]
        want = {"kw": {"k": float(out["k"]), "tol": float(sv["tol"]), "maxiter": 100000.0, "which": sv["which"],
                       "sigma": None if out["sigma"] is None else float(out["sigma"])}, "n_pos": 1, "A_is_QT": True}
        if out["eigs_call"] != want:
            ctx.corr("eigs/call-arguments", _short(case), out["eigs_call"], want)


def _rep_evidence(ctx, case, out):
    rep = _rep(case)
    for fam in ("B", "Dm", "V", "E", "T", "D"):
        ctx.branch(f"rep:{fam}={rep[fam]}")
    if "ev" in out:
        ctx.branch(f"rep:Q={rep['Q']}")
    if "probe" in out:
        ctx.extra_cov["representations_not_in_sweep"] = {"declared": REPS_NOT_IN_SWEEP, "probed_on_this_tree": out["probe"]}
        ctx.extra_cov["representations_in_sweep"] = {"borders, distances": list(SP_REPS), "volumes": list(V_REPS), "energies": list(E_REPS),
                                                      "T, D": list(SCALAR_REPS), "matrix for DecompositionTool": list(Q_REPS),
                                                      "pipelines": [{k: v for k, v in p_.items()} for p_ in SWEEP_PIPES]}


def compare(ctx, case, out, mouts):
    kind = case["kind"]
    if kind == "sort":
        m = mouts[0]
        if "err" in out or "err" in m:
            ctx.corr("sort/outcome", _short(case), out, m)
            return
        mv = [float(core.unrat(x)) for x in m["ok"]["vals"]]
        if mv != out["ev"]:
            ctx.corr("sort/eigenvalues", _short(case), out["ev"], mv)
            return
        tie = len(set(case["re"])) < len(case["re"])
        ctx.branch("sort_tie" if tie else "sort_no_tie")
        if not tie:
            mc = [[float(core.unrat(x)) for x in col] for col in m["ok"]["cols"]]
            ic = np.array(out["evec"]).T.tolist() if len(out["evec"]) else [[] for _ in mc]
            if mc != ic:
                ctx.corr("sort/eigenvectors", _short(case), ic, mc)
                return
        ctx.nt(("sort", tuple(case["re"]), tuple(case["im"])))
        return
    if kind == "io":
        m = mouts[0]
        if "err" in m:
            ctx.corr("io/driver", case, out, m)
            return
        mres = m["ok"]
        ires = out["res"]
        for k, (a, b) in enumerate(zip(ires, mres)):
            if a == "npz-as-npy":          # np.load of an .npz returns an NpzFile object without raising
                a = {"err": "other:NpzFile"}
            if a != b:
                ctx.corr("io/load", case, {"load": case["loads"][k], "result": a, "files": out["files"]}, {"result": b})
                return
            ctx.branch("io_load_ok" if isinstance(a, int) else "io_load_" + a["err"])
        ctx.nt(("io", str(case["saves"]), str(case["loads"])))
        return
    # ---- grid ----
    consts = mouts[0]
    from scipy.constants import k as kB, N_A
    if consts.get("ok") != [core.fbits(kB), core.fbits(N_A)]:
        ctx.corr("constants k_B, N_A", {}, [kB, N_A], consts)
    if "err" in out:
        ctx.branch("writer_or_reader_error:" + out["err"])
        return
    sub = out["sub"]
    _rep_evidence(ctx, case, out)
    if len(out["V"]) > MODEL_MAX_N:
        ctx.branch("model_skipped_large_n")
        return
    if case.get("light"):
        if case.get("model"):
            _cmp_rate(ctx, "rate", case, out, mouts[1])
        _cmp_eigs_call(ctx, case, out)
        ctx.branch("representation_sweep_case")
        if "Q" in out:
            ctx.nt(("rep", case["b"], case["o"], str(_rep(case)), str(case.get("solver"))))
        return
    i = 1
    ok = True
    for name, key in (("adjacency", "A"), ("borders", "B"), ("distances", "Dm")):
        m = mouts[i]
        i += 1
        if "err" in m:
            ctx.corr("assemble/" + name, _short(case), "ok", m)
            ok = False
            continue
        ok &= _cmp_entries(ctx, "assemble/" + name, case, out[key], m["ok"], lambda s: float(core.unrat(s)), 1e-13)
    m = mouts[i]
    i += 1
    mv = [float(core.unrat(x)) for x in m.get("ok", [])]
    V = [float(x) for x in out["V"]]
    if len(mv) != len(V) or any(not core.close(a, b, rel=1e-13, abs_=0.0) for a, b in zip(V, mv)):
        ctx.corr("volumes", _short(case), V[:8], mv[:8])
    for what in ("rate", "pipeline"):
        m = mouts[i]
        i += 1
        _cmp_rate(ctx, what, case, out, m)
    _cmp_eigs_call(ctx, case, out)
    if "raw" in out and out["raw"] is not None:
        m = mouts[i]
        if "err" in m:
            ctx.corr("sorteig/driver", _short(case), "ok", m)
        else:
            mvs = [float(core.unrat(x)) for x in m["ok"]["vals"]]
            ivs = [float(x) for x in out["ev"]]
            if mvs != ivs:
                ctx.corr("sorteig/eigenvalues", _short(case), ivs, mvs)
            else:
                re = [float(z.real) for z in out["raw"][0]]
                if len(set(re)) == len(re):
                    idx = m["ok"]["idx"]
                    exp = np.real(out["raw"][1])[:, idx]
                    if not np.array_equal(exp, out["evec"]):
                        ctx.corr("sorteig/eigenvectors", _short(case), "columns differ from raw[:, idx]", idx)
                    # the model's columns themselves (exact)
                    mc = np.array([[float(core.unrat(x)) for x in col] for col in m["ok"]["cols"]]).T
                    if mc.shape != out["evec"].shape or not np.array_equal(mc, out["evec"]):
                        ctx.corr("sorteig/eigenvectors-model", _short(case), "model columns differ", idx)
                else:
                    ctx.branch("raw_tie_excluded")
    # evidence
    n = len(V)
    if "Q" in out and out["Q"].nnz > n:
        ctx.nt(("grid", case["b"], case["o"], case["t"], case["cart"], case["f"], str(case["E"]), str(case.get("solver"))))
    ctx.branch("n<=30" if n <= 30 else "n<=100" if n <= 100 else "n<=300" if n <= 300 else "n>300")
    ctx.branch("cartesian" if case["cart"] else "spherical")
    ctx.branch("n_b=1" if sub["nB"] == 1 else "n_b>=4")
    ctx.branch("o_alg:" + sub["o_alg"])
    ctx.branch("b_alg:" + sub["b_alg"])
    ctx.branch("E:" + case["E"]["mode"])
    if len(ctx.samples) < 4 and n <= 60:
        ctx.sample(case)


# ------------------------------------------------------------------------------------------------
# oracle: the statement of C14 on the implementation
# ------------------------------------------------------------------------------------------------
def _key(base, case):
    return base + (":" + str(case["id"]) if "id" in case else "")


def _dense_R(sub, name):
    r, c, v = sub["R_" + name]
    M = np.zeros((sub["nB"], sub["nB"]))
    for a, b, x in zip(r, c, v):
        M[a, b] += x
    return M


def _valid_hypotheses(sub):
    """first violated field of `Molgri.C14.Valid` (None when all hold)"""
    P = {k: np.asarray(sub["P_" + k]) for k in ("adjacency", "borders", "distances")}
    Rm = {k: _dense_R(sub, k) for k in ("adjacency", "borders", "distances")}
    if sub["nP"] < 2:
        return ("nP_gt", "fewer than two position cells")
    for k in ("borders", "distances"):
        # symmetric up to rounding: the two directions of one pair may be computed separately (antipode folding)
        if not np.allclose(P[k], P[k].T, rtol=1e-12, atol=0):
            i, j = np.argwhere(~np.isclose(P[k], P[k].T, rtol=1e-12, atol=0))[0]
            return ("P_symm", f"position {k} matrix asymmetric at ({i},{j}): {P[k][i, j]} vs {P[k][j, i]}")
        if not np.allclose(Rm[k], Rm[k].T, rtol=1e-12, atol=0):
            i, j = np.argwhere(~np.isclose(Rm[k], Rm[k].T, rtol=1e-12, atol=0))[0]
            return ("R_symm", f"rotation {k} matrix asymmetric at ({i},{j}): {Rm[k][i, j]} vs {Rm[k][j, i]}")
    for k in P:
        if np.any(np.diag(P[k]) != 0) or np.any(np.diag(Rm[k]) != 0):
            return ("diag", f"{k}: non-empty diagonal")
    for k in ("adjacency", "borders"):
        if not np.array_equal(P[k] != 0, P["distances"] != 0):
            return ("P_supp", f"position {k} and distances have different supports")
        if not np.array_equal(Rm[k] != 0, Rm["distances"] != 0):
            return ("R_supp", f"rotation {k} and distances have different supports")
    if len(sub["Vpos"]) != sub["nP"] or len(sub["Vrot"]) != sub["nB"] or min(sub["Vpos"]) <= 0 or min(sub["Vrot"]) <= 0:
        return ("volumes", "sub-grid volumes missing or not positive")
    return None


def oracle(ctx, case, out):
    kind = case["kind"]
    if kind == "sort":
        if "err" in out:
            ctx.fail("C14:sort:exception", f"get_decomposition raised {out['err']} after the solver returned", _short(case))
            return
        ev = out["ev"]
        if any(ev[a] < ev[a + 1] for a in range(len(ev) - 1)):
            ctx.fail("C14:eig:descending", "returned eigenvalues are not in descending order", _short(case), None, ev)
            return
        if not all(d.startswith("float") for d in out["dtype"]):
            ctx.fail("C14:eig:real", "returned arrays are not real", _short(case), None, out["dtype"])
            return
        # every eigenvalue keeps its vector: multiset of (value, column) pairs
        cols = np.array(out["evec"]).T.tolist() if len(out["evec"]) else [[] for _ in ev]
        got = sorted((v, tuple(c)) for v, c in zip(ev, cols))
        want = sorted((float(r), tuple(float(case["vec"][i][c][0]) for i in range(len(case["vec"])))) for c, r in enumerate(case["re"]))
        if got != want:
            ctx.fail("C14:eig:pairs", "sorting separated eigenvalues from their eigenvectors", _short(case), want[:3], got[:3])
        return
    if kind == "io":
        tags = {"grid": 1, "volumes": 2, "borders": 3, "distances": 4, "adjacency": 5}
        # independent statement: a load of exactly the file the *last* save of that kind/path created returns that content
        last = {}
        for kd, p in case["saves"]:
            ext = ".npy" if kd in ("grid", "volumes") else ".npz"
            last[p if p.endswith(ext) else p + ext] = tags[kd]
        if sorted(last) != out["files"]:
            ctx.fail("C14:files:names", "files created by the writer are not <path>[+suffix]", case, sorted(last), out["files"])
            return
        for (kd, p), r in zip(case["loads"], out["res"]):
            if p in last:
                npy_loader = kd in ("grid", "volumes")
                npy_file = last[p] in (1, 2)
                if npy_loader == npy_file and r != last[p]:
                    ctx.fail("C14:files:roundtrip", f"load of {p} does not return what was last saved there", case, last[p], r)
                    return
            elif not (isinstance(r, dict) and r.get("err") == "other:FileNotFoundError"):
                ctx.fail("C14:files:missing", f"load of the never-written {p} did not raise FileNotFoundError", case, None, r)
                return
        return
    # ---- grid ----
    if "err" in out:
        if out["stage"] == "writer" and out["err"].startswith("other:Qhull"):
            ctx.branch("qhull_error_excluded")     # fewer than 3 directions in Cartesian mode etc.: no geometry (C19's domain)
            return
        ctx.fail(_key("C14:exception:" + out["stage"], case), f"{out['stage']} raised {out['err']}: {out.get('msg')}", _short(case))
        return
    sub = out["sub"]
    f11 = case["cart"] and (sub["o_alg"], sub["n_o"]) in F11_GRIDS
    f11key = f"C14:F11:cartesian:{sub['o_alg']}_{sub['n_o']}"
    # (1) reader o writer = identity, and exactly the five files
    want_files = sorted(s + e for s, e in zip(_PATH_STEMS, _EXTS))
    if out["files"] != want_files:
        ctx.fail("C14:files:names", "files in the directory are not the five targets", _short(case), want_files, out["files"])
        return
    g = out["getters"]
    for key, what in (("G", "full grid"), ("V", "volumes"), ("B", "borders"), ("Dm", "distances"), ("A", "adjacency")):
        if not _same(out[key], g[key]):
            ctx.fail("C14:files:roundtrip", f"{what} read back differs from what the writer's grid returns", _short(case))
            return
    V, B, Dm, A, E = out["V"], out["B"], out["Dm"], out["A"], out["E"]
    n = len(V)
    Tval = out["Tval"]
    rep = _rep(case)
    # (1b) "over the cells in grid order": cell n is (position n // n_b, rotation n % n_b) in the saved grid and in the volumes
    nB, nP = sub["nB"], sub["nP"]
    G = np.asarray(out["G"])
    if n != nP * nB or G.shape != (n, 7) or B.shape != (n, n) or Dm.shape != (n, n) or A.shape != (n, n):
        ctx.fail("C14:grid_order", "saved arrays do not have n_t*n_o*n_b rows", _short(case), nP * nB, [n, list(G.shape), list(B.shape)])
        return
    cell_p, cell_b = np.arange(n) // nB, np.arange(n) % nB
    if not (np.array_equal(G[:, :3], sub["positions"][cell_p]) and np.array_equal(G[:, 3:], sub["quats"][cell_b])):
        ctx.fail("C14:grid_order", "row n of the saved grid is not (position n // n_b, quaternion n % n_b)", _short(case))
        return
    Vspec = np.asarray(sub["Vpos"])[cell_p] * case["f"] ** 3 * np.asarray(sub["Vrot"])[cell_b]
    if not f11 and not np.allclose(np.asarray(V, dtype=float), Vspec, rtol=1e-12, atol=0):
        k = int(np.argmax(np.abs(np.asarray(V, dtype=float) - Vspec)))
        ctx.fail("C14:volume_order", f"saved volume of cell {k} is not Vpos[{k} // n_b] * f^3 * Vrot[{k} % n_b]", _short(case),
                 float(Vspec[k]), float(V[k]))
        return
    if out.get("rate_err_only_in_rep"):
        ctx.fail("C14:representation", f"get_rate_matrix raised {out['rate_err']} ({out.get('rate_msg')}) for the input representation {_rep(case)} "
                 "but not for the same values in the reference representation", _short(case))
        return
    if "rate_err" in out:
        ctx.fail(f11key if f11 else _key("C14:exception:rate", case),
                 f"get_rate_matrix raised {out['rate_err']} on saved geometry (borders nnz {B.nnz}, distances nnz {Dm.nnz}, "
                 f"adjacency nnz {A.nnz}, zero volumes {int((np.asarray(V) == 0).sum())})", _short(case))
        return
    Q = out["Q"]
    Qd = _to_dense(Q)
    off = ~np.eye(n, dtype=bool)
    ramp = case["E"]["mode"] in RAMP_MODES
    # (1d) the result does not depend on the representation of the inputs: same values as what GridReader returns / float64
    #      arrays / Python floats give the same matrix
    if "Qref_err" in out:
        ctx.fail("C14:representation", f"the reference representation raised {out['Qref_err']} but {rep} did not", _short(case))
        return
    if "Qref" in out:
        Qr = _to_dense(out["Qref"])
        obs = None
        if Qd.shape != Qr.shape:
            obs = {"shape_with_rep": list(Qd.shape), "shape_reference": list(Qr.shape)}
        else:
            fin = np.isfinite(Qr) & np.isfinite(Qd)
            with np.errstate(invalid="ignore"):
                mism = (np.isfinite(Qr) != np.isfinite(Qd)) | (fin & (np.abs(Qd - Qr) > 1e-12 * np.abs(Qr) + 1e-300))
            if np.any(mism):
                k = tuple(int(x) for x in np.argwhere(mism)[0])
                obs = {"entry": list(k), "with_rep": float(Qd[k]), "reference": float(Qr[k]), "entries_differing": int(mism.sum()),
                       "stored_offdiag_rep": int(((Qd != 0) & off).sum()), "stored_offdiag_reference": int(((Qr != 0) & off).sum())}
        if obs is not None:
            ctx.fail("C14:representation", f"rate matrix depends on the representation of the inputs {rep} (the same values as float64 arrays, "
                     "Python floats and the matrices as GridReader returns them give another matrix)", _short(case), None, obs)
            return
        ctx.branch("representation_invariance_checked")
    if ramp:
        c_ = A.tocoo()
        ctx.branch("ramp_energies:range>708*2RT" if (E.max() - E.min()) > 708 * 2 * R_GAS * Tval / 1000.0 else "ramp_energies:range<=708*2RT")
        if c_.nnz and float(np.abs(E[c_.row] - E[c_.col]).max()) >= 500:
            raise core.HarnessError(f"ramp generator produced neighbouring cells beyond the cap: {_short(case)}")
    # (1c) every entry finite (energies whose neighbouring differences are below the cap, whatever their range and offset)
    if not f11 and not np.all(np.isfinite(Qd)):
        k = np.argwhere(~np.isfinite(Qd))[0]
        ctx.fail("C14:finite", f"rate matrix has {int((~np.isfinite(Qd)).sum())} non-finite entries, e.g. Q[{k[0]},{k[1]}] = {Qd[k[0], k[1]]} "
                 f"(energy range {E.max() - E.min():.6g} kJ/mol, E[{k[0]}] - E[{k[1]}] = {E[k[0]] - E[k[1]]:.6g})", _short(case))
        return
    # (2) pattern = saved adjacency (pairs whose energy difference is beyond the cap are outside the property: the
    #     uncapped direction may underflow to an exact 0)
    pat = (Qd != 0) & off
    Apat = A.toarray() != 0
    beyond = np.abs(E[:, None] - E[None, :]) >= 500
    dif = (pat != Apat) & ~beyond
    if np.any(dif):
        k = np.argwhere(dif)[0]
        ctx.fail(f11key if f11 else "C14:pattern", "off-diagonal pattern of the rate matrix differs from the saved adjacency",
                 _short(case), bool(Apat[k[0], k[1]]), {"pair": k.tolist(), "Q": float(Qd[k[0], k[1]])})
        return
    pat = pat & Apat
    if np.any(np.asarray(V) <= 0) or not np.all(np.isfinite(Qd)):
        ctx.fail(f11key if f11 else "C14:volumes", "non-positive volume or non-finite rate", _short(case))
        return
    # (3) zero row sums
    rs = np.abs(Qd.sum(axis=1))
    ra = np.abs(Qd).sum(axis=1)
    if np.any(rs > 1e-11 * ra + 1e-300):
        i = int(np.argmax(rs - 1e-11 * ra))
        ctx.fail("C14:row_sum", f"row {i} sums to {Qd[i].sum()} (|row| {ra[i]})", _short(case))
        return
    # (4) detailed balance w.r.t. V_i exp(-E_i/RT), pairs below the cap, in log space
    RT = R_GAS * Tval / 1000.0
    V = out["Vin"]          # the volumes handed to SQRA (= the saved ones, or their float32 image in that representation)
    ii, jj = np.nonzero(pat)
    if len(ii):
        if np.any(Qd[ii, jj] < 0):
            k = int(np.argmax(Qd[ii, jj] < 0))
            ctx.fail("C14:generator_sign", "negative off-diagonal rate", _short(case), None, [int(ii[k]), int(jj[k]), float(Qd[ii[k], jj[k]])])
            return
        dE = E[ii] - E[jj]
        below = np.abs(dE) < 500
        oneway = below & ((Qd[ii, jj] > 0) != (Qd[jj, ii] > 0))
        if np.any(oneway):
            k = int(np.argmax(oneway))
            ctx.fail(f11key if f11 else "C14:detailed_balance", f"rate {int(ii[k])}->{int(jj[k])} is positive but the reverse rate is zero",
                     _short(case), None, [float(Qd[ii[k], jj[k]]), float(Qd[jj[k], ii[k]])])
            return
        below = below & (Qd[ii, jj] > 0) & (Qd[jj, ii] > 0)
        ctx.branch("pairs_below_cap", int(below.sum()))
        ctx.branch("pairs_beyond_cap_excluded", int((~below).sum()))
        with np.errstate(divide="ignore", invalid="ignore"):
            lhs = np.log(V[ii]) + np.log(Qd[ii, jj]) - np.log(V[jj]) - np.log(Qd[jj, ii]) - dE / RT
        lhs = np.where(below, lhs, 0.0)
        bad = below & (np.abs(lhs) > 1e-9 * (1 + np.abs(dE) / RT))
        if np.any(bad):
            k = int(np.argmax(np.abs(lhs) * bad))
            ctx.fail(f11key if f11 else "C14:detailed_balance",
                     f"pi_i Q_ij / (pi_j Q_ji) = exp({lhs[k]:.3e}) for cells {int(ii[k])},{int(jj[k])}", _short(case), 0.0, float(lhs[k]))
            return
    # (4b) the hypotheses `Valid` of the composition theorems hold for the implementation's sub-grid outputs (otherwise the
    #      theorems do not speak about this input although the clauses above happened to hold: the tie is broken)
    bad = _valid_hypotheses(sub)
    if bad:
        ctx.corr("hypothesis Valid." + bad[0], _short(case), bad[1], "holds for every input of pipeline_detailed_balance / pipeline_pattern")
    if ramp:
        # V*exp(-E/RT) is not representable over such a range: spectral clauses skipped, pairwise clauses above checked
        ctx.branch("ramp_energies:spectral_clauses_skipped")
        return
    if "ev" not in out and "eig_err" not in out:
        ctx.branch("no_decomposition(capped energies or n<4)")
        return
    # (5) spectral decomposition
    sv = case["solver"]
    if "eig_err" in out:
        ctx.fail(_key("C14:eig:exception", case), f"get_decomposition raised {out['eig_err']}: {out.get('eig_msg')}", _short(case))
        return
    ev, evec, nrm, k = out["ev"], out["evec"], out["nrm"], out["k"]
    raw_vals = out["raw"][0]
    strict = sv["tol"] <= 1e-10
    tol_ev = (1e-7 if strict else 10 * sv["tol"] + 1e-7) * nrm
    if ev.dtype.kind != "f" or evec.dtype.kind != "f" or evec.shape != (n, k) or ev.shape != (k,):
        ctx.fail("C14:eig:real", "returned arrays are not real or of the wrong shape", _short(case), [k, [n, k]], [list(ev.shape), list(evec.shape)])
        return
    if np.abs(raw_vals.imag).max() > 1e-7 * nrm:
        ctx.fail(_key("C14:eig:real", case), "the solver's eigenvalues have imaginary parts (discarded silently by the code)", _short(case),
                 0.0, float(np.abs(raw_vals.imag).max() / nrm))
        return
    if np.any(np.diff(ev) > 0):
        ctx.fail("C14:eig:descending", "returned eigenvalues are not in descending order", _short(case), None, ev.tolist())
        return
    dense = np.linalg.eigvals(Qd)
    if np.abs(dense.imag).max() > 1e-7 * nrm:
        ctx.fail("C14:eig:dense_real", "dense solver finds complex eigenvalues of the rate matrix", _short(case))
        return
    dr = np.sort(dense.real)[::-1]
    miss = [float(min(abs(dr - x))) for x in ev]
    if max(miss) > tol_ev:
        ctx.fail(_key("C14:eig:dense", case), "a returned eigenvalue is not an eigenvalue of the matrix (dense solver)", _short(case),
                 None, {"eigenvalue": float(ev[int(np.argmax(miss))]), "distance/norm": max(miss) / nrm})
        return
    # every returned pair is a left eigenpair:  Q^T v = lambda v
    res = np.linalg.norm(Qd.T @ evec - evec * ev[None, :], axis=0) / (nrm * np.maximum(np.linalg.norm(evec, axis=0), 1e-300))
    tol_res = 1e-6 if strict else 100 * sv["tol"] + 1e-6
    if res.max() > tol_res:
        c = int(np.argmax(res))
        ctx.fail(_key("C14:eig:left_pair", case), f"column {c} is not a left eigenvector for eigenvalue {c} (relative residual {res[c]:.2e})",
                 _short(case), 0.0, float(res[c]))
        return
    top = (sv["sigma_rel"] is None and sv["which"] == "LR") or (sv["sigma_rel"] is not None and sv["sigma_rel"] > 0 and sv["which"] in ("SR", "LM"))
    ctx.branch("solver:" + ("top" if top else "other") + (":strict" if strict else ":tol1e-5"))
    if not top:
        return
    if not (strict or case.get("strict")):
        ctx.branch("top_clauses_excluded_loose_tol")      # ARPACK at tol=1e-5 may miss the stationary pair: see findings (F13)
        return
    from scipy.sparse.csgraph import connected_components
    if connected_components(A, directed=False)[0] != 1:
        ctx.branch("disconnected_excluded")
        return
    if abs(dr[0]) > 1e-6 * nrm:
        ctx.fail("C14:eig:dense_top", "the dense solver's largest eigenvalue of the rate matrix is not zero", _short(case), 0.0, float(dr[0] / nrm))
        return
    if abs(ev[0]) > 1e-6 * nrm:
        # F13 (open finding): ARPACK's convergence test is relative to |lambda|, so without a shift the eigenvalue 0 itself can
        # fail to "converge" and ARPACK returns eigenvalues *below* it.  Signature: all returned pairs are genuine left eigenpairs
        # (checked above), the zero is absent and the largest returned value is one of the three eigenvalues directly below zero.
        # Generated inputs with this signature are counted and excluded; the listed witnesses (cases with an "id") are evaluated
        # strictly and reported as the known finding.
        skipped = ev[0] < 0 and ev[0] >= dr[min(n - 1, 3)] - tol_ev
        if skipped and sv["sigma_rel"] is None and sv["which"] == "LR" and "id" not in case:
            ctx.branch("arpack_skipped_zero_eigenvalue(F13)_excluded")
            return
        ctx.fail(_key("C14:eig:top_zero", case), "largest returned eigenvalue is not zero",
                 _short(case), dr[:3].tolist(), {"ev0/norm": float(ev[0] / nrm), "ev[:3]": ev[:3].tolist(),
                                                  "zero_eigenvalue_skipped_signature": bool(skipped)})
        return
    # the returned set is the top of the dense spectrum - only where the spectrum is non-degenerate (a Krylov method does not
    # resolve multiplicities: symmetric grids with equal energies have multiple eigenvalues)
    gaps = -np.diff(dr[:min(n, k + 2)])
    if gaps.size and gaps.min() > 1e-5 * nrm:
        if np.max(np.abs(ev - dr[:k])) > tol_ev:
            ctx.fail(_key("C14:eig:top_set", case), "returned eigenvalues are not the k largest of the dense spectrum", _short(case),
                     dr[:k].tolist(), ev.tolist())
            return
        ctx.branch("top_set_checked")
    else:
        ctx.branch("degenerate_spectrum:top_set_clause_excluded")
    pi = V * np.exp(-(E - E.min()) / RT)
    v0 = evec[:, 0]
    cos = abs(float(v0 @ pi)) / (np.linalg.norm(v0) * np.linalg.norm(pi))
    if cos < 1 - 1e-6:
        ctx.fail(_key("C14:eig:left_vector", case), "first eigenvector is not proportional to V*exp(-E/RT)", _short(case), 1.0, cos)
        return
    ctx.branch("top_clauses_checked")
