"""C15 - rotation-cell volumes (molgri.space.voronoi: get_reduced_vertices_regions, _additional_points_per_cell,
get_convex_hulls, get_voronoi_volumes, HalfRotobjVoronoi._get_upper_indices/get_voronoi_volumes, MikroVoronoi;
molgri.space.rotobj: the N >= 4 dispatch of gen_grid).

Correspondence (C): the Lean model receives the grid the implementation generated, scipy's SphericalVoronoi of that grid
(computed here, not taken from the object) and the 5000 helper quaternions (re-generated here from numpy's seed 1) as
exact dyadic numbers; it returns the array of every one of the 2N convex hulls (as row references), the assignment
vector and the upper indices.  Those arrays are pushed through scipy's ConvexHull('QJ') here, the areas go back into
the model (area/2, selection of the upper indices, or the equal share), and the result must reproduce
get_spherical_voronoi().get_voronoi_volumes() to 1e-9.  Intermediate results of the implementation (reduced vertices,
hull input arrays, helper points) are compared exactly as well.

Failing-input search (S): the property's own statement on the implementation: N positive volumes, equal to the first N
of the 2N volumes of RotobjVoronoi(full grid), |sum/pi^2 - 1| <= 12 %, every cell within 30 % (+3 sigma) of the
Monte-Carlo measure of its nearest-rotation region (fixed 4e6-point sample, independent of VERIF_SEED), and the exact
equal share pi^2/N (4 pi/N for directions) below four points.
"""
from __future__ import annotations

import json
import math
import os
import random
import time
import traceback

import numpy as np

import core

RULE = ("every case draws (by seed) the representation of each argument it passes to the package - N as int / np.int64 / np.int32 / "
        "np.uint16 / 0-d array, names as str / np.str_, dimensions as int / numpy integer, flags as bool / np.bool_ / 0-1 / absent, "
        "factory / keyword / SphereGridFactory / class route, three public volume getters, C / F / non-contiguous arrays - "
        "and quick sweeps all families exhaustively over randomQ_5, cube4D_8, randomQ_3 against the plain-Python call; "
        "rotation grids cube4D_N and randomQ_N for every N of the tier list (quick: 1..12, 17 and two seed-chosen N in 13..40, plus the large "
        "grids randomQ_120 and one of randomQ_100/150 by seed with the statement oracle only - cells with fewer than dim+1 helper "
        "points occur only there; thorough: every N <= 60 and 80, 100, 120, 150, 272 with model tie and oracle), each a fresh factory object; direction grids ico/cube3D/randomS with N = 1..6; "
        "histories on ONE grid object (the array returned by the default / only_upper=True getter is overwritten in place - rows negated, "
        "permuted, reversed, zeroed - before, between and after the requests for volumes; the result must stay that of a fresh object "
        "and the prefix of the double-cover volumes of the grid the object reports); MikroVoronoi(d, N) directly incl. the error branches; seed-dependent random double covers G ++ -G pushed through "
        "HalfRotobjVoronoi; synthetic AbstractVoronoi objects (3-D and 4-D, duplicated and np.isclose-near vertices, duplicated / "
        "non-unit centres = exact assignment ties, cells without helper points, all-zero helper point, no helper points); "
        "half selections on a really constructed HalfRotobjVoronoi whose public grid array is replaced by rows with coordinates "
        "inside/at/outside the 1e-8 tolerance of q_in_upper_sphere (the volumes selected from are the object's real 2N volumes). "
        "A case is non-trivial when at least one convex hull with helper points was built (grids with N >= 4, synthetic objects) "
        "or a selection / equal share with N >= 1 was returned; distinct by (kind, algorithm, N) resp. by the generated arrays")

PI = math.pi
ATOL, RTOL, TOL = 1e-8, 1e-5, 1e-8
MC_M = 4_000_000
MC_SEED = 20240915          # fixed: the Monte-Carlo sample does not depend on VERIF_SEED
BAND_SUM, BAND_CELL = 0.12, 0.30
VOL_REL = 1e-9

_MC = None


def mc_sample():
    global _MC
    if _MC is None:
        rng = np.random.default_rng(MC_SEED)
        X = rng.normal(size=(MC_M, 4))
        X /= np.linalg.norm(X, axis=1)[:, None]
        _MC = X
    return _MC


def helper_quaternions(n=5000):
    """Independent re-generation of `random_quaternions(5000)` after `np.random.seed(1)` (voronoi.py:226-230)."""
    st = np.random.get_state()
    try:
        np.random.seed(1)
        r = np.random.random((n, 3))
    finally:
        np.random.set_state(st)
    H = np.zeros((n, 4))
    H[:, 0] = np.sqrt(1 - r[:, 0]) * np.sin(2 * PI * r[:, 1])
    H[:, 1] = np.sqrt(1 - r[:, 0]) * np.cos(2 * PI * r[:, 1])
    H[:, 2] = np.sqrt(r[:, 0]) * np.sin(2 * PI * r[:, 2])
    H[:, 3] = np.sqrt(r[:, 0]) * np.cos(2 * PI * r[:, 2])
    return H


def rows(a):
    return [[core.rat(x) for x in r] for r in np.asarray(a, dtype=float)]


def scipy_voronoi(grid):
    from scipy.spatial import SphericalVoronoi
    norm = np.linalg.norm(grid, axis=1)[0]
    sv = SphericalVoronoi(grid, radius=norm, threshold=10 ** -5)
    try:
        sv.sort_vertices_of_regions()
    except TypeError:
        pass
    return np.asarray(sv.vertices, dtype=float), [[int(x) for x in r] for r in sv.regions]


def hull_area(pts):
    from scipy.spatial import ConvexHull
    return float(ConvexHull(np.asarray(pts, dtype=float), qhull_options='QJ').area)


class Rec:
    """what a worker reports back; merged into the Ctx by the parent"""

    def __init__(self):
        self.corr, self.fail, self.nt, self.branch, self.samples, self.notes = [], [], [], {}, [], []
        self.pending = []        # second-phase model ops (area/2, selection, equal share, dispatch): batched by the parent
        self.calls = self.lines = self.count = 0

    def later(self, what, case, impl, op, rel=VOL_REL):
        self.pending.append({"what": what, "case": case, "impl": impl, "op": op, "rel": rel})

    def b(self, name, n=1):
        self.branch[name] = self.branch.get(name, 0) + n

    def model(self, ops):
        d = core.LeanDriver("C15")
        out = d.run(ops)
        self.calls += d.calls
        self.lines += d.lines
        return out

    def merge_into(self, ctx):
        ctx.count(self.count)
        for c in self.corr:
            ctx.corr(*c)
        for f in self.fail:
            ctx.fail(*f)
        for k in self.nt:
            ctx.nt(k)
        for k, v in self.branch.items():
            ctx.branch(k, v)
        for s in self.samples:
            ctx.sample(s)
        for n in self.notes:
            if n not in ctx.notes:
                ctx.note(n)
                if n.startswith("stub_incompatible"):
                    print(f"NOTE: property={ctx.prop} {n}")
        ctx.driver.calls += self.calls
        ctx.driver.lines += self.lines


# ------------------------------------------------------------------------------------------------------------------
# argument representations: the same mathematical input in every form the public API accepts on the unchanged tree.
# Established on the unchanged tree (probe of 2026-09-27, all bit-identical to the plain-Python call unless listed in
# REPS_LEFT_OUT).  A case stores the NAMES of the representations it uses (case["rep"]); the model always takes the
# denoted values.
# ------------------------------------------------------------------------------------------------------------------
N_REPS = {"int": int, "np.int64": np.int64, "np.int32": np.int32, "np.uint16": np.uint16, "0d_array": lambda n: np.array(n)}
STR_REPS = {"str": str, "np.str_": np.str_}
DIM_REPS = {"int": int, "np.int64": np.int64, "np.int32": np.int32}
BOOL_REPS = {"bool": bool, "np.bool_": np.bool_, "int01": int}
ROUTES4 = ("factory4", "factory4_kw", "factory_dims", "class")
GETTERS = ("voronoi", "forwarded", "attribute")
FLAG_REPS = ("absent",) + tuple(BOOL_REPS)
ARRAY_REPS = ("C", "F", "noncontiguous")
REPS_LEFT_OUT = [
    {"argument": "N", "representation": "float / np.float64 (integer valued)", "reason": "rejected on the unchanged tree: TypeError "
     "('float' object cannot be interpreted as an integer / slice indices must be integers)"},
    {"argument": "MikroVoronoi(N_points) called directly", "representation": "0-d integer array", "reason": "genuinely differs on the "
     "unchanged tree: [x] * np.array(N) is an array product, one value 4 pi (pi^2) comes back instead of N values; outside the "
     "property's quantifier (through the factories N_points is len(grid), a Python int, and the 0-d array N gives the plain result)"},
    {"argument": "MikroVoronoi(N_points = 0) called directly", "representation": "numpy integers", "reason": "genuinely differs on the "
     "unchanged tree: numpy division by zero gives inf and an empty list instead of ZeroDivisionError (error branch, N = 0)"},
    {"argument": "HalfRotobjVoronoi(my_array)", "representation": "list of lists", "reason": "rejected on the unchanged tree: "
     "AttributeError ('list' object has no attribute 'shape')"},
    {"argument": "HalfRotobjVoronoi(my_array)", "representation": "np.longdouble array", "reason": "accepted, volumes agree to 1e-9, but "
     "scipy then computes the Voronoi vertices in extended precision: they differ in the last bits from the float64 computation, so "
     "the exact comparison of intermediate arrays does not apply (not the same computation in another representation)"},
    {"argument": "FullGrid wrappers", "representation": "-", "reason": "not an observation point of C15; FullGrid parses grid names and "
     "always passes a Python int"},
]
PLAIN = {"N": "int", "alg": "str", "route": "factory4", "dims": "int", "time_generation": "absent", "getter": "voronoi",
         "approx": "absent", "only_upper": "bool"}


def draw_rep(rng):
    return {"N": rng.choice(list(N_REPS)), "alg": rng.choice(list(STR_REPS)), "route": rng.choice(ROUTES4),
            "dims": rng.choice(list(DIM_REPS)), "time_generation": rng.choice(FLAG_REPS), "getter": rng.choice(GETTERS),
            "approx": rng.choice(FLAG_REPS), "only_upper": rng.choice(list(BOOL_REPS))}


def rep_of(case):
    return {**PLAIN, **(case.get("rep") or {})}


def flag_kw(name, repname, value):
    return {} if repname == "absent" else {name: BOOL_REPS[repname](value)}


def make_grid4(alg, N, rep, timing=False):
    """a fresh 4-D grid object through the public route and argument representations named in `rep`"""
    from molgri.space import rotobj
    a, n = STR_REPS[rep["alg"]](alg), N_REPS[rep["N"]](N)
    tg = flag_kw("time_generation", rep["time_generation"], timing)
    route = rep["route"]
    if route == "factory4":
        return rotobj.SphereGrid4DFactory.create(a, n, **tg)
    if route == "factory4_kw":
        return rotobj.SphereGrid4DFactory.create(alg_name=a, N=n, **tg)
    if route == "factory_dims":
        return rotobj.SphereGridFactory.create(a, n, DIM_REPS[rep["dims"]](4), **tg)
    cls = {"randomQ": rotobj.RandomQRotations, "cube4D": rotobj.Cube4DRotations}[alg]
    g = cls(N=n, **tg)
    g.gen_grid()
    return g


def volumes_of(g, rep, approx_value=False):
    """the volumes through the public getter named in `rep` (the factory product's Voronoi object, the grid's own forwarded
    getter, or the public attribute)"""
    kw = flag_kw("approx", rep["approx"], approx_value)
    if rep["getter"] == "forwarded":
        return g.get_voronoi_volumes(**kw)
    if rep["getter"] == "attribute":
        return g.spherical_voronoi.get_voronoi_volumes(**kw)
    return g.get_spherical_voronoi().get_voronoi_volumes(**kw)


def full_grid_of(g, rep):
    return np.asarray(g.get_grid_as_array(only_upper=BOOL_REPS[rep["only_upper"]](False)), dtype=float)


def array_rep(grid, name):
    if name == "F":
        return np.asfortranarray(grid)
    if name == "noncontiguous":
        return np.hstack([grid, grid])[:, :grid.shape[1]]
    if name == "longdouble":
        return grid.astype(np.longdouble)
    return np.ascontiguousarray(grid)


def sweep_variants():
    """every family varied on its own (the others plain), plus both truth values of the flags"""
    out = []
    for k in N_REPS:
        out.append(({"N": k}, False, False))
    out.append(({"alg": "np.str_"}, False, False))
    for r in ROUTES4:
        out.append(({"route": r}, False, False))
    for d in DIM_REPS:
        out.append(({"route": "factory_dims", "dims": d}, False, False))
    for g_ in GETTERS:
        out.append(({"getter": g_}, False, False))
    for b in BOOL_REPS:
        for val in (False, True):
            out.append(({"time_generation": b}, val, False))
            out.append(({"approx": b}, False, val))
            out.append(({"approx": b, "getter": "forwarded"}, False, val))
        out.append(({"only_upper": b}, False, False))
    out.append(({"N": "np.int64", "alg": "np.str_", "route": "factory_dims", "dims": "np.int64", "time_generation": "np.bool_",
                 "getter": "forwarded", "approx": "np.bool_", "only_upper": "np.bool_"}, False, False))
    return out


def ev_repsweep(rec, case):
    """exhaustive sweep of all representation families over one small fixed grid: class attached, number of volumes,
    volumes and full grid must be those of the plain-Python call (the expected result does not depend on the representation)"""
    alg, N = case["alg"], int(case["N"])
    with core.quiet():
        g0 = make_grid4(alg, N, PLAIN)
        ref = np.asarray(volumes_of(g0, PLAIN), dtype=float)
        refcls = type(g0.get_spherical_voronoi()).__name__
        refgrid = full_grid_of(g0, PLAIN)
    variants = sweep_variants() if case["kind"] == "repsweep" else [(case["rep"], case["timing"], case["approx_value"])]
    for (delta, timing, approx) in variants:
        rep = {**PLAIN, **delta}
        tag = ",".join(f"{k}={v}" for k, v in sorted(delta.items())) + (",timing" if timing else "") + (",approx" if approx else "")
        sub = {"kind": "repsweep1", "alg": alg, "N": N, "rep": delta, "timing": timing, "approx_value": approx}
        rec.count += 1
        try:
            with core.quiet():
                g = make_grid4(alg, N, rep, timing=timing)
                v = np.asarray(volumes_of(g, rep, approx_value=approx), dtype=float)
                cls = type(g.get_spherical_voronoi()).__name__
                grid = full_grid_of(g, rep)
        except Exception as e:
            rec.fail.append((f"C15:representation:{alg}_{N}:{tag}:exception", f"{alg}_{N} with {tag} raised {core.errname(e)}: {e}; the plain call "
                             "returns volumes", sub, "volumes", core.errname(e)))
            continue
        if cls != refcls or v.shape != ref.shape or not np.allclose(v, ref, rtol=1e-12, atol=0) or not np.array_equal(grid, refgrid):
            rec.fail.append((f"C15:representation:{alg}_{N}:{tag}", f"{alg}_{N}: result depends on the representation of the arguments ({tag}): "
                             f"{cls} / {len(v)} volumes against {refcls} / {len(ref)} for plain Python arguments", sub,
                             {"class": refcls, "volumes": [float(x) for x in ref]}, {"class": cls, "volumes": [float(x) for x in v]}))
        rec.nt.append(("repsweep", alg, N, tag))
    rec.b("representation_sweep_variants", len(variants))


# ------------------------------------------------------------------------------------------------------------------
# the rotation pipeline (factory grids and random double covers)
# ------------------------------------------------------------------------------------------------------------------
def cells_op(centers, verts, regions, helpers, including=True):
    return {"op": "cells", "centers": rows(centers), "verts": rows(verts), "regions": regions,
            "helpers": None if helpers is None else rows(helpers), "including": including,
            "atol": core.rat(ATOL), "rtol": core.rat(RTOL), "tol": core.rat(TOL)}


def arrays_from_refs(out, verts, helpers):
    """the model's hull inputs as float arrays: helper h -> helpers[h], reduced vertex v -> verts[first[v]]"""
    first = out["first"]
    res = []
    for refs in out["hull"]:
        pts = [helpers[r] if r >= 0 else verts[first[-1 - r]] for r in refs]
        res.append(np.array(pts, dtype=float).reshape(len(pts), verts.shape[1]))
    return res


def model_rotation(rec, case, grid, N, vols, what):
    """run the model on (grid, scipy's diagram, helper points); the second phase (area/2 and the selection of the upper
    indices on the areas scipy returns for the model's arrays) is queued.  Returns info or {"err": ...}"""
    verts, regions = scipy_voronoi(grid)
    H = helper_quaternions()
    o = rec.model([cells_op(grid, verts, regions, H)])[0]
    if "err" in o:
        return {"err": o["err"]}
    o = o["ok"]
    arrs = arrays_from_refs(o, verts, H)
    areas = []
    for a in arrs:
        try:
            areas.append(hull_area(a))
        except Exception as e:  # qhull refuses the model's array
            return {"err": core.errname(e)}
    rec.later(what, case, [float(v) for v in vols],
              {"op": "rotvol", "pi": core.rat(PI), "tol": core.rat(TOL), "N": N, "grid": rows(grid), "areas": [core.rat(a) for a in areas]})
    return {"verts": verts, "regions": regions, "H": H, "cells": o, "arrays": arrs, "areas": areas}


def compare_intermediate(rec, case, full, info):
    """exact comparison of what the implementation's full-sphere object holds with the model's view (when exposed)"""
    o, verts, H = info["cells"], info["verts"], info["H"]
    ap = getattr(full, "additional_points", None)
    if ap is not None and not (np.shape(ap) == H.shape and np.array_equal(np.asarray(ap), H)):
        rec.corr.append(("helper points != first 5000 random quaternions of numpy seed 1", case,
                         {"shape": list(np.shape(ap))}, {"shape": list(H.shape)}))
    rv = getattr(full, "reduced_vertices", None)
    if rv is not None:
        mv = verts[o["first"]] if len(o["first"]) else np.zeros((0, verts.shape[1]))
        if not (np.shape(rv) == mv.shape and np.array_equal(np.asarray(rv), mv)):
            rec.corr.append(("reduced vertices", case, {"n": int(len(rv))}, {"n": int(len(mv)), "first": o["first"][:20]}))
    if len(o["first"]) < len(verts):
        rec.b("vertices_deduplicated")
    try:
        with core.quiet():
            hulls = full.get_convex_hulls()
    except Exception as e:
        rec.corr.append(("get_convex_hulls raised", case, core.errname(e), "ok"))
        return
    if len(hulls) != len(info["arrays"]):
        rec.corr.append(("number of hulls", case, len(hulls), len(info["arrays"])))
        return
    for i, (h, a) in enumerate(zip(hulls, info["arrays"])):
        hp = np.asarray(h.points)
        if hp.shape != a.shape or not np.array_equal(hp, a):
            nh_impl = hp.shape[0]
            rec.corr.append((f"array handed to ConvexHull for cell {i}", case, {"rows": int(nh_impl)},
                             {"rows": int(a.shape[0]), "refs_head": o["hull"][i][:8]}))
            return
        if not core.close(h.area, info["areas"][i], rel=1e-12):
            rec.corr.append((f"qhull not reproducible for cell {i}", case, float(h.area), info["areas"][i]))
            return
    sizes = [sum(1 for r in refs if r >= 0) for refs in o["hull"]]
    if sizes and min(sizes) == 0:
        rec.b("cell_without_helper_points")


MC_USE = MC_M


def mc_measures(G):
    N = len(G)
    X = mc_sample()[:(MC_M if N >= 60 else MC_USE)]     # small cells of large grids need the whole sample (sigma ~ 1 %)
    cnt = np.zeros(N)
    step = 500_000
    for s in range(0, len(X), step):
        idx = np.argmax(np.abs(X[s:s + step] @ G.T), axis=1)
        cnt += np.bincount(idx, minlength=N)
    p = cnt / len(X)
    with np.errstate(divide="ignore", invalid="ignore"):
        sig = np.sqrt((1 - p) / (p * len(X)))
    return p * PI ** 2, sig


def oracle_rotation(rec, case, label, N, grid, vols, banded):
    """the statement of C15 on the implementation's output `vols` (N >= 4)"""
    from molgri.space.voronoi import RotobjVoronoi
    if len(vols) != N:
        rec.fail.append((f"C15:count:{label}", f"{len(vols)} volumes for N = {N}", case, N, len(vols)))
        return
    if not np.all(np.isfinite(vols)) or np.any(vols <= 0):
        bad = [int(i) for i in np.nonzero(~(vols > 0))[0]]
        rec.fail.append((f"C15:positive:{label}", f"cell volumes not positive at cells {bad}", case, "> 0", [float(vols[i]) for i in bad]))
        return
    # first N of the 2N double-cover volumes
    try:
        with core.quiet():
            allv = np.asarray(RotobjVoronoi(grid).get_voronoi_volumes(approx=True), dtype=float)
    except Exception as e:
        rec.fail.append((f"C15:exception:{label}", f"the 2N double-cover volumes (RotobjVoronoi) raised {core.errname(e)}", case, "volumes", core.errname(e)))
        return
    if len(allv) != 2 * N or not np.allclose(vols, allv[:N], rtol=1e-12, atol=0):
        k = int(np.argmax(np.abs(vols - allv[:N]))) if len(allv) >= N else -1
        rec.fail.append((f"C15:prefix:{label}", f"reported volumes are not the first N of the 2N double-cover volumes (cell {k})", case,
                         [float(x) for x in allv[:N]], [float(x) for x in vols]))
    G = grid[:N]
    if not banded:
        return
    s = float(vols.sum() / PI ** 2)
    if abs(s - 1) > BAND_SUM:
        rec.fail.append((f"C15:sum_band:{label}", f"sum of the volumes / pi^2 = {s:.4f}, outside 1 +- {BAND_SUM}", case, 1.0, s))
    true, sig = mc_measures(G)
    rel = (vols - true) / true
    for i in range(N):
        if not np.isfinite(rel[i]) or abs(rel[i]) > BAND_CELL + 3 * sig[i]:
            rec.fail.append((f"C15:cell_band:{label}:cell{i}",
                             f"volume of cell {i} deviates {100 * rel[i]:.1f} % from the Monte-Carlo measure of its nearest-rotation region "
                             f"(band {100 * BAND_CELL:.0f} % + 3 sigma, sigma = {100 * sig[i]:.2f} %)", case, float(true[i]), float(vols[i])))
    rec.b("max_cell_dev_pct_%02d" % min(99, int(100 * np.max(np.abs(rel)))))


def ev_grid(rec, case):
    alg, N = case["alg"], int(case["N"])
    label = f"{alg}_{N}"
    rep = rep_of(case)
    for k_, v_ in rep.items():
        if v_ != PLAIN[k_]:
            rec.b(f"rep_{k_}={v_}")
    try:
        with core.quiet():
            g = make_grid4(alg, N, rep)
            vor = g.get_spherical_voronoi()
            vols = np.asarray(volumes_of(g, rep), dtype=float)
            grid = full_grid_of(g, rep)
    except Exception as e:
        rec.fail.append((f"C15:exception:{label}", f"volumes of {label} raised {core.errname(e)}: {e}", case, "volumes", core.errname(e)))
        return
    rec.b(f"N_{'lt4' if N < 4 else 'ge4'}")
    # --- correspondence
    rec.later("class attached by gen_grid", case, type(vor).__name__, {"op": "dispatch", "dims": 4, "N": N})
    if N < 4:
        rec.later("equal-share volumes", case, [float(v) for v in vols],
                  {"op": "rotvol", "pi": core.rat(PI), "tol": core.rat(TOL), "N": N, "grid": rows(grid), "areas": []}, rel=1e-15)
        # --- oracle: the documented estimate pi^2 / N, exactly N of them
        if len(vols) != N or not np.allclose(vols, PI ** 2 / N, rtol=1e-14, atol=0):
            rec.fail.append((f"C15:equal_share:{label}", f"fewer than four points: expected {N} times pi^2/{N}", case,
                             PI ** 2 / N, [float(v) for v in vols]))
        rec.nt.append(("grid", alg, N))
        return
    # the regime small grids never reach: cells that catch fewer than dim+1 of the 5000 helper points
    from scipy.spatial.distance import cdist
    cnt = np.bincount(np.argmin(cdist(helper_quaternions(), grid, metric="cos"), axis=1), minlength=2 * N)
    starved = int((cnt < grid.shape[1] + 1).sum())
    rec.b("cells_with_fewer_than_dim+1_helper_points", starved)
    rec.b("cells_with_fewer_than_dim+1_helper_points_reported_half", int((cnt[:N] < grid.shape[1] + 1).sum()))
    if starved:
        rec.b("grids_with_starved_cells")
    if case.get("oracle_only"):          # large grid of the quick tier: statement oracle only (the model tie at this N is in thorough)
        rec.b("large_grid_oracle_only")
        rec.nt.append(("grid", alg, N))
        oracle_rotation(rec, case, label, N, grid, vols, banded=True)
        return
    info = model_rotation(rec, case, grid, N, vols, "cell volumes")
    if "err" in info:
        rec.corr.append(("model raises, implementation returns volumes", case, "volumes", info))
        info = None
    elif info["cells"]["upper"] != list(range(N)):
        rec.corr.append(("upper indices of the double cover", case, "first N expected by the layout", info["cells"]["upper"]))
    full = getattr(vor, "full_voronoi", None)
    if full is not None and info is not None:
        compare_intermediate(rec, case, full, info)
    rec.nt.append(("grid", alg, N))
    if N in (5, 8):
        rec.samples.append({**case, "volumes": [float(v) for v in vols]})
    # --- oracle
    oracle_rotation(rec, case, label, N, grid, vols, banded=True)


def random_double_cover(N, seed):
    rng = np.random.default_rng([MC_SEED, seed, N])
    G = rng.normal(size=(N, 4))
    G /= np.linalg.norm(G, axis=1)[:, None]
    for r in G:
        k = int(np.nonzero(r)[0][0])
        if r[k] < 0:
            r *= -1
    return np.vstack([G, -G])


def ev_randgrid(rec, case):
    from molgri.space.voronoi import HalfRotobjVoronoi
    N, seed = int(case["N"]), int(case["seed"])
    label = f"random_{N}_{seed}"
    grid = random_double_cover(N, seed)
    rep = case.get("rep") or {}
    try:
        with core.quiet():
            arr = array_rep(grid, rep.get("array", "C"))
            det = rep.get("detailed", "absent")
            if rep.get("kw"):
                vor = HalfRotobjVoronoi(my_array=arr, **flag_kw("using_detailed_grid", det, True))
            else:
                vor = HalfRotobjVoronoi(arr, *([] if det == "absent" else [BOOL_REPS[det](True)]))
            vols = np.asarray(vor.get_voronoi_volumes(**flag_kw("approx", rep.get("approx", "absent"), False)), dtype=float)
        for k_, v_ in rep.items():
            rec.b(f"rep_randgrid_{k_}={v_}")
    except Exception as e:
        rec.corr.append(("HalfRotobjVoronoi on a random double cover raised", case, core.errname(e), "volumes"))
        return
    info = model_rotation(rec, case, grid, N, vols, "cell volumes of a random double cover")
    if "err" in info:
        rec.corr.append(("model raises, implementation returns volumes", case, "volumes", info))
        info = None
    full = getattr(vor, "full_voronoi", None)
    if full is not None and info is not None:
        compare_intermediate(rec, case, full, info)
    rec.nt.append(("randgrid", N, seed))
    rec.b("random_double_cover")
    # the bands are claimed for cube4D / randomQ only: positivity, count and the prefix clause are checked here
    oracle_rotation(rec, case, label, N, grid, vols, banded=False)


def ev_history(rec, case):
    """One grid object, its returned arrays overwritten by the caller between the requests for volumes.
    The default 4-D getter get_grid_as_array() (= only_upper=True) hands out a copy, so writing into what it returned must
    not change what the object reports: N volumes, those of a fresh object, and the first N of the 2N double-cover volumes
    of the grid the object itself reports.  (only_upper=False returns the stored array and is never written to.)"""
    from molgri.space.voronoi import RotobjVoronoi
    alg, N, order = case["alg"], int(case["N"]), case["order"]
    label = f"{alg}_{N}:{order}"
    rep = rep_of(case)
    rng = np.random.default_rng([MC_SEED, int(case["seed"]), N])
    try:
        with core.quiet():
            fresh = np.asarray(volumes_of(make_grid4(alg, N, PLAIN), PLAIN), dtype=float)   # reference: plain Python arguments
            g = make_grid4(alg, N, rep)
    except Exception as e:
        rec.fail.append((f"C15:exception:{alg}_{N}", f"volumes of a fresh {alg}_{N} raised {core.errname(e)}", case))
        return

    def overwrite(kind, which):
        with core.quiet():
            a = g.get_grid_as_array() if which == "default" else g.get_grid_as_array(only_upper=BOOL_REPS[rep["only_upper"]](True))
        if not a.flags.writeable or len(a) == 0:
            return
        if kind == "negate":
            rows_ = rng.choice(len(a), size=max(1, len(a) // 2), replace=False)
            a[rows_] *= -1
        elif kind == "permute":
            a[:] = a[rng.permutation(len(a))]
        elif kind == "reverse_negate":
            a[:] = -a[::-1]
        elif kind == "zero":
            a[:] = 0.0

    def check(step):
        try:
            with core.quiet():
                v = np.asarray(volumes_of(g, rep), dtype=float)
                cur = np.array(full_grid_of(g, rep), dtype=float, copy=True)
        except Exception as e:
            rec.fail.append((f"C15:history:{label}:{step}:exception", f"volumes after the history raised {core.errname(e)}", case))
            return False
        if len(v) != N:
            rec.fail.append((f"C15:history:{label}:{step}:count", f"{len(v)} volumes for N = {N} after the caller wrote into a returned array",
                             case, N, len(v)))
            return False
        if not np.allclose(v, fresh, rtol=1e-12, atol=0):
            rec.fail.append((f"C15:history:{label}:{step}:fresh", "volumes differ from those of a fresh object after the caller wrote into a "
                             "returned array", case, [float(x) for x in fresh], [float(x) for x in v]))
            return False
        if N >= 4:
            try:
                with core.quiet():
                    allv = np.asarray(RotobjVoronoi(cur).get_voronoi_volumes(approx=True), dtype=float)
            except Exception as e:
                rec.fail.append((f"C15:history:{label}:{step}:exception", f"double-cover volumes of the reported grid raised {core.errname(e)}", case))
                return False
            if len(allv) != 2 * N or not np.allclose(v, allv[:N], rtol=1e-12, atol=0):
                rec.fail.append((f"C15:history:{label}:{step}:prefix", "volumes are not the first N of the 2N double-cover volumes of the grid the "
                                 "object reports after the caller wrote into a returned array", case,
                                 [float(x) for x in allv[:N]], [float(x) for x in v]))
                return False
        return True

    steps = case["steps"]
    ok = True
    if order == "volumes_first":
        ok = check("initial")
    for k, (kind, which) in enumerate(steps):
        if not ok:
            break
        overwrite(kind, which)
        ok = check(f"after_{k + 1}_{kind}")
    rec.b("history_" + order)
    rec.nt.append(("history", alg, N, order, tuple(map(tuple, steps))))


# ------------------------------------------------------------------------------------------------------------------
# small kinds, evaluated in batches (one or two driver calls per batch)
# ------------------------------------------------------------------------------------------------------------------
def make_synth(case):
    """A synthetic Voronoi object through the package's own extension point: a subclass of AbstractVoronoi that supplies
    `_create_centers_vertices_regions`; `AbstractVoronoi.__init__` itself runs, so whatever it sets up exists."""
    from molgri.space.voronoi import AbstractVoronoi

    class Synth(AbstractVoronoi):
        def __init__(self, c, v, r, add):
            self.verif_harness_cvr = (c, v, r)
            super().__init__(additional_points=add)

        def _create_centers_vertices_regions(self):
            return self.verif_harness_cvr

    d = case["dim"]
    c = np.array(case["centers"], dtype=float).reshape(-1, d)
    v = np.array(case["verts"], dtype=float).reshape(-1, d)
    add = None if case["helpers"] is None else np.array(case["helpers"], dtype=float).reshape(-1, d)
    return Synth(c, v, [list(r) for r in case["regions"]], add), c, v, add


_HALF_BASE = None


def half_base():
    """A REALLY constructed HalfRotobjVoronoi (fixed random double cover, N = 5) and the 2N = 10 volumes of its full-sphere
    object.  The half-selection cases copy it and overwrite only the public attribute `my_array`; everything `__init__`
    created (also private data of a refactored class) is there, and the volumes selected from are real ones."""
    global _HALF_BASE
    if _HALF_BASE is None:
        from molgri.space.voronoi import HalfRotobjVoronoi
        with core.quiet():
            base = HalfRotobjVoronoi(random_double_cover(5, 0))
            allv = [float(x) for x in base.full_voronoi.get_voronoi_volumes(approx=True)]
        _HALF_BASE = (base, allv)
    return _HALF_BASE


def stub_plumbing_failure(case, e):
    """(2) of the stub rule: an AttributeError / TypeError that names a private attribute or helper, raised on a SYNTHETIC
    object, while the same call on a really constructed object works, is a failure of the stub - not of the property."""
    import re
    if not isinstance(e, (AttributeError, TypeError)) or not re.search(r"['\"\s._]_[A-Za-z]\w*", str(e)):
        return False
    try:
        base, _ = half_base()
        with core.quiet():
            if case["kind"] == "half":
                base.get_voronoi_volumes()
            else:
                base.full_voronoi.get_convex_hulls()
                base.full_voronoi.get_voronoi_volumes(approx=True)
        return True
    except Exception:
        return False


def impl_small(case):
    from molgri.space.voronoi import HalfRotobjVoronoi, MikroVoronoi
    k = case["kind"]
    try:
        with core.quiet():
            rep = case.get("rep") or {}
            if k == "mikro":
                d_, n_ = DIM_REPS[rep.get("dims", "int")](case["dims"]), N_REPS[rep.get("N", "int")](case["N"])
                mv = MikroVoronoi(dimensions=d_, N_points=n_) if rep.get("kw") else MikroVoronoi(d_, n_)
                return {"vols": [float(x) for x in mv.get_voronoi_volumes(**flag_kw("approx", rep.get("approx", "absent"), False))]}
            if k == "dir":
                from molgri.space.rotobj import SphereGrid3DFactory, SphereGridFactory
                a_, n_ = STR_REPS[rep.get("alg", "str")](case["alg"]), N_REPS[rep.get("N", "int")](case["N"])
                if rep.get("route") == "factory_dims":
                    g = SphereGridFactory.create(a_, n_, DIM_REPS[rep.get("dims", "int")](3))
                else:
                    g = SphereGrid3DFactory.create(a_, n_)
                vor = g.get_spherical_voronoi()
                out = {"cls": type(vor).__name__, "n": int(len(g.get_grid_as_array()))}
                if case["N"] < 4:
                    out["vols"] = [float(x) for x in vor.get_voronoi_volumes()]
                return out
            if k == "half":
                import copy
                base, allv = half_base()
                o = copy.copy(base)            # keeps everything __init__ set up; only the public grid array is replaced
                o.my_array = np.array(case["grid"], dtype=float).reshape(-1, 4)
                return {"vols": [float(x) for x in o.get_voronoi_volumes()], "all": allv}
            if k == "synth":
                s, c, v, add = make_synth(case)
                hulls = s.get_convex_hulls()
                vols = s.get_voronoi_volumes()
                return {"points": [np.asarray(h.points) for h in hulls], "vols": [float(x) for x in vols]}
    except Exception as e:
        if k in ("half", "synth") and stub_plumbing_failure(case, e):
            return {"stub_incompatible": f"{type(e).__name__}: {e}"}
        return {"err": core.errname(e)}
    raise core.HarnessError(f"unknown case kind {k}")


def ops_small(case):
    k = case["kind"]
    if k == "mikro":
        return [{"op": "mikro", "pi": core.rat(PI), "dims": case["dims"], "N": case["N"]}]
    if k == "dir":
        ops = [{"op": "dispatch", "dims": 3, "N": case["N"]}]
        if case["N"] < 4:
            ops.append({"op": "mikro", "pi": core.rat(PI), "dims": 3, "N": case["N"]})
        return ops
    if k == "half":
        return [{"op": "halfvol", "tol": core.rat(TOL), "grid": rows(np.array(case["grid"], dtype=float).reshape(-1, 4)),
                 "all": [core.rat(x) for x in half_base()[1]]}]
    if k == "synth":
        d = case["dim"]
        return [cells_op(np.array(case["centers"], dtype=float).reshape(-1, d), np.array(case["verts"], dtype=float).reshape(-1, d),
                         case["regions"], None if case["helpers"] is None else np.array(case["helpers"], dtype=float).reshape(-1, d))]
    raise core.HarnessError(f"unknown case kind {k}")


def strict_upper(q):
    """q_in_upper_sphere read literally ('first non-zero element positive') for rows without coordinates in (0, 1e-6)"""
    for x in q:
        if x != 0:
            return x > 0
    return False


def ev_small_batch(rec, cases):
    impl = [impl_small(c) for c in cases]
    ops, spans = [], []
    for c in cases:
        o = ops_small(c)
        spans.append((len(ops), len(ops) + len(o)))
        ops += o
    outs = rec.model(ops)
    synth_areas = {}
    for ci, (case, io, (a, b)) in enumerate(zip(cases, impl, spans)):
        mo = outs[a:b]
        k = case["kind"]
        rec.count += 1
        if "stub_incompatible" in io:
            rec.b("stub_incompatible")
            rec.notes.append(f"stub_incompatible: synthetic {k} object could not be driven ({io['stub_incompatible'][:160]}); the same call "
                             "on a really constructed object works - case skipped, not a disagreement")
            continue
        if k == "mikro":
            m = mo[0]
            if "err" in io or "err" in m:
                if io.get("err") != m.get("err"):
                    rec.corr.append(("MikroVoronoi outcome", case, io, m))
                rec.b("mikro_error_" + str(io.get("err")))
            else:
                mv = [float(core.unrat(v)) for v in m["ok"]]
                if len(mv) != len(io["vols"]) or not all(core.close(x, y, rel=1e-15) for x, y in zip(io["vols"], mv)):
                    rec.corr.append(("MikroVoronoi volumes", case, io["vols"], mv))
                # oracle: documented equal share
                d, N = case["dims"], case["N"]
                want = 4 * PI / N if d == 3 else PI ** 2 / N
                if len(io["vols"]) != N or not np.allclose(io["vols"], want, rtol=1e-14, atol=0):
                    rec.fail.append((f"C15:equal_share:mikro_{d}_{N}", f"MikroVoronoi({d},{N}) is not {N} times the equal share", case, want, io["vols"]))
                rec.nt.append(("mikro", d, N))
        elif k == "dir":
            if "err" in io:
                rec.fail.append((f"C15:exception:{case['alg']}_{case['N']}", f"direction grid raised {io['err']}", case))
                continue
            if mo[0].get("ok") != io["cls"]:
                rec.corr.append(("class attached by gen_grid (directions)", case, io["cls"], mo[0]))
            if case["N"] < 4:
                m = mo[1]
                mv = [float(core.unrat(v)) for v in m["ok"]] if "ok" in m else m
                if "err" in m or len(mv) != len(io["vols"]) or not all(core.close(x, y, rel=1e-15) for x, y in zip(io["vols"], mv)):
                    rec.corr.append(("equal-share areas (directions)", case, io["vols"], mv))
                N = case["N"]
                if len(io["vols"]) != N or not np.allclose(io["vols"], 4 * PI / N, rtol=1e-14, atol=0):
                    rec.fail.append((f"C15:equal_share:{case['alg']}_{N}", f"fewer than four directions: expected {N} times 4 pi/{N}", case,
                                     4 * PI / N, io["vols"]))
                rec.nt.append(("dir", case["alg"], N))
            rec.b("direction_grid")
        elif k == "half":
            m = mo[0]
            if "err" in io or "err" in m:
                if io.get("err") != m.get("err"):
                    rec.corr.append(("half selection outcome", case, {kk: vv for kk, vv in io.items() if kk != "all"}, m))
                rec.b("half_error_" + str(io.get("err")))
            else:
                mv = [float(core.unrat(v)) for v in m["ok"]]
                if mv != io["vols"]:
                    rec.corr.append(("half selection", case, io["vols"], mv))
                rec.nt.append(("half", json.dumps(case["grid"])))
            # oracle on rows without borderline coordinates
            g = np.array(case["grid"], dtype=float).reshape(-1, 4)
            if np.all((g == 0) | (np.abs(g) > 1e-6)):
                idx = [i for i, q in enumerate(g) if strict_upper(q)]
                allv = half_base()[1]
                if idx and max(idx) >= len(allv):
                    want = {"err": "IndexError"}
                else:
                    want = {"vols": [float(allv[i]) for i in idx]}
                if want != {kk: vv for kk, vv in io.items() if kk != "all"}:
                    rec.fail.append(("C15:half_selection", "selected volumes are not those of the rows whose first non-zero coordinate is positive",
                                     case, want, io))
            else:
                rec.b("half_borderline_rows_excluded_from_oracle")
        elif k == "synth":
            m = mo[0]
            rec.b(f"synth_dim{case['dim']}")
            if "err" in m:
                if io.get("err") != m["err"]:
                    rec.corr.append(("synthetic object: outcome", case, io.get("err", "ok"), m))
                rec.b("synth_error_" + m["err"])
                continue
            o = m["ok"]
            d = case["dim"]
            v = np.array(case["verts"], dtype=float).reshape(-1, d)
            add = None if case["helpers"] is None else np.array(case["helpers"], dtype=float).reshape(-1, d)
            arrs = arrays_from_refs(o, v, add)
            if len(o["first"]) < len(v):
                rec.b("synth_vertices_merged")
            areas, herr = [], None
            for arr in arrs:
                try:
                    areas.append(hull_area(arr))
                except Exception as e:
                    herr = core.errname(e)
                    break
            if "err" in io:
                if herr != io["err"]:
                    rec.corr.append(("synthetic object: implementation raised", case, io["err"], herr or "ok"))
                rec.b("synth_qhull_error")
                continue
            if herr is not None:
                rec.corr.append(("synthetic object: qhull refuses the model's array", case, "ok", herr))
                continue
            if len(arrs) != len(io["points"]):
                rec.corr.append(("synthetic object: number of hulls", case, len(io["points"]), len(arrs)))
                continue
            bad = [i for i, (x, y) in enumerate(zip(io["points"], arrs)) if x.shape != y.shape or not np.array_equal(x, y)]
            if bad:
                i = bad[0]
                rec.corr.append((f"synthetic object: array handed to ConvexHull for cell {i}", case,
                                 io["points"][i].tolist()[:6], arrs[i].tolist()[:6]))
                continue
            if any(len([r for r in refs if r >= 0]) == 0 for refs in o["hull"]) and add is not None:
                rec.b("synth_cell_without_helpers_or_np_any_false")
            rec.later("synthetic object: volumes = area / 2", case, io["vols"], {"op": "fullvol", "areas": [core.rat(x) for x in areas]})
            rec.nt.append(("synth", d, len(arrs), core.rat(float(np.sum(v)) + (0.0 if add is None else float(np.sum(add))))))
            # oracle: positive finite volumes
            if not all(np.isfinite(x) and x > 0 for x in io["vols"]):
                rec.fail.append(("C15:positive:synthetic", "non-positive volume of a synthetic cell", case, "> 0", io["vols"]))

# ------------------------------------------------------------------------------------------------------------------
# generators
# ------------------------------------------------------------------------------------------------------------------
def rnd_unit(rng, n, d):
    x = np.array([[rng.gauss(0, 1) for _ in range(d)] for _ in range(n)])
    return x / np.linalg.norm(x, axis=1)[:, None]


def gen_synth(rng):
    from scipy.spatial import SphericalVoronoi
    d = rng.choice([3, 4, 4])
    n = rng.randint(d + 3, 14)
    c = rnd_unit(rng, n, d)
    sv = SphericalVoronoi(c, radius=1, threshold=1e-6)
    v = np.array(sv.vertices, dtype=float)
    regions = [[int(x) for x in r] for r in sv.regions]
    mode = rng.choice(["plain", "dupverts", "nearverts", "dupcenter", "scaled", "fewhelpers", "zerohelper", "nohelpers"])
    nh = rng.randint(40, 160)
    add = rnd_unit(rng, nh, d) * np.array([[rng.choice([1.0, 0.5, 2.0])] for _ in range(nh)])
    if mode == "dupverts":       # exact duplicates: np.unique removes them, regions are re-pointed
        k = rng.randint(1, 4)
        for _ in range(k):
            j = rng.randrange(len(v))
            v = np.vstack([v, v[j:j + 1]])
            for r in regions:
                if j in r and rng.random() < 0.6:
                    r[r.index(j)] = len(v) - 1
        perm = list(range(len(v)))
        rng.shuffle(perm)
        inv = {old: new for new, old in enumerate(perm)}
        v = v[perm]
        regions = [[inv[x] for x in r] for r in regions]
    elif mode == "nearverts":    # np.isclose merges what np.unique keeps apart
        for _ in range(rng.randint(1, 4)):
            j = rng.randrange(len(v))
            eps = rng.choice([1e-9, 3e-9, 5e-6, 2e-5, 1e-4]) * np.array([rng.choice([-1, 0, 1]) for _ in range(d)])
            v = np.vstack([v, v[j:j + 1] + eps])
            for r in regions:
                if j in r and rng.random() < 0.7:
                    r[r.index(j)] = len(v) - 1
        if rng.random() < 0.5:   # the near copy comes first: old2new must point to it
            v = v[::-1].copy()
            regions = [[len(v) - 1 - x for x in r] for r in regions]
    elif mode == "dupcenter":    # two identical centres: every helper point of that direction is an exact tie
        j = rng.randrange(n)
        c = np.vstack([c, c[j:j + 1]])
        regions.append(list(regions[j]))
    elif mode == "scaled":       # non-unit centres: the cosine distance must ignore the norms
        c = c * np.array([[rng.choice([0.25, 0.5, 1.0, 2.0, 3.0])] for _ in range(len(c))])
    elif mode == "fewhelpers":   # some cells get no helper point
        add = add[:rng.randint(1, 4)]
    elif mode == "zerohelper":   # the only point of cell 0 is the zero vector: np.any(...) is False
        close0 = np.argmax(add @ c.T / np.linalg.norm(c, axis=1), axis=1) == 0
        add = np.vstack([add[~close0], np.zeros((1, d))])
    helpers = None if mode == "nohelpers" else add.tolist()
    return {"kind": "synth", "mode": mode, "dim": d, "centers": c.tolist(), "verts": v.tolist(), "regions": regions, "helpers": helpers}


def gen_half(rng):
    n = rng.randint(0, 7)
    vals = [0.0, 0.0, 1.0, -1.0, 0.5, -0.5, 1e-9, -1e-9, 1e-8, -1e-8, 1.0000000000000002e-8, 2e-8, -2e-8, 1e-7, -1e-7]
    if rng.random() < 0.5:      # no coordinate near the tolerance: the literal reading of the docstring applies (oracle)
        vals = [0.0, 0.0, 0.0, 1.0, -1.0, 0.5, -0.5, 0.25, -0.75]
    grid = [[rng.choice(vals) for _ in range(4)] for _ in range(n)]
    if rng.random() < 0.4:      # a double cover
        grid = grid + [[-x for x in q] for q in grid]
    if rng.random() < 0.15:     # more rows than the 10 volumes of the base object: IndexError when such a row is selected
        grid = grid + [[rng.choice(vals) for _ in range(4)] for _ in range(rng.randint(1, 4) + max(0, 10 - len(grid)))]
    return {"kind": "half", "grid": grid}


def tier_Ns(ctx):
    if ctx.quick:
        extra = sorted(ctx.rng.sample(range(13, 41), 2))
        return list(range(1, 13)) + [17] + [n for n in extra if n != 17]
    return list(range(1, 61)) + [80, 100, 120, 150, 272]


def quick_large(ctx):
    """large randomQ grids of the quick tier (cells starved of helper points): randomQ_120 always, one of 100/150 by seed"""
    return [120, random.Random(f"C15-large-{ctx.seed}").choice([100, 150])]


def jobs_for(ctx):
    """list of jobs: ('grid'|'randgrid', case) or ('small', [cases])"""
    jobs = []
    seen = set()
    for f in ctx.open_findings + ctx.fixed_findings:          # corpus first
        for c in f.get("cases", []):
            jobs.append((c["kind"], c) if c["kind"] in ("grid", "randgrid", "history", "repsweep", "repsweep1") else ("small", [c]))
            if c["kind"] == "grid":
                seen.add((c["alg"], c["N"]))
    rr = random.Random(f"C15-rep-{ctx.seed}")      # representation of every argument, drawn per case
    for N in tier_Ns(ctx):
        for alg in ("randomQ", "cube4D"):
            if (alg, N) not in seen:
                jobs.append(("grid", {"kind": "grid", "alg": alg, "N": N, "rep": draw_rep(rr)}))
    if ctx.quick:
        for N in quick_large(ctx):
            jobs.append(("grid", {"kind": "grid", "alg": "randomQ", "N": N, "oracle_only": True, "rep": draw_rep(rr)}))
    # exhaustive sweep of all representation families over small fixed grids (N >= 4 and the tiny-grid branch)
    for alg, N in ([("randomQ", 5), ("cube4D", 8), ("randomQ", 3)] if ctx.quick else
                   [("randomQ", 5), ("cube4D", 8), ("randomQ", 3), ("cube4D", 4), ("randomQ", 12), ("cube4D", 2), ("cube4D", 17)]):
        jobs.append(("repsweep", {"kind": "repsweep", "alg": alg, "N": N}))
    nrand = 6 if ctx.quick else 60
    for _ in range(nrand):
        N = ctx.rng.choice([4, 5, 6, 7, 9, 12] if ctx.quick else [4, 5, 6, 7, 8, 9, 11, 14, 20, 30])
        jobs.append(("randgrid", {"kind": "randgrid", "N": N, "seed": ctx.rng.randrange(10 ** 6),
                                  "rep": {"array": rr.choice(ARRAY_REPS), "detailed": rr.choice(FLAG_REPS), "kw": rr.random() < 0.5,
                                          "approx": rr.choice(FLAG_REPS)}}))
    kinds = ["negate", "permute", "reverse_negate", "zero"]
    for _ in range(6 if ctx.quick else 40):
        N = ctx.rng.choice([4, 5, 6, 8, 9, 12] if ctx.quick else [1, 3, 4, 5, 6, 8, 9, 12, 17, 25])
        steps = [[ctx.rng.choice(kinds[:3] if k == 0 else kinds), ctx.rng.choice(["default", "only_upper"])] for k in range(2)]
        jobs.append(("history", {"kind": "history", "alg": ctx.rng.choice(["randomQ", "cube4D"]), "N": N, "seed": ctx.rng.randrange(10 ** 6),
                                 "order": ctx.rng.choice(["overwrite_first", "volumes_first"]), "steps": steps, "rep": draw_rep(rr)}))
    small = []
    for d in (3, 4, 2, 5):
        for N in range(0, 8):
            small.append({"kind": "mikro", "dims": d, "N": N})          # plain
            # numpy integers: N >= 1 only and no 0-d array (see REPS_LEFT_OUT)
            small.append({"kind": "mikro", "dims": d, "N": N, "rep": {
                "N": "int" if N == 0 else rr.choice(["np.int64", "np.int32", "np.uint16"]), "dims": rr.choice(list(DIM_REPS)),
                "kw": rr.random() < 0.5, "approx": rr.choice(FLAG_REPS)}})
    for alg in ("ico", "cube3D", "randomS"):
        for N in range(1, 7):
            small.append({"kind": "dir", "alg": alg, "N": N, "rep": {
                "N": rr.choice(list(N_REPS)), "alg": rr.choice(list(STR_REPS)), "route": rr.choice(["factory3", "factory_dims"]),
                "dims": rr.choice(list(DIM_REPS))}})
    small.append({"kind": "dir", "alg": "zero3D", "N": 1})
    for _ in range(40 if ctx.quick else 400):
        small.append(gen_synth(ctx.rng))
    for _ in range(120 if ctx.quick else 1500):
        small.append(gen_half(ctx.rng))
    per = 40 if ctx.quick else 120
    for i in range(0, len(small), per):
        jobs.append(("small", small[i:i + per]))
    return jobs


# ------------------------------------------------------------------------------------------------------------------
# execution
# ------------------------------------------------------------------------------------------------------------------
def _init_worker():
    try:
        from threadpoolctl import threadpool_limits
        globals()["_tp"] = threadpool_limits(1)
    except Exception:
        pass


def run_job(job):
    kind, payload = job
    rec = Rec()
    t0 = time.time()
    try:
        if kind == "grid":
            rec.count += 1
            ev_grid(rec, payload)
        elif kind == "randgrid":
            rec.count += 1
            ev_randgrid(rec, payload)
        elif kind == "history":
            rec.count += 1
            ev_history(rec, payload)
        elif kind in ("repsweep", "repsweep1"):
            ev_repsweep(rec, payload)
        else:
            ev_small_batch(rec, payload)
        if os.environ.get("C15_TIMING"):
            print(f"[C15 timing] {kind} {str(payload)[:60]} {time.time() - t0:.1f}s", flush=True)
        return rec, None
    except Exception:
        return rec, f"job {kind} {str(payload)[:300]} crashed: {traceback.format_exc()}"


def weight(job):
    kind, p = job
    if kind == "grid":
        return p["N"] ** 2 * (3 if p["alg"] == "cube4D" else 1) * (0.5 if p.get("oracle_only") else 1)
    if kind in ("randgrid", "history"):
        return p["N"] ** 2
    if kind in ("repsweep", "repsweep1"):
        return 40 * p["N"] ** 2
    return 50


def execute(ctx, jobs, parallel=True):
    mc_sample()            # created before the fork: shared by the workers
    order = sorted(range(len(jobs)), key=lambda i: -weight(jobs[i]))
    results = [None] * len(jobs)
    nproc = min(len(jobs), max(1, min(16, (os.cpu_count() or 2)) - 2))
    if parallel and nproc > 1:
        import multiprocessing as mp
        with mp.get_context("fork").Pool(nproc, initializer=_init_worker) as pool:
            for i, r in zip(order, pool.imap(run_job, [jobs[i] for i in order], chunksize=1)):
                results[i] = r
    else:
        for i in order:
            results[i] = run_job(jobs[i])
    pending = []
    for (rec, err) in results:        # merged in generation order: the report does not depend on scheduling
        if err:
            raise core.HarnessError(err)
        rec.merge_into(ctx)
        pending += rec.pending
    for i in range(0, len(pending), 300):
        chunk = pending[i:i + 300]
        outs = ctx.model([p["op"] for p in chunk])
        for p, m in zip(chunk, outs):
            resolve(ctx, p, m)


def resolve(ctx, p, m):
    """second-phase comparison: model output `m` of the queued op against the implementation's value"""
    impl = p["impl"]
    if isinstance(impl, str):                      # dispatch
        if m.get("ok") != impl:
            ctx.corr(p["what"], p["case"], impl, m)
        return
    if "err" in m:
        ctx.corr(p["what"] + " (model raises)", p["case"], impl, m)
        return
    mv = [float(core.unrat(v)) for v in m["ok"]]
    if len(mv) != len(impl) or not all(core.close(a, b, rel=p["rel"]) for a, b in zip(impl, mv)):
        k = int(np.argmax(np.abs(np.array(impl) - np.array(mv)))) if len(mv) == len(impl) and len(mv) else -1
        ctx.corr(f"{p['what']} (largest difference at cell {k})", p["case"], impl, mv)


def run(ctx):
    ctx.note("helper points: the model receives numpy's first 5000 random quaternions after seed(1), re-generated by the harness and "
             "compared with the object's additional_points; scipy's SphericalVoronoi and ConvexHull('QJ') are parameters of the model, "
             "evaluated by the harness on the model's arrays (qhull is deterministic: the implementation's hull areas are reproduced to 1e-12)")
    ctx.note("np.isclose / np.allclose / cdist are evaluated exactly in the model; a helper point whose two best cosine distances differ "
             "by less than float rounding could be assigned differently (not observed; any such case would show up as a disagreement)")
    ctx.note(f"tolerance bands (12 % sum, 30 % per cell) are NOT theorems: evaluated only by the Monte-Carlo oracle, fixed sample of "
             f"{MC_M} points, quick uses its first 10^6 for grids with N < 60 and the whole sample for larger ones (seed {MC_SEED}, independent of VERIF_SEED), reported only beyond band + 3 sigma")
    global MC_USE
    MC_USE = 1_000_000 if ctx.quick else MC_M
    jobs = jobs_for(ctx)
    ctx.extra_cov["rotation_grid_Ns"] = (tier_Ns(ctx) + [f"randomQ_{n} (oracle only)" for n in quick_large(ctx)]) if ctx.quick else "1..60, 80, 100, 120, 150, 272"
    ctx.extra_cov["representations"] = {
        "N": list(N_REPS), "algorithm name": list(STR_REPS), "dimensions": list(DIM_REPS), "flags (approx, only_upper, time_generation, "
        "using_detailed_grid)": list(FLAG_REPS), "routes": list(ROUTES4) + ["SphereGrid3DFactory", "MikroVoronoi positional / keyword",
        "HalfRotobjVoronoi positional / keyword"], "volume getters": list(GETTERS), "grid arrays": list(ARRAY_REPS),
        "left_out": REPS_LEFT_OUT}
    ctx.extra_cov["monte_carlo"] = {"points_used": MC_USE, "sample": MC_M, "seed": MC_SEED}
    execute(ctx, jobs, parallel=True)


def replay(ctx, cases):
    jobs = [((c["kind"], c) if c["kind"] in ("grid", "randgrid", "history", "repsweep", "repsweep1") else ("small", [c])) for c in cases]
    execute(ctx, jobs, parallel=False)
