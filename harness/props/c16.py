"""C16 - radial grids (molgri.space.translations: TranslationParser, get_increments, get_between_radii).

Every case is generated from a *semantic description* (the intended distances in nm as exact decimals, or the
linspace / arange parameters) and then rendered into text with random number spellings, brackets, nesting, order and
whitespace.  Three things happen per case:

  C  correspondence: the Lean model (`Molgri/Model/Trans.lean`, op `full`) reads the same text; grid, error class,
     increments, between-radii (both `include_zero`), increment sum are compared;
  S  oracle: the statement of C16 is evaluated on the implementation's outputs against the semantic description
     with exact `Fraction` arithmetic - independent of the Lean model and of the text;
  the identifier: md5 of the array bytes recomputed here; respellings of the same distances (other order, brackets,
     nesting, whitespace, number spellings) must give bit-identical arrays and equal identifiers.
"""
from __future__ import annotations

import hashlib
import math
import re
from decimal import Decimal
from fractions import Fraction

import numpy as np

import core

RULE = ("strings rendered from semantic descriptions: (a) lists/tuples/bare numbers/nested rectangular lists of 0-12 decimals "
        "(<= 6 significant digits, random order, duplicates, zero, negatives) with random spellings (int, trailing point, "
        "leading point, leading zeros, exponent e/E with sign, '+'), brackets, trailing commas, blanks/tabs; (b) linspace with "
        "2-6 arguments (ascending, descending, equal ends, num 0/1/2/.., default 50, endpoint flag, float/negative num), "
        "prefixes such as 'np.', 'xlinspace', 'range linspace', text after ')'; (c) range/arange with 1-4 arguments, positive / "
        "negative / zero step, empty results; malformed texts of nine kinds (missing comma, double comma, unbalanced or mismatched "
        "brackets, dangling / double sign, ragged nesting) that must be rejected; (d) one- or two-character corruptions of such strings (deleted, inserted, "
        "replaced character); (e) arrays given directly to get_increments/get_between_radii/PositionVoronoi.get_voronoi_radii, each in one of 15 input representations (float64, "
        "float32, longdouble, list/tuple of floats or ints, int64/int32/uint8, strided/reversed-twice/read-only/Fortran-column views; "
        "exhaustive over 13 fixed radii sets, seed-chosen otherwise); every text additionally in one of 11 text representations "
        "(np.str_, blanks, tabs, LF, CRLF, CR, form feed around it; exhaustive over 9 fixed texts). A case is non-trivial when the "
        "implementation accepts it with at least one radius (or, for (e), returns boundaries); distinct by text / array. "
        "range/arange with the stop exactly on the lattice start + n*step for 1-, 2-, 3-decimal parameters (400 per unit) are a "
        "class of their own. np.arange decides its length as ceil((stop-start)/step) in float64: a case is included when that "
        "count on the user's own numbers equals the exact rational count from the decimal literals (then the expected grid is the "
        "exact progression x10 and no element equals the excluded stop), and excluded and counted only when the two disagree.")
CHUNK = 500

TOL_REL = 1e-12

# ------------------------------------------------------------------------------------------------
# decimals and their spellings
# ------------------------------------------------------------------------------------------------
# a decimal is (m, f): value m / 10**f with integer m (may be negative), f >= 0


def dec_frac(d):
    return Fraction(d[0], 10 ** d[1])


def rand_decimal(rng, allow_zero=True):
    kind = rng.random()
    if kind < 0.30:
        m, f = rng.randint(0 if allow_zero else 1, 12), 0
    elif kind < 0.75:
        f = rng.choice([1, 1, 2, 2, 3])
        m = rng.randint(0 if allow_zero else 1, 5 * 10 ** f)
    elif kind < 0.9:
        f = rng.choice([4, 5, 6])
        m = rng.randint(1, 999999)
    else:
        m, f = rng.choice([(0, 0), (1, 0), (5, 1), (1, 1), (25, 2), (10, 0), (100, 0), (15, 1), (3, 1), (1, 3)])
        if m == 0 and not allow_zero:
            m = 1
    return (m, f)


def plain(m, f):
    """decimal expansion of m/10^f, m >= 0, with exactly f digits behind the point (f = 0: integer)"""
    s = str(m)
    if f == 0:
        return s
    s = s.rjust(f + 1, "0")
    return s[:-f] + "." + s[-f:]


def spell(rng, d, force_int=False):
    """one of many Python spellings of the non-negative decimal d; returns (text, is_int_literal)"""
    m, f = d
    assert m >= 0
    # normalise trailing zeros away sometimes / add some
    while f > 0 and m % 10 == 0 and rng.random() < 0.7:
        m //= 10
        f -= 1
    if force_int:
        assert f == 0
        t = str(m)
        if m == 0 and rng.random() < 0.1:
            t = "00"
        return t, True
    r = rng.random()
    if r < 0.45:
        t = plain(m, f)
        if f == 0:
            if m == 0 and rng.random() < 0.05:
                return "00", True
            return t, True
        if t.startswith("0.") and rng.random() < 0.25:
            t = t[1:]                       # .5
        return t, False
    if r < 0.65:
        extra = rng.choice([0, 0, 1, 2])    # 12. / 12.0 / 1.50
        t = plain(m * 10 ** extra, f + extra)
        if f + extra == 0:
            t += "."
        if rng.random() < 0.15:
            t = "0" * rng.randint(1, 2) + t     # leading zeros are fine in a float literal
        return t, False
    # exponent form: value = mant * 10^x
    x = rng.randint(-4, 4)
    ff = f + x                              # mant = m / 10^(f+x)
    if ff < 0:
        mm, ff = m * 10 ** (-ff), 0
    else:
        mm = m
    t = plain(mm, ff)
    if ff == 0 and rng.random() < 0.3:
        t += "."
    elif t.startswith("0.") and rng.random() < 0.2:
        t = t[1:]
    xs = str(abs(x))
    if rng.random() < 0.15:
        xs = "0" + xs
    sign = "-" if x < 0 else rng.choice(["", "", "+"])
    return t + rng.choice(["e", "e", "E"]) + sign + xs, False


def ws(rng):
    r = rng.random()
    if r < 0.55:
        return ""
    if r < 0.85:
        return " "
    return rng.choice(["  ", "\t", " \t", "   ", "\t\t "])


def signed(rng, d, force_int=False):
    """spelling of a possibly negative decimal; '-0' is only written with an integer zero (see NOTE_NEGZERO)"""
    m, f = d
    if m < 0:
        t, i = spell(rng, (-m, f), force_int)
        return "-" + ws(rng) * (rng.random() < 0.2) + t, i
    t, i = spell(rng, d, force_int)
    if rng.random() < 0.08:
        return "+" + ws(rng) * (rng.random() < 0.2) + t, i
    if m == 0 and rng.random() < 0.03:
        return "-" + spell(rng, (0, 0), True)[0], True      # -0 : the integer zero
    return t, i


# ------------------------------------------------------------------------------------------------
# rendering lists / tuples / nested lists
# ------------------------------------------------------------------------------------------------
def render_seq(rng, items, top=False):
    """items: rendered element texts -> a list / tuple / bare tuple text"""
    n = len(items)
    body = ""
    for k, it in enumerate(items):
        body += ws(rng) + it + ws(rng)
        if k < n - 1:
            body += ","
    trailing = n > 0 and rng.random() < 0.1
    r = rng.random()
    if top and n >= 1 and r < 0.15:
        # bare tuple: 1, 2, 3   (a single element needs the trailing comma to stay a tuple; without it, it is a number)
        if n == 1 or trailing:
            body += "," + ws(rng)
        return body
    if r < 0.75:
        if trailing:
            body += "," + ws(rng)
        return "[" + (body if n else ws(rng)) + "]"
    if n == 1 or trailing:
        body += "," + ws(rng)
    return "(" + (body if n else ws(rng)) + ")"


def render_values(rng, decs):
    """text of a list form holding exactly the decimals decs (in this order, possibly reshaped to a rectangular nesting)"""
    n = len(decs)
    texts = [signed(rng, d)[0] for d in decs]
    r = rng.random()
    if n == 1 and r < 0.35:
        t = texts[0]
        if rng.random() < 0.3:
            t = "(" + ws(rng) + t + ws(rng) + ")"          # (x) is x
        return ws(rng) + t + ws(rng)
    if n >= 2 and r < 0.18:
        # rectangular nesting: rows x cols (x depth)
        divs = [a for a in range(1, n + 1) if n % a == 0]
        rows = rng.choice(divs)
        cols = n // rows
        rowtexts = [render_seq(rng, texts[i * cols:(i + 1) * cols]) for i in range(rows)]
        if rng.random() < 0.2 and rows % 2 == 0 and rows >= 2:
            half = rows // 2
            rowtexts = [render_seq(rng, rowtexts[:half]), render_seq(rng, rowtexts[half:])]
        return ws(rng) + render_seq(rng, rowtexts, top=True) + ws(rng)
    if n == 0 and r < 0.3:
        return ws(rng) + render_seq(rng, [render_seq(rng, []) for _ in range(rng.randint(1, 3))]) + ws(rng)   # [[], []]
    return ws(rng) + render_seq(rng, texts, top=True) + ws(rng)


def rats(fr):
    return [core.rat(Fraction(x)) for x in fr]


# ------------------------------------------------------------------------------------------------
# case generators
# ------------------------------------------------------------------------------------------------
def gen_list(rng, big=False):
    n = rng.choice([0, 1, 1, 2, 2, 3, 3, 4, 5, 6, 8, 12] + ([30, 80] if big else []))
    mode = rng.random()
    decs = []
    if mode < 0.70:          # distinct positive radii
        seen = set()
        while len(decs) < n:
            d = rand_decimal(rng, allow_zero=False)
            if dec_frac(d) not in seen:
                seen.add(dec_frac(d))
                decs.append(d)
    elif mode < 0.80:        # zero included
        decs = [rand_decimal(rng) for _ in range(n)]
        if n:
            decs[rng.randrange(n)] = (0, rng.choice([0, 0, 1]))
    elif mode < 0.90:        # duplicates
        decs = [rand_decimal(rng, allow_zero=False) for _ in range(n)]
        if n >= 2:
            m, f = decs[0]
            decs[rng.randrange(1, n)] = (m * 10, f + 1) if rng.random() < 0.5 else (m, f)
    else:                    # some negative
        decs = [rand_decimal(rng) for _ in range(n)]
        if n:
            k = rng.randrange(n)
            m, f = decs[k]
            decs[k] = (-(m or 1), f)
    rng.shuffle(decs)
    s = render_values(rng, decs)
    alts = []
    for _ in range(rng.choice([0, 1, 1, 2])):
        d2 = list(decs)
        rng.shuffle(d2)
        alts.append(render_values(rng, d2))
    return {"kind": "str", "s": s, "alts": alts,
            "intent": {"form": "list", "values": rats(dec_frac(d) for d in decs)}}


LIN_PREFIX = ["linspace", "linspace", "linspace", "np.linspace", "numpy.linspace", " linspace", "linspace ", "xlinspace\t",
              "linspace_range", "range linspace", "arange_or_linspace", "LINSPACE linspace"]
RANGE_PREFIX = ["range", "range", "arange", "arange", "np.arange", "numpy.arange", " range ", "xrange", "range_", "Range range",
                "lin_space arange"]
SUFFIX = ["", "", "", "", " ", ")", "garbage", " # range", " nm", ") + linspace", "\t# in nm (range)", "[0]"]


SUFFIX_NOLIN = [x for x in SUFFIX if "linspace" not in x]


def call_text(rng, prefix, args, close=True, suffixes=None):
    body = ",".join(ws(rng) + a + ws(rng) for a in args)
    if args and rng.random() < 0.05:
        body += "," + ws(rng)
    r = rng.random()
    if r < 0.06 and len(args) >= 2:
        body = "[" + body + "]"            # np.linspace(*[1, 2, 3]) works as well
    t = prefix + "(" + body
    if close or rng.random() < 0.5:
        t += ")" + rng.choice(suffixes or SUFFIX)
    return t


def gen_linspace(rng, big=False):
    a = rand_decimal(rng)
    b = rand_decimal(rng)
    r = rng.random()
    if r < 0.1:
        b = a
    elif r < 0.2 and a[0] > 0:
        a = (-a[0], a[1])                # negative start -> rejected (unless num == 0)
    nargs = rng.choice([2, 3, 3, 3, 3, 4, 4, 5, 1, 6])
    num = rng.choice([0, 1, 2, 2, 3, 3, 4, 5, 7, 10, 25, 50] + ([200, 1000] if big else []))
    endpoint = True
    args = [signed(rng, a)[0], signed(rng, b)[0]]
    intent = None
    if nargs == 1:
        args = args[:1]
        intent = {"form": "reject"}
    if nargs >= 3:
        q = rng.random()
        if q < 0.06:
            args.append(spell(rng, (num, 0))[0] if rng.random() < 0.5 else str(num) + ".0")
            if "." in args[-1] or "e" in args[-1].lower():
                intent = {"form": "reject"}        # a float num: TypeError
        elif q < 0.10:
            num = -rng.randint(1, 5)
            args.append("-" + str(-num))
            intent = {"form": "reject"}            # negative num: ValueError
        else:
            args.append(("+" if rng.random() < 0.05 else "") + spell(rng, (num, 0), force_int=True)[0])
    else:
        num = 50
    if nargs >= 4:
        e = rng.choice([(0, 0), (1, 0), (1, 0), (0, 1), (5, 1), (2, 0)])
        endpoint = e[0] != 0
        args.append(signed(rng, e)[0])
    if nargs >= 5:
        rs = rng.choice([(0, 0), (0, 0), (0, 1), (1, 0)])
        args.append(spell(rng, rs)[0])
        if rs[0] != 0:
            intent = intent or {"form": "reject"}  # retstep: (array, step) cannot be sorted into one array
    if nargs >= 6:
        args.append(str(rng.randint(0, 3)))
        intent = {"form": "reject"}                # collides with dtype=float
    if intent is None:
        intent = {"form": "linspace", "start": core.rat(dec_frac(a)), "stop": core.rat(dec_frac(b)), "num": num,
                  "endpoint": endpoint}
    s = call_text(rng, rng.choice(LIN_PREFIX), args, close=rng.random() < 0.95)
    return {"kind": "str", "s": s, "alts": [], "intent": intent}


def exactly_binary(fr: Fraction) -> bool:
    d = fr.denominator
    return d & (d - 1) == 0 and d <= 2 ** 20 and abs(fr) < 2 ** 20


def arange_float_len(start, stop, step):
    """the element count numpy computes for np.arange on the numbers the user wrote: len = ceil((stop - start) / step)
    evaluated in float64 on the doubles nearest to the decimal literals (what the unchanged code does; checked against
    len(np.arange(...)) on 200 000 parameterisations of this generator's domain, and on every run for the excluded cases, see `compare`)"""
    fa, fb, fs = float(start), float(stop), float(step)
    return max(int(np.ceil((fb - fa) / fs)), 0)


def arange_excluded(start, stop, step):
    """numpy decides len = ceil((stop-start)/step) in floating point.  The case is *determined* - and included - when the
    exact rational count (from the decimal literals) and the float64 count on the user's own numbers agree; it is left
    out (and counted) only when they disagree (range(1, 1.3, 0.1): exact 3, float 4), or when an element that is
    mathematically zero is computed from a start/step without exact binary representation (it may come out as -1e-17
    and trip the non-negativity assertion)."""
    if step == 0:
        return False
    q = (stop - start) / step
    n = max(math.ceil(q), 0)
    if arange_float_len(start, stop, step) != n:
        return True
    if all(exactly_binary(x) for x in (start, step)):
        return False
    return any(start + k * step == 0 for k in range(1, min(n, 100000)))


def gen_lattice(rng):
    """range/arange whose stop lies exactly on the lattice start + n*step (so that it is excluded and the count is n), with
    1-, 2- or 3-decimal parameters, ascending and descending, 1-3 arguments"""
    d = rng.choice([1, 2, 2, 2, 3])
    nargs = rng.choice([1, 2, 3, 3, 3, 3, 3, 3])
    n = rng.choice([1, 2, 3, 3, 4, 5, 6, 7, 8, 10, 12, 15, 20, 30])
    if nargs == 1:
        a, st, b = (0, 0), (1, 0), (rng.randint(0, 12), 0)
        args = [signed(rng, b)[0]]
    elif nargs == 2:
        a = (rng.randint(0, 5 * 10 ** d), d)
        st = (1, 0)
        n = rng.randint(0, 8)
        b = (a[0] + n * 10 ** d, d)
        args = [signed(rng, a)[0], signed(rng, b)[0]]
    else:
        j = rng.randint(1, rng.choice([9, 30, 120]))
        if rng.random() < 0.25:
            # descending: start high, stop = start - n*step >= 0
            lo = rng.randint(0, 3 * 10 ** d)
            a, st, b = (lo + n * j, d), (-j, d), (lo, d)
        else:
            i = rng.randint(0, rng.choice([9, 50, 500]))
            a, st, b = (i, d), (j, d), (i + n * j, d)
        args = [signed(rng, a)[0], signed(rng, b)[0], signed(rng, st)[0]]
    intent = {"form": "arange", "start": core.rat(dec_frac(a)), "stop": core.rat(dec_frac(b)), "step": core.rat(dec_frac(st)),
              "lattice": True}
    s = call_text(rng, rng.choice(RANGE_PREFIX), args, close=rng.random() < 0.97, suffixes=SUFFIX_NOLIN)
    return {"kind": "str", "s": s, "alts": [], "intent": intent}


def gen_arange(rng, big=False):
    nargs = rng.choice([1, 2, 2, 3, 3, 3, 3, 3, 4])
    r = rng.random()
    if nargs == 1:
        b = rand_decimal(rng) if r < 0.8 else (-rng.randint(1, 5), 0)
        if r < 0.5:
            b = (rng.randint(0, 12), 0)
        a, st = (0, 0), (1, 0)
        args = [signed(rng, b)[0]]
    else:
        a = rand_decimal(rng)
        if r < 0.08 and a[0] > 0:
            a = (-a[0], a[1])
        if nargs == 2:
            st = (1, 0)
            n = rng.choice([0, 1, 2, 3, 5, 9])
            theta = rng.choice([(0, 0), (25, 2), (5, 1), (75, 2), (1, 1), (999, 3)])
        else:
            st = rand_decimal(rng, allow_zero=False)
            if st[1] > 3:
                st = (st[0] % 1000 + 1, 3)
            if rng.random() < 0.3:
                st = (-st[0], st[1])
            if rng.random() < 0.04:
                st = (0, 0)
            n = rng.choice([0, 1, 2, 3, 4, 6, 10, 20] + ([150, 600] if big else []))
            theta = rng.choice([(0, 0), (25, 2), (5, 1), (75, 2), (1, 1), (9, 1), (-5, 1), (-3, 0)])
        # stop = start + step * (n - theta): between n-1 and n steps fit  (theta = 0: exactly n steps, stop excluded)
        fa, fs, ft = dec_frac(a), dec_frac(st), dec_frac(theta)
        fb = fa + fs * (n - ft)
        if rng.random() < 0.1:
            fb = fa - fs * (n + 1)          # wrong direction: empty
        # write stop as a decimal
        fden = 10 ** 9
        mb = fb * fden
        assert mb.denominator == 1
        b = (int(mb), 9)
        while b[1] > 0 and b[0] % 10 == 0:
            b = (b[0] // 10, b[1] - 1)
        args = [signed(rng, a)[0], signed(rng, b)[0]]
        if nargs >= 3:
            args.append(signed(rng, st)[0])
        if nargs >= 4:
            args.append(str(rng.randint(0, 3)))
    fa, fb, fs = dec_frac(a), dec_frac(b), dec_frac(st)
    if nargs >= 4:
        intent = {"form": "reject"}
    else:
        intent = {"form": "arange", "start": core.rat(fa), "stop": core.rat(fb), "step": core.rat(fs)}
    s = call_text(rng, rng.choice(RANGE_PREFIX), args, close=rng.random() < 0.95)
    if "linspace" in s:
        # text after the closing bracket mentions linspace: the dispatch tests "linspace" first, so this IS a linspace
        third_is_int = nargs >= 3 and re.fullmatch(r"[+-]?[ \t]*\d+", args[2]) is not None
        if nargs == 1 or nargs >= 4 and not third_is_int or nargs == 3 and not third_is_int or (nargs >= 3 and fs < 0):
            intent = {"form": "reject"}
        elif nargs == 2:
            intent = {"form": "linspace", "start": core.rat(fa), "stop": core.rat(fb), "num": 50, "endpoint": True}
        elif nargs == 3:
            intent = {"form": "linspace", "start": core.rat(fa), "stop": core.rat(fb), "num": int(fs), "endpoint": True}
        else:
            intent = {"form": "linspace", "start": core.rat(fa), "stop": core.rat(fb), "num": int(fs),
                      "endpoint": int(args[3]) != 0}
    return {"kind": "str", "s": s, "alts": [], "intent": intent}


def gen_equiv(rng):
    """the same distances through different syntaxes; values exactly representable in binary so that all
    syntaxes must produce the bit-identical array (and hence the same identifier)"""
    n = rng.randint(1, 9)
    a = Fraction(rng.randint(0, 40), rng.choice([1, 2, 4, 8]))
    st = Fraction(rng.randint(1, 24), rng.choice([1, 2, 4, 8]))
    vals = [a + k * st for k in range(n)]

    def dtext(fr, force_int=False):
        # exact decimal expansion of a dyadic rational
        f = 0
        while (fr * 10 ** f).denominator != 1:
            f += 1
        return signed(rng, (int(fr * 10 ** f), f), force_int)[0]

    alts = []
    order = list(vals)
    rng.shuffle(order)
    f10 = lambda fr: (int(fr * 1000), 3)
    s = render_values(rng, [f10(v) for v in order])
    stop = vals[-1]
    if n >= 2 or rng.random() < 0.5:
        alts.append(call_text(rng, rng.choice(LIN_PREFIX), [dtext(a), dtext(stop), str(n)]))
        alts.append(call_text(rng, rng.choice(LIN_PREFIX), [dtext(stop), dtext(a), str(n)]))      # descending
    alts.append(call_text(rng, rng.choice(RANGE_PREFIX), [dtext(a), dtext(stop + st / 2), dtext(st)], suffixes=SUFFIX_NOLIN))
    alts.append(call_text(rng, rng.choice(RANGE_PREFIX), [dtext(stop), dtext(a - st / 4), dtext(-st)],
                              suffixes=SUFFIX_NOLIN))  # descending
    if a == 0 and st == 1:
        alts.append(call_text(rng, rng.choice(RANGE_PREFIX), [str(n)], suffixes=SUFFIX_NOLIN))
    rng.shuffle(alts)
    return {"kind": "str", "s": s, "alts": alts[:3], "exact_alts": True,
            "intent": {"form": "list", "values": rats(vals)}}


FUZZ_ALL = "0123456789.0123456789.e+-,()[],,()[]  \tE"
FUZZ_INT = "0123456789,()[] +-"


def gen_fuzz(rng):
    """corrupt a valid string by one or two character edits; no semantic description - the model decides"""
    r = rng.random()
    if r < 0.6:
        n = rng.randint(0, 5)
        decs = [rand_decimal(rng) for _ in range(n)]
        s = render_values(rng, decs)
        alphabet = FUZZ_ALL
    elif r < 0.8:
        args = [str(rng.randint(0, 20)), str(rng.randint(0, 30))] + ([str(rng.randint(0, 12))] if rng.random() < 0.7 else [])
        s = call_text(rng, rng.choice(LIN_PREFIX), args)
        alphabet = FUZZ_INT
    else:
        args = [str(rng.randint(0, 20)) for _ in range(rng.randint(1, 3))]
        if len(args) == 3 and rng.random() < 0.3:
            args[2] = "-" + args[2]
        s = call_text(rng, rng.choice(RANGE_PREFIX), args)
        alphabet = FUZZ_INT
    lo = 0
    if alphabet is FUZZ_INT and "(" in s and rng.random() < 0.8:
        lo = s.index("(")                 # mostly corrupt the argument list, not the keyword
    for _ in range(rng.choice([1, 1, 2])):
        if len(s) <= lo:
            break
        k = rng.randrange(lo, len(s) + 1)
        op = rng.random()
        if op < 0.4 and k < len(s):
            s = s[:k] + s[k + 1:]
        elif op < 0.8:
            s = s[:k] + rng.choice(alphabet) + s[k:]
        elif k < len(s):
            s = s[:k] + rng.choice(alphabet) + s[k + 1:]
    return {"kind": "str", "s": s, "alts": [], "intent": {"form": "fuzz"}}


def gen_malformed(rng):
    """texts that are certainly not a radial grid: every one must be rejected (by whichever exception)"""
    n = rng.randint(2, 6)
    texts = [signed(rng, rand_decimal(rng, allow_zero=False))[0] for _ in range(n)]
    k = rng.randrange(n - 1)
    kind = rng.choice(["missing_comma", "double_comma", "unclosed", "unopened", "mismatch", "leading_comma", "dangling_sign",
                       "ragged", "double_sign"])
    sep = ["," + ws(rng) for _ in range(n - 1)]
    o, c = rng.choice(["[]", "()"])
    if kind == "missing_comma":
        sep[k] = rng.choice([" ", "  ", "\t"])
        texts[k + 1] = texts[k + 1].lstrip("+- \t")      # "1 +2" would be a (malformed) binary operation, not a missing comma
    elif kind == "double_comma":
        sep[k] = "," + ws(rng) + ","
    body = texts[0] + "".join(a + b for a, b in zip(sep, texts[1:]))
    if kind == "unclosed":
        s = o + body
    elif kind == "unopened":
        s = body + c
    elif kind == "mismatch":
        s = o + body + ("]" if c == ")" else ")")
    elif kind == "leading_comma":
        s = o + "," + body + c
    elif kind == "dangling_sign":
        s = o + body + "," + ws(rng) + rng.choice("+-") + ws(rng) + c
    elif kind == "ragged":
        s = "[" + "[" + body + "]" + "," + ws(rng) + "[" + texts[0] + "]" + "]"
    elif kind == "double_sign":
        s = o + rng.choice(["--", "+-", "-+", "- -"]) + body.lstrip("+- \t") + c
    else:
        s = o + body + c
    return {"kind": "str", "s": ws(rng) + s + ws(rng), "alts": [], "intent": {"form": "reject"}}


# ------------------------------------------------------------------------------------------------
# input representations: the same radii / the same text in every form the public API accepts on the unchanged tree
# ------------------------------------------------------------------------------------------------
AREPS = ["f64", "list_float", "tuple_float", "list_int", "tuple_int", "int64", "int32", "uint8", "float32", "longdouble",
         "strided", "rev2", "readonly", "int64_strided", "fortran_col"]
INT_REPS = {"list_int": 2 ** 53, "tuple_int": 2 ** 53, "int64": 2 ** 53, "int64_strided": 2 ** 53, "int32": 2 ** 30, "uint8": 255}
AREPS_LEFT_OUT = {
    "0-d array / Python scalar": "IndexError / TypeError on the unchanged tree (my_array[0])",
    "2-d row (1,n), np.matrix": "ValueError (truth value of an array) on the unchanged tree",
    "2-d column (n,1)": "accepted without include_zero but returns shape (n,1); include_zero raises ValueError",
    "bool array": "TypeError (boolean subtract) for n >= 2",
    "float16": "11-bit mantissa: midpoints of the generated radii are not representable",
    "complex, object dtype, masked array, pandas Series": "accepted but outside the requested families (Series: empty -> KeyError "
                                                          "instead of IndexError)",
    "single radius r as fixed-width integer array with 2*r beyond the dtype": "CANDIDATE FINDING on the unchanged tree: R_1 = 2*r_1 "
        "is computed in the input dtype and wraps around silently: get_between_radii(np.array([200], dtype=np.uint8)) -> [144], "
        "np.array([100], dtype=np.int8) -> [-56], np.array([2000000000], dtype=np.int32) -> [-294967296]",
    "unsigned integer array that is not strictly increasing": "CANDIDATE FINDING on the unchanged tree: the difference wraps around "
        "and passes the positivity assertion: get_increments(np.array([5, 3], dtype=np.uint8)) -> [5, 254], get_between_radii -> "
        "[132., 130.] where every signed / float representation raises AssertionError",
}
TREPS = ["str", "np_str", "lead_blank", "trail_blank", "lead_tab", "trail_tab", "lf_tail", "crlf_tail", "cr_tail", "lf_head",
         "crlf_head", "ff_tail"]
TREPS_LEFT_OUT = {
    "bytes, bytearray, np.bytes_": "TypeError on the unchanged tree ('linspace' in bytes)",
    "memoryview, list, ndarray, number": "ValueError / TypeError on the unchanged tree (not a text)",
    "leading newline before a text that starts with a blank or tab": "literal_eval strips blanks only at the very start: "
        "'\\n [1]' is an IndentationError while ' [1]' is accepted - a genuine difference of Python's grammar",
    "BOM, NUL, no-break space, vertical tab, full-width digits": "SyntaxError on the unchanged tree",
}


def arep_ok(name, vals):
    """can the radii vals (Python floats) be written in representation `name` so that it denotes the same numbers and lies in the
    domain where the unchanged tree agrees with the float64 reference?"""
    if name in INT_REPS:
        lim = INT_REPS[name]
        if not all(float(v).is_integer() and abs(v) <= lim for v in vals):
            return False
        if name == "uint8":
            if any(v < 0 for v in vals) or any(b <= a for a, b in zip(vals, vals[1:])):
                return False                      # see AREPS_LEFT_OUT: unsigned wrap-around
        if len(vals) == 1 and name in ("int32", "uint8") and 2 * abs(vals[0]) > lim:
            return False                          # see AREPS_LEFT_OUT: 2*r_1 in the input dtype
        return True
    if name == "float32":
        return all(Fraction(v).denominator <= 8 and abs(v) < 2 ** 16 for v in vals)
    return True


def arep_build(name, vals):
    f = np.array(vals, dtype=float)
    if name == "f64":
        return f
    if name == "list_float":
        return [float(v) for v in vals]
    if name == "tuple_float":
        return tuple(float(v) for v in vals)
    if name == "list_int":
        return [int(v) for v in vals]
    if name == "tuple_int":
        return tuple(int(v) for v in vals)
    if name in ("int64", "int32", "uint8"):
        return np.array([int(v) for v in vals], dtype=name)
    if name == "float32":
        return f.astype(np.float32)
    if name == "longdouble":
        return f.astype(np.longdouble)
    if name == "strided":
        return np.array([x for v in vals for x in (v, -1.0)], dtype=float)[::2]
    if name == "int64_strided":
        return np.array([x for v in vals for x in (int(v), -1)], dtype=np.int64)[::2]
    if name == "rev2":
        return f[::-1][::-1]
    if name == "readonly":
        g = f.copy()
        g.setflags(write=False)
        return g
    if name == "fortran_col":
        return np.asfortranarray(np.stack([f, f + 1.0], axis=1))[:, 0] if len(vals) else f
    raise core.HarnessError(f"unknown array representation {name}")


def trep_ok(name, text):
    if name in ("lf_head", "crlf_head"):
        return bool(text) and text[0] not in " \t"
    return True


def trep_build(name, text):
    return {"str": lambda t: t, "np_str": lambda t: np.str_(t), "lead_blank": lambda t: "  " + t, "trail_blank": lambda t: t + " ",
            "lead_tab": lambda t: "\t" + t, "trail_tab": lambda t: t + "\t", "lf_tail": lambda t: t + "\n",
            "crlf_tail": lambda t: t + "\r\n", "cr_tail": lambda t: t + "\r", "lf_head": lambda t: "\n" + t,
            "crlf_head": lambda t: "\r\n" + t, "ff_tail": lambda t: t + "\x0c"}[name](text)


SWEEP_RADII = [[10, 20, 30], [1, 2, 5, 6], [3, 4, 8, 9], [1, 2], [7], [0, 3, 4], [0], [100, 250], [], [5, 3], [3, 3], [0.5, 1.5, 4],
               [2.5, 7.25, 7.5, 40]]
SWEEP_TEXTS = [("[1, 2, 3]", {"form": "list", "values": ["1/1", "2/1", "3/1"]}),
               ("(0.5, 0.25)", {"form": "list", "values": ["1/2", "1/4"]}),
               ("7", {"form": "list", "values": ["7/1"]}),
               ("[0, 1]", {"form": "list", "values": ["0/1", "1/1"]}),
               ("linspace(1, 5, 3)", {"form": "linspace", "start": "1/1", "stop": "5/1", "num": 3, "endpoint": True}),
               ("range(0.5, 3, 0.4)", {"form": "arange", "start": "1/2", "stop": "3/1", "step": "2/5"}),
               ("np.arange(5, 1, -1)", {"form": "arange", "start": "5/1", "stop": "1/1", "step": "-1/1"}),
               ("[-1, 2]", {"form": "list", "values": ["-1/1", "2/1"]}),
               ("[1 2]", {"form": "reject"})]


def sweep_cases():
    """exhaustive: every included representation of every fixed radii set / fixed text"""
    for r in SWEEP_RADII:
        for name in AREPS:
            if arep_ok(name, [float(v) for v in r]):
                yield {"kind": "arr", "r": [core.rat(float(v)) for v in r], "rep": name}
    for text, intent in SWEEP_TEXTS:
        for t in TREPS:
            if trep_ok(t, text):
                for a in ("f64", "list_float", "int64", "tuple_int", "readonly"):
                    yield {"kind": "str", "s": text, "alts": [], "intent": intent, "trep": t, "arep": a}


def gen_arr(rng):
    c = gen_arr_values(rng)
    vals = [float(core.unrat(v)) for v in c["r"]]
    c["rep"] = rng.choice([a for a in AREPS if arep_ok(a, vals)])
    return c


def gen_arr_values(rng):
    if rng.random() < 0.45:
        # integer-valued radii (odd and even differences) so that the integer representations apply
        n = rng.choice([0, 1, 1, 2, 2, 3, 3, 4, 6, 10])
        hi = rng.choice([12, 60, 250, 5000])
        x = [float(rng.randint(0, hi)) for _ in range(n)]
        if rng.random() < 0.85:
            x = sorted(set(x))
        return {"kind": "arr", "r": [core.rat(v) for v in x]}
    n = rng.choice([0, 1, 1, 2, 2, 3, 3, 4, 6, 10, 30])
    mode = rng.random()
    if mode < 0.7:
        x = sorted({rng.choice([rng.uniform(0.01, 50), rng.randint(1, 400) / 8, rng.randint(1, 400) / 8, 10 ** rng.uniform(-3, 3)])
                    for _ in range(n)})
    elif mode < 0.8:
        x = sorted(rng.uniform(0, 50) for _ in range(n))
        if x:
            x[0] = 0.0
    elif mode < 0.9:
        x = [rng.uniform(-5, 50) for _ in range(n)]               # unsorted, maybe negative
    else:
        x = sorted(rng.randint(1, 6) * 2.5 for _ in range(n))     # duplicates likely
    return {"kind": "arr", "r": [core.rat(float(v)) for v in x]}


CORPUS = [
    # (text, intent) - written-out spellings that every run exercises (test_parsers' strings among them)
    ("[1, 2, 3]", {"form": "list", "values": ["1/1", "2/1", "3/1"]}),
    ("[3,1,2]", {"form": "list", "values": ["3/1", "1/1", "2/1"]}),
    ("(1, 3, 5)", {"form": "list", "values": ["1/1", "3/1", "5/1"]}),
    ("2", {"form": "list", "values": ["2/1"]}),
    ("  [1,  2 ]", {"form": "list", "values": ["1/1", "2/1"]}),
    ("0.5, 0.25", {"form": "list", "values": ["1/2", "1/4"]}),
    ("[[1,2],[3,4]]", {"form": "list", "values": ["1/1", "2/1", "3/1", "4/1"]}),
    ("[[3, 0.5], (2, 1)]", {"form": "list", "values": ["3/1", "1/2", "2/1", "1/1"]}),
    ("[-1,2]", {"form": "list", "values": ["-1/1", "2/1"]}),
    ("[2, -0.001]", {"form": "list", "values": ["2/1", "-1/1000"]}),
    ("[0,1]", {"form": "list", "values": ["0/1", "1/1"]}),
    ("[]", {"form": "list", "values": []}),
    ("[1,1,2]", {"form": "list", "values": ["1/1", "1/1", "2/1"]}),
    ("[012.5, 1e-2, .5, 1., 1.e2, +3, 2E+0]", {"form": "list", "values": ["25/2", "1/100", "1/2", "1/1", "100/1", "3/1", "2/1"]}),
    ("linspace(1, 5, 50)", {"form": "linspace", "start": "1/1", "stop": "5/1", "num": 50, "endpoint": True}),
    ("linspace(1,2)", {"form": "linspace", "start": "1/1", "stop": "2/1", "num": 50, "endpoint": True}),
    ("linspace(3, 1)", {"form": "linspace", "start": "3/1", "stop": "1/1", "num": 50, "endpoint": True}),
    ("linspace(1, 5, 3)", {"form": "linspace", "start": "1/1", "stop": "5/1", "num": 3, "endpoint": True}),
    ("linspace(2, 7, 1)", {"form": "linspace", "start": "2/1", "stop": "7/1", "num": 1, "endpoint": True}),
    ("linspace(2, 7, 0)", {"form": "linspace", "start": "2/1", "stop": "7/1", "num": 0, "endpoint": True}),
    ("linspace(1,5,3,0)", {"form": "linspace", "start": "1/1", "stop": "5/1", "num": 3, "endpoint": False}),
    ("linspace_range(1, 3, 2)", {"form": "linspace", "start": "1/1", "stop": "3/1", "num": 2, "endpoint": True}),
    ("range linspace(1,3,2)", {"form": "linspace", "start": "1/1", "stop": "3/1", "num": 2, "endpoint": True}),
    ("linspace(1, 3, 2) # not a range", {"form": "linspace", "start": "1/1", "stop": "3/1", "num": 2, "endpoint": True}),
    ("xlinspace (1, 2", {"form": "linspace", "start": "1/1", "stop": "2/1", "num": 50, "endpoint": True}),
    ("linspace(2)", {"form": "reject"}),
    ("linspace(1, 2, 2.0)", {"form": "reject"}),
    ("linspace", {"form": "reject"}),
    ("range(0.5, 3, 0.4)", {"form": "arange", "start": "1/2", "stop": "3/1", "step": "2/5"}),
    ("range(3)", {"form": "arange", "start": "0/1", "stop": "3/1", "step": "1/1"}),
    ("arange(1,3)", {"form": "arange", "start": "1/1", "stop": "3/1", "step": "1/1"}),
    ("range(2.5)", {"form": "arange", "start": "0/1", "stop": "5/2", "step": "1/1"}),
    ("range(1, 2, 0.25)", {"form": "arange", "start": "1/1", "stop": "2/1", "step": "1/4"}),
    # stop exactly on the lattice start + n*step, two-decimal parameters: the stop is excluded (6, 3, 10 radii)
    ("range(0.01, 0.07, 0.01)", {"form": "arange", "start": "1/100", "stop": "7/100", "step": "1/100", "lattice": True}),
    ("arange(0.02, 0.14, 0.04)", {"form": "arange", "start": "1/50", "stop": "7/50", "step": "1/25", "lattice": True}),
    ("range(0, 0.9, 0.09)", {"form": "arange", "start": "0/1", "stop": "9/10", "step": "9/100", "lattice": True}),
    ("range(5, 1)", {"form": "arange", "start": "5/1", "stop": "1/1", "step": "1/1"}),
    ("range(2, 5, 0)", {"form": "arange", "start": "2/1", "stop": "5/1", "step": "0/1"}),
    ("range(-1,3)", {"form": "arange", "start": "-1/1", "stop": "3/1", "step": "1/1"}),
    ("range(1,5,2,1)", {"form": "reject"}),
    ("[1 2]", {"form": "reject"}),
    ("[1,,2]", {"form": "reject"}),
    ("", {"form": "reject"}),
    ("[1", {"form": "reject"}),
    ("[[1,2],[3]]", {"form": "reject"}),
    ("--5", {"form": "reject"}),
    ("012", {"form": "reject"}),
]


def cases(ctx):
    for c in _cases(ctx):
        if c["kind"] == "str" and "arep" not in c:
            # a seed-chosen representation for every generated case: the text itself, and the grid handed to the array-level
            # functions (impl falls back to float64 when the grid's values cannot be written that way)
            c["arep"] = ctx.rng.choice(AREPS)
            c["trep"] = ctx.rng.choice([t for t in TREPS if trep_ok(t, c["s"])])
        yield c


def _cases(ctx):
    rng = ctx.rng
    for s, intent in CORPUS:
        yield {"kind": "str", "s": s, "alts": [], "intent": intent}
    yield from sweep_cases()
    ctx.extra_cov["representations"] = {
        "array_level_included": AREPS, "array_level_left_out": AREPS_LEFT_OUT,
        "text_level_included": TREPS, "text_level_left_out": TREPS_LEFT_OUT,
        "sweep": f"every included array representation of {len(SWEEP_RADII)} fixed radii sets and every included text "
                 f"representation (x 5 array representations of the grid) of {len(SWEEP_TEXTS)} fixed texts; every other case carries "
                 "one seed-chosen representation of each kind"}
    ctx.note("representation independence: array-level functions (get_increments, get_between_radii with and without "
             "include_zero, PositionVoronoi.get_voronoi_radii) receive the same radii as " + ", ".join(AREPS) + "; texts are also "
             "given as " + ", ".join(TREPS[1:]) + ". The expected result comes from the denoted numbers only. Left out (raise or "
             "genuinely differ on the unchanged tree): see coverage.representations")
    # the same radii through every syntax (hash must agree)
    yield {"kind": "str", "s": "[1, 2, 3]", "alts": ["(3,2,1)", "3, 1, 2", "linspace(1,3,3)", "linspace(3, 1, 3)", "range(1,4)",
                                                    "arange(3, 0.5, -1)", "[[1.0], [2e0], [ 30e-1 ]]", "\t[ +1 ,2.,03.0 ]"],
           "exact_alts": True, "intent": {"form": "list", "values": ["1/1", "2/1", "3/1"]}}
    big = not ctx.quick
    n = 2 if ctx.quick else 22
    ctx.note("np.arange decides its length as ceil((stop-start)/step) in float64 on the numbers the user wrote: a range/arange case "
             "is included iff that count equals the exact rational count from the decimal literals; otherwise it is excluded "
             "(branch excluded_arange_float_boundary), e.g. range(1, 1.3, 0.1) has four elements, range(0, 2.1, 0.3) eight")
    ctx.note("a float literal '-0.0' is not generated: it yields the array [-0.] whose bytes (hence grid_hash) differ from those "
             "of [0.] although both arrays compare equal; '-0' (the integer) is generated")
    ctx.note("texts outside the modelled fragment of Python's grammar (names, strings, comments, '_' in numbers, binary "
             "operators, calls) make the model abstain (branch model_abstains(fuzz)); they are only produced by the corruption "
             "generator and are not counted as non-trivial")
    for _ in range(900 * n):
        yield gen_list(rng, big)
    for _ in range(450 * n):
        yield gen_linspace(rng, big)
    for _ in range(450 * n):
        yield gen_arange(rng, big)
    for _ in range(150 * n):
        yield gen_equiv(rng)
    for _ in range(400 * n):
        yield gen_lattice(rng)
    for _ in range(500 * n):
        c = gen_fuzz(rng)
        if out_of_float_range(c):         # e.g. a deleted comma gluing digits onto an exponent: 10^615870 is not worth computing
            ctx.branch("excluded_float_range")
            continue
        yield c
    for _ in range(300 * n):
        yield gen_arr(rng)
    for _ in range(100 * n):
        yield gen_malformed(rng)


# ------------------------------------------------------------------------------------------------
# implementation side
# ------------------------------------------------------------------------------------------------
def _try(f):
    try:
        with core.quiet():
            v = f()
        a = np.asarray(v)
        return {"ok": [float(x) for x in a.ravel()], "shape": list(a.shape)}
    except Exception as e:
        return {"err": core.errname(e)}


def _parse(s):
    from molgri.space.translations import TranslationParser
    try:
        with core.quiet():
            tp = TranslationParser(s)
            g = np.asarray(tp.get_trans_grid())
            out = {"grid": [float(x) for x in g.ravel()], "shape": list(g.shape), "dtype": str(g.dtype),
                   "hash": tp.grid_hash, "name": tp.get_name(), "N": tp.get_N_trans()}
        return tp, out
    except MemoryError:
        raise
    except Exception as e:
        return None, {"err": core.errname(e)}


_OCTA = np.array([[1, 0, 0], [-1, 0, 0], [0, 1, 0], [0, -1, 0], [0, 0, 1], [0, 0, -1]], dtype=float)


def _voronoi_radii(x):
    """PositionVoronoi(o_grid, point_radii).get_voronoi_radii(): the public route to get_between_radii(.., include_zero=True)"""
    from molgri.space.voronoi import PositionVoronoi
    return PositionVoronoi(_OCTA, x, using_detailed_grid=False).get_voronoi_radii()


def _array_level(vals, name):
    """the array-level functions on the radii vals written in representation `name`; each call gets a fresh object"""
    from molgri.space.translations import get_between_radii, get_increments
    return {"inc": _try(lambda: get_increments(arep_build(name, vals))),
            "between": _try(lambda: get_between_radii(arep_build(name, vals))),
            "between0": _try(lambda: get_between_radii(arep_build(name, vals), include_zero=True)),
            # (no radii at all: the PositionVoronoi constructor itself raises ValueError before any radial function is reached;
            #  its construction cost grows quadratically with the number of shells: 1000 shells take 3.6 s)
            "pv": _try(lambda: _voronoi_radii(arep_build(name, vals))) if 0 < len(vals) <= 60 else None}


def impl(case):
    if case["kind"] == "arr":
        vals = [float(core.unrat(v)) for v in case["r"]]
        return _array_level(vals, case.get("rep", "f64"))
    tp, out = _parse(case["s"])
    if tp is not None:
        out["inc"] = _try(tp.get_increments)
        g = np.asarray(tp.get_trans_grid())
        vals = [float(v) for v in g.ravel()]
        name = case.get("arep", "f64")
        if g.ndim != 1 or not arep_ok(name, vals):
            name = "f64"
        out["arep_used"] = name
        al = _array_level(vals, name) if g.ndim == 1 else _array_level(g, "f64")
        out["inc_fn"], out["between"], out["between0"], out["pv"] = al["inc"], al["between"], al["between0"], al["pv"]
        out["sum"] = _try(tp.sum_increments_from_first_radius)
    out["alts"] = [_parse(a)[1] for a in case.get("alts", [])]
    t = case.get("trep", "str")
    if t != "str":
        out["trep"] = _parse(trep_build(t, case["s"]))[1]
    return out


def model_ops(case, out):
    if case["kind"] == "arr":
        return [{"op": "increments", "r": case["r"]}, {"op": "between", "r": case["r"], "zero": False},
                {"op": "between", "r": case["r"], "zero": True}]
    return [{"op": "full", "s": case["s"]}] + [{"op": "parse", "s": a} for a in case.get("alts", [])]


# ------------------------------------------------------------------------------------------------
# helpers shared by correspondence and oracle
# ------------------------------------------------------------------------------------------------
def vec_close(fl, ex, scale):
    """floats fl against exact Fractions ex: |a-b| <= TOL_REL * max(scale, |b|)"""
    if len(fl) != len(ex):
        return False
    for a, b in zip(fl, ex):
        if not math.isfinite(a):
            return False
        if abs(Fraction(a) - b) > Fraction(TOL_REL) * max(scale, abs(b)):
            return False
    return True


def intended(intent):
    """the mathematically intended distances in nm (unsorted), None for 'no grid' (an exception is expected),
    'skip' for excluded cases"""
    f = intent["form"]
    if f == "list":
        return [core.unrat(v) for v in intent["values"]]
    if f == "linspace":
        a, b, n = core.unrat(intent["start"]), core.unrat(intent["stop"]), intent["num"]
        div = n - 1 if intent["endpoint"] else n
        return [a + k * (b - a) / div if div else a for k in range(n)]
    if f == "arange":
        a, b, st = core.unrat(intent["start"]), core.unrat(intent["stop"]), core.unrat(intent["step"])
        if st == 0:
            return None
        if arange_excluded(a, b, st):
            return "skip"
        n = max(math.ceil((b - a) / st), 0)
        return [a + k * st for k in range(n)]
    if f == "reject":
        return None
    return "fuzz"


def min_gap_rel(ex):
    """smallest relative gap between consecutive sorted exact values"""
    s = sorted(ex)
    if len(s) < 2:
        return 1.0
    m = max(abs(s[-1]), abs(s[0]), Fraction(1, 10 ** 30))
    return float(min(b - a for a, b in zip(s, s[1:])) / m)


def res_eq(ctx, what, case, impl_res, model_res, scale):
    """compare {'ok': floats}/{'err'} of the implementation with {'ok': rats}/{'err'} of the model"""
    if "err" in impl_res or "err" in model_res:
        if impl_res.get("err") != model_res.get("err"):
            ctx.corr(what + "/outcome", case, impl_res, model_res)
            return False
        return True
    mv = model_res["ok"]
    mv = [core.unrat(v) for v in mv] if isinstance(mv, list) else [core.unrat(mv)]
    if len(impl_res.get("shape", [0])) > 1 or not vec_close(impl_res["ok"], mv, scale):
        ctx.corr(what + "/values", case, impl_res, model_res)
        return False
    return True


def out_of_float_range(case):
    """texts whose numbers leave the range where a double behaves like the decimal it was written as (overflow to inf,
    underflow to 0): nothing is claimed about them"""
    return any(abs(int(x)) > 250 for t in [case["s"]] + case.get("alts", []) for x in re.findall(r"[eE]([+-]?\d+)", t))


def compare(ctx, case, out, mouts):
    if case["kind"] == "str" and out_of_float_range(case):
        ctx.branch("excluded_float_range")
        return
    if case["kind"] == "arr":
        r = [core.unrat(v) for v in case["r"]]
        scale = max([abs(x) for x in r] + [Fraction(0)])
        near = min_gap_rel(r) < 1e-9 and min_gap_rel(r) != 0.0
        if near:
            ctx.branch("excluded_near_tie")
            return
        for key, m in zip(("inc", "between", "between0", "pv"), list(mouts) + [mouts[2]]):
            mm = {"ok": m["ok"]} if "ok" in m else m
            if out[key] is not None:
                res_eq(ctx, "array/" + key, case, out[key], mm, scale)
        ctx.branch("arr_" + ("ok" if "ok" in out["between"] else out["between"]["err"]))
        ctx.branch("arep=" + case.get("rep", "f64"))
        if "ok" in out["between"]:
            ctx.nt(("arr", tuple(case["r"])))
        return
    m = mouts[0]
    form = case["intent"]["form"]
    if m.get("err") == "unsupported":
        ctx.branch("model_abstains(" + form + ")")
        if form in ("list", "linspace", "arange") and intended(case["intent"]) != "skip":
            ctx.corr("model abstains on a generated form", case, out, m)
        return
    if form == "arange" and intended(case["intent"]) == "skip":
        ctx.branch("excluded_arange_float_boundary")
        # the exclusion rests on the float64 count formula: keep validating it against the implementation
        it = case["intent"]
        fl = arange_float_len(core.unrat(it["start"]), core.unrat(it["stop"]), core.unrat(it["step"]))
        if "grid" in out and len(out["grid"]) != fl:
            ctx.corr("arange/float_count_formula", case, len(out["grid"]), fl)
        return
    if "err" in out or "err" in m:
        if out.get("err") != m.get("err"):
            ctx.corr("parse/outcome", case, {k: out[k] for k in out if k != "alts"}, m)
        ctx.branch("outcome_" + str(out.get("err", "ok")))
        return
    mg = [core.unrat(v) for v in m["ok"]["grid"]]
    scale = max([abs(x) for x in mg] + [Fraction(0)])
    if len(out["shape"]) != 1 or out["dtype"] != "float64" or not vec_close(out["grid"], mg, scale):
        ctx.corr("parse/grid", case, {k: out[k] for k in ("grid", "shape", "dtype")}, m["ok"]["grid"])
        return
    if out["N"] != len(mg):
        ctx.corr("parse/N", case, out["N"], len(mg))
    ctx.branch("outcome_ok")
    ctx.branch("form_" + form)
    ctx.branch("T=" + (str(len(mg)) if len(mg) <= 3 else "4-12" if len(mg) <= 12 else ">12"))
    if "\t" in case["s"] or "  " in case["s"]:
        ctx.branch("has_tabs_or_runs_of_blanks")
    if "[[" in case["s"].replace(" ", "").replace("\t", "") or "[(" in case["s"].replace(" ", "").replace("\t", ""):
        ctx.branch("nested")
    if "e" in case["s"].lower().replace("linspace", "").replace("range", ""):
        ctx.branch("exponent_spelling")
    if mg:
        ctx.nt(case["s"])
    # getters chained on the grid
    g = min_gap_rel(mg)
    if 0.0 < g < 1e-9 or (mg and 0 < mg[0] < Fraction(1, 10 ** 9) * scale):
        ctx.branch("excluded_near_tie")
    else:
        for key, mkey in (("inc", "inc"), ("inc_fn", "inc"), ("between", "between"), ("between0", "between0"), ("pv", "between0"),
                          ("sum", "sum")):
            if out[key] is not None:
                res_eq(ctx, "parse/" + key, case, out[key], m["ok"][mkey], scale)
        ctx.branch("arep=" + out.get("arep_used", "f64"))
    # alternative spellings
    for a, ao, am in zip(case.get("alts", []), out["alts"], mouts[1:]):
        if am.get("err") == "unsupported":
            ctx.corr("model abstains on a generated form", {"s": a}, ao, am)
            continue
        if "err" in ao or "err" in am:
            if ao.get("err") != am.get("err"):
                ctx.corr("parse/outcome(alt)", {"s": a, "of": case["s"]}, ao, am)
            continue
        amg = [core.unrat(v) for v in am["ok"]]
        if not vec_close(ao["grid"], amg, scale):
            ctx.corr("parse/grid(alt)", {"s": a, "of": case["s"]}, ao["grid"], am["ok"])
        elif amg == mg and ao["hash"] != out["hash"] and ao["grid"] == out["grid"]:
            # the model maps both texts to the same array, the implementation to bit-identical arrays, yet two identifiers
            ctx.corr("hash across syntaxes", {"s": a, "of": case["s"]}, ao["hash"], out["hash"])
    if len(ctx.samples) < 6 and len(mg) >= 2 and form in ("list", "linspace", "arange") and ctx.rng.random() < 0.02:
        ctx.sample({"s": case["s"], "alts": case.get("alts", []), "grid": out["grid"][:8]})


# ------------------------------------------------------------------------------------------------
# oracle: the statement of C16 on the implementation
# ------------------------------------------------------------------------------------------------
def md5id(values):
    return int(hashlib.md5(np.array(values, dtype=float).tobytes()).hexdigest()[:8], 16)


def check_boundaries(ctx, case, r, inc, bet, bet0, where, inc_fn=None, pv=None):
    """increments / between-radii clauses for radii r (floats: strictly increasing, r[0] >= 0); inc_fn = the module-level
    get_increments on the chosen representation, pv = PositionVoronoi(..).get_voronoi_radii() (boundaries with the zero)"""
    T = len(r)
    tol = TOL_REL * max(r)
    for inc in [inc] + ([inc_fn] if inc_fn is not None else []):
        if "ok" not in inc:
            ctx.fail("C16:increments", f"{where}: get_increments raised {inc['err']} for strictly increasing non-negative radii",
                     case, observed=inc)
            return
        iv = inc["ok"]
        want = [r[0]] + [r[k] - r[k - 1] for k in range(1, T)]
        if len(iv) != T or any(abs(a - b) > tol for a, b in zip(iv, want)) or any(not (v > 0) for v in iv[1:]) or not (iv[0] >= 0):
            ctx.fail("C16:increments", f"{where}: increments are not [r_1, r_2-r_1, ...] (differences positive)", case, want, iv)
            return
    for name, res, zero in (("between", bet, False), ("between0", bet0, True)) + ((("voronoi_radii", pv, True),) if pv else ()):
        if "ok" not in res:
            ctx.fail("C16:between", f"{where}: {name} (include_zero={zero}) raised {res['err']}", case, observed=res)
            return
        if len(res.get("shape", [0])) != 1:
            ctx.fail("C16:between", f"{where}: {name} is not a flat array: shape {res['shape']}", case, observed=res)
            return
        R = res["ok"]
        if zero:
            if len(R) != T + 1 or R[0] != 0:
                ctx.fail("C16:between_zero", f"{where}: include_zero must prepend exactly one 0", case, observed=R)
                return
            R = R[1:]
        if len(R) != T:
            ctx.fail("C16:between", f"{where}: {len(R)} boundaries for {T} radii", case, observed=R)
            return
        if T == 1:
            if abs(R[0] - 2 * r[0]) > tol:
                ctx.fail("C16:between_single", f"{where}: single radius: R_1 must be 2*r_1", case, 2 * r[0], R[0])
                return
            continue
        for k in range(T - 1):
            if not (r[k] < R[k] < r[k + 1]):
                ctx.fail("C16:between_interleave", f"{where}: r_{k+1} < R_{k+1} < r_{k+2} fails", case, [r[k], r[k + 1]], R[k])
                return
            if abs(R[k] - (r[k] + r[k + 1]) / 2) > tol:
                ctx.fail("C16:between_midpoint", f"{where}: R_{k+1} is not the midpoint", case, (r[k] + r[k + 1]) / 2, R[k])
                return
        last = r[-1] + (r[-1] - r[-2]) / 2
        if abs(R[-1] - last) > tol or not (R[-1] > r[-1]):
            ctx.fail("C16:between_last", f"{where}: R_T must be r_T + (r_T - r_(T-1))/2", case, last, R[-1])
            return


def oracle(ctx, case, out):
    if case["kind"] == "arr":
        r = [float(core.unrat(v)) for v in case["r"]]
        T = len(r)
        if T >= 1 and r[0] >= 0 and all(b - a > 1e-9 * r[-1] for a, b in zip(r, r[1:])) and r == sorted(r):
            check_boundaries(ctx, case, r, out["inc"], out["between"], out["between0"],
                             f"array given as {case.get('rep', 'f64')}", pv=out["pv"])
        return
    if out_of_float_range(case):
        return
    if "trep" in out:
        # the same text in another representation the constructor accepts: same outcome, bit for bit
        t, base = out["trep"], {k: out.get(k) for k in ("err", "grid", "hash", "N")}
        if ("err" in out) != ("err" in t) or base != {k: t.get(k) for k in ("err", "grid", "hash", "N")} or \
                [math.copysign(1, v) for v in out.get("grid", [])] != [math.copysign(1, v) for v in t.get("grid", [])]:
            ctx.fail("C16:text_representation", f"the text given as {case['trep']} does not give the outcome of the plain str", case,
                     base, {k: t.get(k) for k in ("err", "grid", "hash", "N")})
            return
        ctx.branch("trep=" + case["trep"])
    want = intended(case["intent"])
    if want == "skip":
        return
    accepted = "err" not in out
    if want is None:
        if accepted:
            ctx.fail("C16:accepts_malformed", "a malformed / ill-typed radial grid text was accepted", case, observed=out["grid"])
        return
    if want != "fuzz":
        neg = any(v < 0 for v in want)
        if neg:
            if accepted:
                ctx.fail("C16:negative_accepted", "a grid with a negative distance was accepted", case,
                         [float(v) for v in want], out["grid"])
            ctx.branch("negative_rejected")
            return
        if not accepted:
            ctx.fail("C16:rejected", f"an accepted textual form with non-negative distances raised {out['err']}", case,
                     [float(10 * v) for v in sorted(want)], out)
            return
    if not accepted:
        return
    g = out["grid"]
    if len(out["shape"]) != 1 or out["dtype"] != "float64":
        ctx.fail("C16:not_flat", f"grid is not a flat float array: shape {out['shape']} dtype {out['dtype']}", case, observed=g)
        return
    # ascending, non-negative - for every accepted text, whatever its form
    if any(not (a <= b) for a, b in zip(g, g[1:])):
        ctx.fail("C16:not_ascending", "radii are not in ascending order", case, sorted(g), g)
        return
    if any(not (v >= 0) for v in g):
        ctx.fail("C16:negative_in_grid", "grid contains a negative (or NaN) distance", case, observed=g)
        return
    if want != "fuzz":
        ex = sorted(10 * v for v in want)
        scale = max([abs(x) for x in ex] + [Fraction(0)])
        if case["intent"]["form"] == "arange" and len(g) != len(ex):
            ctx.fail("C16:arange_count", f"range/arange yields {len(g)} radii, the intended progression start + k*step before stop "
                     f"has {len(ex)} (exact and float64 count on the written numbers agree)", case, [float(v) for v in ex], g)
            return
        if case["intent"].get("lattice"):
            ctx.branch("lattice_stop_checked")
        if not vec_close(g, ex, scale):
            ctx.fail("C16:values", "radii are not the intended distances x 10 in ascending order", case, [float(v) for v in ex], g)
            return
    # identifier is a function of the array alone
    if out["hash"] != md5id(g) or out["name"] != str(out["hash"]) or out["N"] != len(g):
        ctx.fail("C16:hash", "identifier / name / N is not a function of the array of distances", case,
                 {"hash": md5id(g), "N": len(g)}, {k: out[k] for k in ("hash", "name", "N")})
        return
    for a, ao in zip(case.get("alts", []), out["alts"]):
        if "err" in ao:
            ctx.fail("C16:alt_rejected", f"another spelling of the same distances raised {ao['err']}", {**case, "alt": a})
            return
        same = ao["grid"] == g and [math.copysign(1, v) for v in ao["grid"]] == [math.copysign(1, v) for v in g]
        if case.get("exact_alts") or want != "fuzz":
            ex = sorted(10 * v for v in want)
            if not vec_close(ao["grid"], ex, max([abs(x) for x in ex] + [Fraction(0)])):
                ctx.fail("C16:values", "another spelling of the same distances gives other radii", {**case, "alt": a},
                         [float(v) for v in ex], ao["grid"])
                return
        if case["intent"]["form"] == "list" and not same:
            # respellings of the same decimals (and, for exact_alts, exactly representable progressions) must agree bit for bit
            ctx.fail("C16:hash_syntax", "the same distances written differently give a different array", {**case, "alt": a},
                     g, ao["grid"])
            return
        if same and ao["hash"] != out["hash"]:
            ctx.fail("C16:hash_syntax", "identical arrays of distances, different identifiers", {**case, "alt": a},
                     out["hash"], ao["hash"])
            return
        ctx.branch("alt_spelling_checked")
    # increments and shell boundaries
    T = len(g)
    if T == 0:
        ctx.branch("empty_grid")
        return
    distinct = all(b - a > 1e-9 * g[-1] for a, b in zip(g, g[1:]))
    if not distinct:
        ctx.branch("radii_not_distinct(outside quantifier)")
        return
    if g[0] == 0:
        # a zero first radius is an accepted distance; since cae935f increments and boundaries must exist for it too
        ctx.branch("first_radius_zero")
    check_boundaries(ctx, case, g, out["inc"], out["between"], out["between0"], f"grid handed on as {out.get('arep_used', 'f64')}",
                     inc_fn=out.get("inc_fn"), pv=out.get("pv"))
    if "ok" in out.get("sum", {}):
        s = out["sum"]["ok"][0]
        if abs(s - (g[-1] - g[0])) > 1e-9 * g[-1]:
            ctx.fail("C16:sum_increments", "sum of increments from the first radius is not r_T - r_1", case, g[-1] - g[0], s)
